"""Rebuild the Rust extension of the *current working tree* of $SOLVOR_REPO in a scratch directory (C12).

    info = rustbuild.build()      # once per process; later calls return the same dict
    info["pkg"]                   # directory to put first on sys.path: contains a copy of solvor/
                                  # with the freshly built solvor/_solvor_rust<EXT_SUFFIX> inside

What is done, every run, nothing cached between runs:

1. scratch root  <tmp>/backend_build_<pid>_XXXX   (outside /repo and /verif; removed at exit; stale roots
   of dead processes are removed first);
2. copy  $REPO/rust  (without target/) to <root>/rust  and  $REPO/solvor  (without *.so / *.pyd /
   __pycache__, i.e. without any previously built extension) to <root>/pkg/solvor;
3. `cargo build --release --offline --manifest-path <root>/rust/Cargo.toml` with
   CARGO_NET_OFFLINE=true, CARGO_TARGET_DIR=<root>/target, PYO3_PYTHON=<this interpreter>
   (the crates come from the local registry cache in ~/.cargo; ~25 s);
4. copy <root>/target/release/lib<lib.name>.so to <root>/pkg/<module path><EXT_SUFFIX>, where lib.name is
   read from rust/Cargo.toml and the module path from `[tool.maturin] module-name` in pyproject.toml
   (what `maturin develop` would do);
5. import check in a fresh interpreter: solvor and solvor._solvor_rust must both load from <root>/pkg.

If cargo itself is unavailable the function falls back to an extension that is already importable
from $REPO (mode "prebuilt-fallback", recorded in the evidence); a *compile error* of the working
tree's rust/ is an infrastructure failure (exit 2), not a fallback.
"""
from __future__ import annotations

import atexit
import hashlib
import os
import shutil
import subprocess
import sys
import sysconfig
import tempfile
import time
import tomllib
from pathlib import Path

from core import REPO, VERIF, Infra

_INFO: dict | None = None
PREFIX = "backend_build_"


def _tmp_base() -> Path:
    base = Path(tempfile.gettempdir()).resolve()
    for forbidden in (Path("/repo"), VERIF.resolve(), REPO.resolve()):
        if base == forbidden or forbidden in base.parents:
            base = Path("/tmp")
    return base


def _remove_stale(base: Path) -> None:
    for d in base.glob(PREFIX + "*"):
        try:
            pid = int(d.name[len(PREFIX):].split("_")[0])
        except ValueError:
            continue
        if pid == os.getpid():
            continue
        try:
            os.kill(pid, 0)
        except ProcessLookupError:
            shutil.rmtree(d, ignore_errors=True)
        except PermissionError:
            pass


def _src_hash(root: Path) -> str:
    h = hashlib.sha256()
    for f in sorted(p for p in root.rglob("*") if p.is_file()):
        h.update(str(f.relative_to(root)).encode())
        h.update(f.read_bytes())
    return h.hexdigest()[:16]


def cleanup() -> None:
    global _INFO
    if _INFO is not None:
        shutil.rmtree(_INFO["root"], ignore_errors=True)
        _INFO = None


def build() -> dict:
    global _INFO
    if _INFO is not None:
        return _INFO
    t0 = time.time()
    base = _tmp_base()
    _remove_stale(base)
    root = Path(tempfile.mkdtemp(prefix=f"{PREFIX}{os.getpid()}_", dir=base))
    owner = os.getpid()

    def _cleanup_owner():  # forked workers must not delete the parent's scratch directory
        if os.getpid() == owner:
            cleanup()

    atexit.register(_cleanup_owner)
    info = {"root": str(root), "pkg": str(root / "pkg"), "repo": str(REPO)}
    _INFO = info
    try:
        shutil.copytree(REPO / "rust", root / "rust", ignore=shutil.ignore_patterns("target"))
        shutil.copytree(REPO / "solvor", root / "pkg" / "solvor",
                        ignore=shutil.ignore_patterns("*.so", "*.pyd", "__pycache__"))
        cargo = tomllib.loads((root / "rust" / "Cargo.toml").read_text())
        libname = cargo.get("lib", {}).get("name") or cargo["package"]["name"].replace("-", "_")
        module = "solvor._solvor_rust"
        pp = REPO / "pyproject.toml"
        if pp.exists():
            module = tomllib.loads(pp.read_text()).get("tool", {}).get("maturin", {}).get("module-name", module)
        dest = root / "pkg" / Path(*module.split("."))
        dest = dest.with_name(dest.name + sysconfig.get_config_var("EXT_SUFFIX"))
        info["module"] = module
        info["rust_src_hash"] = _src_hash(root / "rust")
        cargo_bin = shutil.which("cargo") or str(Path.home() / ".cargo" / "bin" / "cargo")
        env = dict(os.environ, CARGO_NET_OFFLINE="true", CARGO_TARGET_DIR=str(root / "target"),
                   PYO3_PYTHON=sys.executable, CARGO_TERM_COLOR="never")
        cmd = [cargo_bin, "build", "--release", "--offline", "--manifest-path", str(root / "rust" / "Cargo.toml")]
        info["build_cmd"] = " ".join(cmd)
        if not Path(cargo_bin).exists():
            _fallback(info, dest, "cargo not found")
        else:
            p = subprocess.run(cmd, cwd=root / "rust", env=env, capture_output=True, text=True, timeout=1800)
            if p.returncode != 0:
                tail = (p.stdout + p.stderr)[-3000:]
                if "error: no matching package" in tail or "failed to download" in tail or "offline" in tail.lower() \
                        and "error[" not in tail:
                    _fallback(info, dest, "cargo cannot resolve the crates offline: " + tail[-600:])
                else:
                    raise Infra("cargo build of the working tree's rust/ failed:\n" + tail)
            else:
                so = root / "target" / "release" / f"lib{libname}.so"
                if not so.exists():
                    raise Infra(f"cargo build succeeded but {so} is missing")
                dest.parent.mkdir(parents=True, exist_ok=True)
                shutil.copy2(so, dest)
                info["mode"] = "cargo-offline"
        info["so"] = str(dest)
        # import check in a fresh interpreter
        code = ("import sys; sys.path.insert(0, sys.argv[1]); import importlib, solvor; "
                "m = importlib.import_module(sys.argv[2]); import solvor.rust as r; "
                "print(solvor.__file__); print(m.__file__); print(r.rust_available()); print(r.get_backend(None))")
        p = subprocess.run([sys.executable, "-c", code, info["pkg"], module], capture_output=True, text=True,
                           cwd="/", timeout=120, env={k: v for k, v in os.environ.items() if k != "PYTHONPATH"})
        lines = p.stdout.split()
        if p.returncode != 0 or len(lines) != 4 or not lines[0].startswith(info["pkg"]) \
                or not lines[1].startswith(info["pkg"]) or lines[2] != "True":
            raise Infra(f"freshly built extension does not import from the scratch package: {p.stdout} {p.stderr[-1500:]}")
        info["default_backend"] = lines[3]
        info["build_s"] = round(time.time() - t0, 1)
        return info
    except BaseException:
        cleanup()
        raise


def _fallback(info: dict, dest: Path, why: str) -> None:
    """Use an extension that is already importable from $REPO (stated in the evidence)."""
    cands = sorted((REPO / "solvor").glob("_solvor_rust*.so"))
    if not cands:
        raise Infra(f"{why}; and no prebuilt extension in {REPO}/solvor to fall back to")
    dest.parent.mkdir(parents=True, exist_ok=True)
    shutil.copy2(cands[0], dest)
    info["mode"] = "prebuilt-fallback"
    info["fallback_reason"] = why
    info["fallback_from"] = str(cands[0])
