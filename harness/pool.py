"""Run the real implementation in forked worker processes under a per-call wall-clock limit.

`run_pool(fn, tasks, timeout)` calls `fn(task)` for every task, in worker processes (one per
core by default), and returns a list of ("ok", value) / ("err", "ExcName: msg") / ("timeout", secs)
in task order.  A worker that exceeds the limit is killed and replaced, so a non-terminating
call costs `timeout` seconds of one core and nothing else.  `fn` must be a module-level function
(workers are forked, so closures over module state work too) and return something picklable.
"""
from __future__ import annotations

import multiprocessing as mp
import os
import time
import traceback
from multiprocessing.connection import wait


def _worker(fn, conn):
    import sys
    # the implementation runs under CPython's DEFAULT recursion limit (what a user gets); the parent
    # harness process raises its own limit, which fork would otherwise hand down
    sys.setrecursionlimit(1000)
    try:  # die with the dispatcher even if it is SIGKILLed
        import ctypes
        import signal
        ctypes.CDLL("libc.so.6", use_errno=True).prctl(1, signal.SIGKILL)
    except Exception:
        pass
    while True:
        try:
            msg = conn.recv()
        except EOFError:
            return
        if msg is None:
            return
        idx, task = msg
        try:
            val = fn(task)
            conn.send((idx, "ok", val))
        except BaseException as e:  # noqa: BLE001 - the error kind is an observable
            tb = traceback.format_exc(limit=4)
            conn.send((idx, "err", f"{type(e).__name__}: {e}"[:500] + "\n" + tb[-600:]))


class _W:
    def __init__(self, ctx, fn):
        self.parent, child = ctx.Pipe()
        self.proc = ctx.Process(target=_worker, args=(fn, child), daemon=True)
        self.proc.start()
        child.close()
        self.idx = None
        self.deadline = None

    def kill(self):
        try:
            self.proc.kill()
            self.proc.join(0.05)  # do not block the dispatcher; the zombie is reaped by a later join/exit
        except Exception:
            pass
        try:
            self.parent.close()
        except Exception:
            pass


def run_pool(fn, tasks, timeout: float = 10.0, procs: int | None = None):
    n = len(tasks)
    res = [None] * n
    if n == 0:
        return res
    ctx = mp.get_context("fork")
    procs = max(1, min(procs or (os.cpu_count() or 4), n))
    workers = [_W(ctx, fn) for _ in range(procs)]
    nxt = 0
    done = 0
    try:
        while done < n:
            for w in workers:
                if w.idx is None and nxt < n:
                    w.idx = nxt
                    w.deadline = time.time() + timeout
                    w.parent.send((nxt, tasks[nxt]))
                    nxt += 1
            busy = [w for w in workers if w.idx is not None]
            if not busy:
                break
            now = time.time()
            wt = max(0.0, min(w.deadline for w in busy) - now)
            ready = wait([w.parent for w in busy], timeout=min(wt, 1.0))
            for w in busy:
                if w.parent in ready:
                    try:
                        idx, kind, val = w.parent.recv()
                        res[idx] = (kind, val)
                    except (EOFError, OSError):
                        res[w.idx] = ("err", "WorkerDied: worker process died (crash or os._exit)")
                        w.kill()
                        workers[workers.index(w)] = _W(ctx, fn)
                    else:
                        w.idx = None
                    done += 1
                elif time.time() > w.deadline and not w.parent.poll(0):
                    # (poll again: the result may have arrived while other workers were being handled)
                    res[w.idx] = ("timeout", timeout)
                    done += 1
                    w.kill()
                    workers[workers.index(w)] = _W(ctx, fn)
    finally:
        for w in workers:
            try:
                w.parent.send(None)
            except Exception:
                pass
            w.kill()
    return res


def err_kind(r) -> str:
    """Small enum for an outcome: ok / timeout / exception class name."""
    if r[0] == "ok":
        return "ok"
    if r[0] == "timeout":
        return "Timeout"
    return r[1].split(":", 1)[0]
