"""Per-property claims. Edit here, then run `python3 harness/mkmanifest.py`."""

CHECKS = [
    {
        "property_id": "C07",
        "category": "proof",
        "technique": "Lean 4 proof (Algorithm X model sound/complete/duplicate-free for every matrix, also under "
                     "cut-offs) + verified checker on implementation output + mirror correspondence",
        "text": "Lean theorems algx_sound, algx_complete_nodup, algx_infeasible_iff, algx_limited_sound, isCover_iff "
                "hold for every matrix, every secondary set and every cut-off setting of the functional Algorithm X "
                "model; the model is tied to solvor/dlx.py on every run by comparing status and the ordered list of "
                "returned selections on seeded random matrices, and every selection the real code returns is pushed "
                "through the verified checker isCover.",
        "note": "Trusted: Lean kernel (propext, Classical.choice, Quot.sound), the hand-written model's fidelity "
                "(sampled by the correspondence check; DLX pointer surgery abstracted to the set of covered columns), "
                "the Python harness.",
    },
]

_PENDING = "check not built yet in this round (planned in DESIGN.md §4); no claim made"
NOT_APPLICABLE = [
    {"property_id": f"C{i:02d}", "reason": _PENDING}
    for i in range(1, 21) if f"C{i:02d}" not in {c["property_id"] for c in CHECKS}
]
