"""Per-property claims. Edit here, then run `python3 harness/mkmanifest.py`."""

CHECKS = [
    {
        "property_id": "C07",
        "category": "proof",
        "technique": "Lean 4 proof (Algorithm X model sound/complete/duplicate-free for every matrix, also under "
                     "cut-offs) + verified checker on implementation output + mirror correspondence",
        "text": "Lean theorems algx_sound, algx_complete_nodup, algx_infeasible_iff, algx_limited_sound, isCover_iff "
                "hold for every matrix, every secondary set and every cut-off setting of the functional Algorithm X "
                "model; the model is tied to solvor/dlx.py on every run by comparing status and the ordered list of "
                "returned selections on seeded random matrices, and every selection the real code returns is pushed "
                "through the verified checker isCover.",
        "note": "Trusted: Lean kernel (propext, Classical.choice, Quot.sound), the hand-written model's fidelity "
                "(sampled by the correspondence check; DLX pointer surgery abstracted to the set of covered columns), "
                "the Python harness.",
    },
]

CHECKS.append({
    "property_id": "C20",
    "category": "proof",
    "technique": "Lean 4 refinement proofs (union-find == quick-find reference for every history; Fenwick tree == "
                 "plain array for every initial list and history, index walks regenerated from the source) + "
                 "history-level correspondence",
    "text": "Theorems uf_refines (every size, every in-range history of union/find/connected/count/sizes/components: "
            "the Batteries.UnionFind-based mirror returns what the one-label-per-element reference returns), "
            "qf_count_is_classes, qf_union_classes, fenwick_refines and fenwick_refines_zeros (every initial list, every "
            "in-range history of update/prefix/range_sum equals the plain array). The Fenwick index expressions are "
            "translated from data_structures.py on every run, so the theorems are re-checked against the current source; "
            "random histories are run through the real classes and the models and every return value is compared.",
    "note": "Trusted: Lean kernel + propext/Classical.choice/Quot.sound, the ast-based translator for the index walks, "
            "the hand-written composition of Batteries.UnionFind operations (tie: roots returned by find are compared), "
            "exactness of small-integer/dyadic doubles, the harness.",
})

CHECKS.append({
    "property_id": "C19",
    "category": "proof",
    "technique": "Lean 4 proof of nine bookkeeping skeletons (best-so-far rules as folds over arbitrary event streams) + "
                 "verified checker on recorded traces of the real solvers + per-run skeleton replay",
    "text": "For anneal, tabu_search, lns, alns, evolve, differential_evolution, particle_swarm, nelder_mead and "
            "bayesian_opt the Lean skeletons encode each solver's own update rule with RNG, exp and user callbacks "
            "abstracted to quantified event payloads; *_best_is_min_of_evaluated, *_evals_eq_calls, to_user_sign, "
            "solvers_mirror_min_max, clip_in_bounds hold for every event stream. On every run the real solvers are "
            "executed with a recording objective proxy; the verified checker checkResult decides the property's "
            "clauses on the recorded trace, the skeleton replay must reproduce the returned best, runs are repeated "
            "(determinism) and mirrored (max f vs min -f). powell/bfgs/lbfgs: reported objective = f(returned point).",
    "note": "Trusted: Lean kernel + standard axioms; RNG/exp/callbacks abstracted (not modelled); objective values "
            "integer or dyadic; the model mirrors /repo with the six C19 fix commits; harness recording proxy.",
})

_PENDING = "check not built yet in this round (planned in DESIGN.md §4); no claim made"
NOT_APPLICABLE = [
    {"property_id": f"C{i:02d}", "reason": _PENDING}
    for i in range(1, 21) if f"C{i:02d}" not in {c["property_id"] for c in CHECKS}
]
