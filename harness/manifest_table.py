"""Per-property claims. Edit here, then run `python3 harness/mkmanifest.py`."""

CHECKS = [
    {
        "property_id": "C07",
        "category": "proof",
        "technique": "Lean 4 proof (Algorithm X model sound/complete/duplicate-free for every matrix, also under "
                     "cut-offs) + verified checker on implementation output + mirror correspondence",
        "text": "Lean theorems algx_sound, algx_complete_nodup, algx_infeasible_iff, algx_limited_sound, isCover_iff "
                "hold for every matrix, every secondary set and every cut-off setting of the functional Algorithm X "
                "model; the model is tied to solvor/dlx.py on every run by comparing status and the ordered list of "
                "returned selections on seeded random matrices, and every selection the real code returns is pushed "
                "through the verified checker isCover.",
        "note": "Trusted: Lean kernel (propext, Classical.choice, Quot.sound), the hand-written model's fidelity "
                "(sampled by the correspondence check; DLX pointer surgery abstracted to the set of covered columns), "
                "the Python harness.",
    },
]

CHECKS.append({
    "property_id": "C20",
    "category": "proof",
    "technique": "Lean 4 refinement proofs (union-find == quick-find reference for every history; Fenwick tree == "
                 "plain array for every initial list and history, index walks regenerated from the source) + "
                 "history-level correspondence",
    "text": "Theorems uf_refines (every size, every in-range history of union/find/connected/count/sizes/components: "
            "the Batteries.UnionFind-based mirror returns what the one-label-per-element reference returns), "
            "qf_count_is_classes, qf_union_classes, fenwick_refines and fenwick_refines_zeros (every initial list, every "
            "in-range history of update/prefix/range_sum equals the plain array), fenwick_updates_eq_rebuild and "
            "fenwick_history_independent (the internal tree after any update history is the list the constructor builds "
            "from the updated array; compared with the real _tree on every history). The Fenwick index expressions are "
            "translated from data_structures.py on every run, so the theorems are re-checked against the current source; "
            "random histories are run through the real classes and the models and every return value is compared.",
    "note": "Trusted: Lean kernel + propext/Classical.choice/Quot.sound, the ast-based translator for the index walks, "
            "the hand-written composition of Batteries.UnionFind operations (tie: roots returned by find are compared), "
            "exactness of small-integer/dyadic doubles, the harness.",
})

CHECKS.append({
    "property_id": "C19",
    "category": "proof",
    "technique": "Lean 4 proof of nine bookkeeping skeletons (best-so-far rules as folds over arbitrary event streams) + "
                 "verified checker on recorded traces of the real solvers + per-run skeleton replay",
    "text": "For anneal, tabu_search, lns, alns, evolve, differential_evolution, particle_swarm, nelder_mead and "
            "bayesian_opt the Lean skeletons encode each solver's own update rule with RNG, exp and user callbacks "
            "abstracted to quantified event payloads; *_best_is_min_of_evaluated, *_evals_eq_calls, to_user_sign, "
            "solvers_mirror_min_max, clip_in_bounds hold for every event stream. On every run the real solvers are "
            "executed with a recording objective proxy; the verified checker checkResult decides the property's "
            "clauses on the recorded trace, the skeleton replay must reproduce the returned best, runs are repeated "
            "(determinism) and mirrored (max f vs min -f). powell/bfgs/lbfgs: reported objective = f(returned point).",
    "note": "Trusted: Lean kernel + standard axioms; RNG/exp/callbacks abstracted (not modelled); objective values "
            "integer or dyadic; the model mirrors /repo with the six C19 fix commits; harness recording proxy.",
})

CHECKS.append({
    "property_id": "C10",
    "category": "proof",
    "technique": "Lean 4 proof of a certifying mirror of solve_hungarian (loop invariant: hungarian_certifies) + verified "
                 "optimality checker on the implementation's assignment + mirror correspondence",
    "text": "hungarian_certifies / hungarian_optimal: for every rectangular rational matrix and either sense the Lean mirror "
            "of solve_hungarian (1-indexed potentials, min_slack/way arrays, zero padding, max_val - c) never gets stuck and "
            "returns a matching of size min(rows, cols) whose total is the minimum / maximum over all such matchings "
            "(potentials_cert, padding_sound, chkAssignment_optimal). On every run the real implementation's assignment is "
            "judged by the proved-sound checker chkAssignment against the mirror's potentials - each accepted case is a proof "
            "of optimality for that input - and must equal the mirror's assignment.",
    "note": "Trusted: Lean kernel + standard axioms; float arithmetic modelled over Rat (exact on the generated integer/dyadic "
            "inputs); matrices with rows but no columns are mirrored only; harness.",
})
CHECKS.append({
    "property_id": "C12",
    "category": "proof",
    "technique": "Lean 4 proofs of uniqueness of observables, adapter preprocessing and PageRank contraction + verified "
                 "checkers on every back-end output + per-run offline rebuild of the Rust extension from the working tree",
    "text": "For each of the nine accelerated functions a Lean Bool checker accepts an output only if it has the spec-level "
            "meaning (exact shortest distances / reachable negative cycle / sorted reachable set / valid walk / minimum "
            "spanning forest / mutual-reachability partition / valid topological order or a cycle); obs_unique_* theorems "
            "show any two accepted outputs of one input have equal observables, adapter_* theorems that the adapters pose "
            "the same problem, pagerank_contraction/pagerank_tol_bound justify the PageRank comparison bound. On every run "
            "rust/ of the working tree is rebuilt offline (cargo, scratch dir) and backend='python', 'rust', None and "
            "omitted are run on seeded multigraphs; every output goes through the checkers in Lean.",
    "note": "Trusted: Lean kernel + standard axioms; Rust kernel internals and pyo3 conversions (I/O behaviour only; BFS/DFS "
            "visit order mirrored); IEEE rounding in PageRank (slack 10 vs n*d); untrusted certificate generators accepted "
            "only via verified checkers; diagnostics (iterations, objective of topological sort / PageRank) not compared.",
})
CHECKS.append({
    "property_id": "C14",
    "category": "proof",
    "technique": "Lean 4 proofs about mirrors of scc.py (Tarjan, Kahn, condense) for every input + verified sound-and-complete "
                 "checkers on the implementation's outputs + element-for-element mirror correspondence",
    "text": "tarjan_certifies (the Tarjan mirror returns exactly the mutual-reachability classes, sinks first, fuel proved "
            "sufficient), kahn_correct (forward order of all nodes iff acyclic, INFEASIBLE otherwise), condense_correct / "
            "condense_spec, scc_cert and the checker equivalences chkScc_iff, chkTopo_correct, chkCondense_correct hold for "
            "every input. The outputs of strongly_connected_components, topological_sort, condense and the _edges variants "
            "(backend='python') are decided per input by those checkers and must equal the mirrors' outputs.",
    "note": "Trusted: Lean kernel + standard axioms; CPython recursion limit not modelled; inputs with neighbours outside the "
            "node list are decided on the clauses common to the induced and explored readings (open_clauses_common).",
})
CHECKS.append({
    "property_id": "C17",
    "category": "proof",
    "technique": "Lean 4 proofs of the plan checker, the exact optimum and the dual-bound argument, plus all-input theorems "
                 "about exact-rational mirrors of solve_cg and solve_bp (validity, status rule, LP value = dual value); those "
                 "verified procedures run on every plan the real solvers return; mirror correspondence",
    "text": "plan_checker, cs_optimum_correct (minRolls is the true minimum), dual_bound, optimal_claim_sound; for the "
            "mirrors: cg_mirror_valid (usable status => plan passes checkPlan, objective = rolls, patterns fit), "
            "bp_status_rule (OPTIMAL only against the converged root bound, for every node solver), "
            "master_lp_value_is_dual_value, master_lp_duals_eps_feasible, cg_mirror_optimal_of_duals / "
            "bp_mirror_optimal_of_duals (OPTIMAL + decidable side conditions evaluated per input => true minimum). Every plan "
            "solve_cg / solve_bp return with a usable status is checked on each explored input, OPTIMAL is compared with the "
            "proved optimum, and both mirrors must return the same status and plan (solve_bp R_trace skipped on exact "
            "rational ties the code breaks by rounding noise).",
    "note": "Not proved: that the mirrored simplex reaches an LP optimum ([S]; eliminations below eps are skipped) - OPTIMAL "
            "is proved minimal per input through the side conditions instead, which held on every explored input. Exact "
            "rationals vs IEEE doubles. max_nodes capped at 100 and per-call limits in the harness.",
})

CHECKS.append({
    "property_id": "C15",
    "category": "proof",
    "technique": "Lean 4 proofs of executable definitions and mirrors (component count, k-core peeling, PageRank step / "
                 "contraction / residual bound, Louvain partition invariant, modularity formula) + per-run correspondence "
                 "with bit-level Float mirrors",
    "text": "components_count_correct, kcoreDef_greatest / coreNumDef_spec, kcore_peeling_correct (bucket peeling = "
            "definitional core numbers for every pop / iteration order), pagerank_step_nonneg / _sum_one, "
            "pagerank_contraction, pagerank_residual_bound, louvain_partition_inv, louvain_output_partition, "
            "modularity_reported_eq, prCheck_iff, isPartition_iff hold for every input. Cut vertices, bridges and core "
            "numbers returned by the real code are compared with the definitions evaluated in Lean; PageRank scores are "
            "checked exactly against the damped equation within the proved bound and bit-for-bit against the Float mirror; "
            "Louvain output must be a partition whose reported modularity equals the formula.",
    "note": "All [C] and [S] theorems proved, including lowlink_correct (the low-link DFS mirror returns exactly "
            "cutVerticesDef / bridgesDef for distinct nodes and any neighbour lists). Theorems are at Rat; IEEE rounding and "
            "Python's recursion limit remain outside them (tied by the bit-level Float mirrors per run).",
})

CHECKS.append({
    "property_id": "C13",
    "category": "proof",
    "technique": "Lean 4 proofs about executable mirrors of kruskal, prim and UnionFind (structure AND minimality for every "
                 "input) + verified certificate checkers (cycle property) on the implementation's own trees + R_trace",
    "text": "kruskal_forest, kruskal_minimal, prim_tree, prim_minimal, kruskal_prim_agree, kruskalUF_eq (the literal "
            "parent/rank union-find mirror equals the label model) hold for every input: the mirrors return n-1 input edges "
            "forming an acyclic spanning tree of minimum weight with objective = sum of weights, INFEASIBLE / minimum forest + "
            "FEASIBLE on disconnected inputs. msf_cycle_cert / mst_cycle_cert, chkSpanningTree_iff, chkSpanningForest_iff make "
            "every explored implementation output carry a proof of minimality of the implementation's own tree; status, edge "
            "list and objective must equal the mirror's. Break/short-result offsets are regenerated from mst.py.",
    "note": "Weights integers or dyadic rationals (exact float sums); stable sort modelled by insertion sort and the heap by "
            "pop-least (weight, counter), tied by R_trace; label->int mapping trusted; mstBrute (<= 12 edges) only a bounded "
            "cross-check of the specification.",
})

CHECKS.append({
    "property_id": "C11",
    "category": "proof",
    "technique": "Lean 4 proofs about executable mirrors of all seven path solvers (certificate theorems + algorithm-level "
                 "theorems for every input) + verified certificate checkers on every implementation answer + R_trace",
    "text": "bellman_ford_correct, bf_rounds_bound, bfs_correct, dfs_path_valid, dijkstra_certifies, astar_certifies (consistent "
            "heuristic), floyd_warshall_certifies, dijkstra_sound_any_weights, astar_sound_any_heuristic and the certificate "
            "theorems potential_lower_bound, path_upper_bound, dist_exact_cert, closed_set_unreachable, neg_cycle_cert, "
            "zsqrt2_order_embedding, grid_dist_exact_cert hold for every digraph, start, goal set, max_iter and max_cost. On "
            "every run dijkstra, astar, astar_grid (exact Z[sqrt2] optimum within 1e-9(1+cost)), bfs, dfs, bellman_ford, "
            "floyd_warshall and the _edges wrappers (backend='python') are compared with the mirrors and their answers decided "
            "by the verified checkers distCert, pathOK, unreachCert, lowerCert, negCycleCert.",
    "note": "heapq/dict/set modelled (pop-least-key); the grid reference optimum is certificate-checked per input, the IEEE "
            "Float mirror of astar_grid is tied by R_trace only; integer / dyadic weights.",
})

CHECKS.append({
    "property_id": "C18",
    "category": "proof",
    "technique": "Lean 4 proof of an abstract dispatch machine (any chooser / choice sequence) and of the VRP bookkeeping "
                 "skeleton (remove / insert / recompute transitions preserve the invariant) + per-step refinement check of the "
                 "real operators with verified checkers",
    "text": "dispatch_valid, dispatch_chooser_valid, dispatch_rule_valid, rebuild_valid, local_search_valid, "
            "solve_job_shop_valid: for every choice sequence / rule / drawn-machine sequence the job-shop mirrors return a valid "
            "schedule whose objective is its latest end. vrp_inv_step / vrp_inv_run / vrp_inv_init: every abstract transition "
            "sequence preserves the customer bookkeeping invariant; arrival_consistent, objective_formula. On every run each "
            "returned schedule, each recorded destroy/repair step (ALNS replayed with recording wrappers, direct operator "
            "calls, scripted sequences) and each state is judged by the verified checkers chkSchedule, chkInv, isRemove, "
            "isInsertRun, chkArrivals, chkObjective.",
    "note": "RNG, hypot and the insertion heuristics are transition payload (not modelled); floats compared with exact rational "
            "recomputation within 1e-6; customer ids must be their 1-based position and required_vehicles >= 1 (excluded region "
            "is run and recorded only).",
})

CHECKS.append({
    "property_id": "C16",
    "category": "proof",
    "technique": "Lean 4 proof of a generic executable mirror (knapsack DP + scaling front end, four bin-packing heuristics) "
                 "at Rat, verified checkers and certified optima on every implementation answer, bit-level Float mirror",
    "text": "knapsack_dp_optimal (in-place backward DP = recurrence, backtrack feasible, value optimal over all subsets), "
            "knapsack_mirror_feasible, knapsack_lossless_optimal / knapsack_lossless_near_optimal (OPTIMAL of the repaired "
            "status rule is optimal for the original instance up to the stated slack), binpack_valid (all four heuristics: "
            "valid packing, k >= ceil(sum/C), OPTIMAL only when k <= 1 and minimal), binpack_two_approx, scan_spec, "
            "packOrder_sorted, minBinsP_le, chkKnapsack_iff, chkPack_iff, knapBest_optimal hold for all inputs of the model. "
            "Every answer of solve_knapsack / solve_bin_pack is judged on the exact rational value of the doubles actually "
            "passed, by the verified checkers and the certified optimum; the Float mirror must agree bit for bit.",
    "note": "The 11/9 OPT + 6/9 bound is checked per instance against a certified optimum (<= 12 items), not proved "
            "(binpack_two_approx is); the Float instance is tied to the code by mirror agreement only; tolerances for inexact "
            "doubles are derived in ASSUMPTIONS; needs the two committed C16 fixes.",
})

CHECKS.append({
    "property_id": "C08",
    "category": "proof",
    "technique": "Lean 4 proof that the Edmonds-Karp mirror returns a maximum flow with its minimum cut for every input "
                 "(max_flow_correct_arcs) + verified max-flow/min-cut checker on the implementation's flow + mirror "
                 "correspondence",
    "text": "max_flow_correct / max_flow_correct_arcs, cut_cert, chkMaxFlow_sound, chk_feasible_iff, chk_value_iff, "
            "augment_preserves_feasible (incl. cancel-reverse-first and anti-parallel arcs), ek_terminates, ek_certifies hold "
            "for every arc list with non-negative integer capacities and s != t. On every run the dict max_flow returns is "
            "pushed through the verified checker together with the mirror's cut (capacity, conservation, value = objective = "
            "cut capacity), and flow dict and objective are compared with the mirror.",
    "note": "Trusted: dict/deque semantics as modelled, the harness; source == sink is excluded (recorded only); the model "
            "mirrors the code with the committed reverse-residual-key fix (unrepaired_not_maximum proves the old code wrong).",
})
CHECKS.append({
    "property_id": "C09",
    "category": "proof",
    "technique": "Lean 4 certificate theorems (reduced-cost optimality, infeasibility cut, assignment <-> flow) with verified "
                 "checkers and a certifying successive-shortest-paths reference, evaluated in Lean on every output of "
                 "min_cost_flow / network_simplex / solve_assignment; known findings matched by narrow class predicates",
    "text": "reduced_cost_cert, infeasible_cut_cert, chkMinCost_sound, chkInfeas_sound, certified_verdict_unique, "
            "assignment_of_flow, assignment_optimal_of_cert, certify_sound, ssp_sound, ssp_sound_transshipment, ssp_certifies, "
            "ssp_certifies_transshipment, "
            "pair_costs_faithful_partial / pair_costs_misprice. For every explored instance the optimum or infeasibility is "
            "proved in Lean by an accepted certificate; the solvers' outputs must be feasible, integral, cost = sum cost*flow "
            "= certified optimum, INFEASIBLE iff certified infeasible, agree on common instances, and return.",
    "note": "ssp_certifies / ssp_certifies_transshipment ARE proved (with no negative-cost cycle the certifying SSP reference "
            "always ends with an accepted certificate, s-t and transshipment forms; Inst.no_negative_cycle_iff_potentials). No "
            "network_simplex mirror (its tree update has no invariant on the unchanged tree). Known findings "
            "(known_findings.json): min_cost_flow's one-cost-per-node-pair table on instances with anti-parallel or "
            "mixed-cost parallel arcs; network_simplex's basis-tree update (class decided by tracing the tree invariant).",
})

CHECKS.append({
    "property_id": "C03",
    "category": "proof",
    "technique": "Certifying exact-rational mirror of the two-phase Bland simplex proved to always emit a valid certificate "
                 "(simplex_certifies) + duality / Farkas / ray certificate theorems with verified Bool checkers evaluated in "
                 "Lean on every explored LP + "
                 "verified verdict logic for the interior-point method",
    "text": "weak_duality_cert, farkas_cert, ray_cert, verdict_unique, approx_duality / ipm_optimal_test_sound, chkOptimal_sound, "
            "chkInfeasible_sound, chkUnbounded_sound, certifies_sound, certified_status_unique, chkResidual_iff; "
            "simplex_certifies (for EVERY LP - any sign of b, either sense, any fuel - at eps = 0, whenever the mirror of "
            "solve_lp stops with a verdict its read-off certificate passes the verified checker: general tableau invariant "
            "GInv through phase 1, Farkas read-off, pivot-out of artificials, objective restore, phase 2). On every run solve_lp's verdict must equal the verdict "
            "certified in Lean, its point be feasible within 1e-7 with objective = c.x = certified optimum, its vertex equal the "
            "mirror's within 1e-9; solve_lp_interior's OPTIMAL / FEASIBLE claims are checked the same way and it must not raise.",
    "note": "simplex_certifies is proved at eps = 0 (the code's eps thresholds are compared per input through R_trace); "
            "IEEE rounding not "
            "modelled (tolerance gap; the forward-error bound used by chkResidual is stated in ASSUMPTIONS); the Newton step "
            "of the interior-point method is not modelled.",
})
CHECKS.append({
    "property_id": "C04",
    "category": "proof",
    "technique": "Verified feasibility filter (mirror of _is_feasible), certified exhaustive oracle (milpOracle_correct) and "
                 "proved abstract branch-and-bound invariant with branching coverage; oracle + LP certificates evaluated in "
                 "Lean on every explored MILP under every configuration",
    "text": "isFeasible_iff, branch_covers, milpOracle_correct, bnb_invariant / bnb_optimal / bnb_infeasible / bnb_gap, "
            "heuristic_incumbent_feasible, relaxation_infeasible, binary_tightening_sound; bnb_mirror_refines, bnb_mirror_sound, "
            "solveMilp_sound (the step mirror of solve_milp(heuristics=False) - heap order, _solve_node, _most_fractional, "
            "_detect_binary, warm start, solution_limit, max_nodes - refines the abstract branch and bound; node LPs are "
            "certificate-checked per input, nodeCheck_sound). Every point solve_milp returns "
            "(including solutions) passes the proved feasibility mirror in exact arithmetic with obj = c.x; OPTIMAL agrees "
            "with the certified oracle optimum within gap_tol; INFEASIBLE iff the oracle is empty; UNBOUNDED only with a "
            "relaxation ray certificate; verdict and value identical with heuristics on/off, LNS, any warm start, "
            "solution_limit and small max_nodes.",
    "note": "R_trace = full Result equality with heuristics=False; _is_feasible itself is compared directly with the proved "
            "mirror; the rounding / LNS heuristics enter only as filtered candidates (not modelled); node-LP rounding not "
            "modelled; assumes CPython iterates a set of small non-negative ints in ascending order.",
})

CHECKS.append({
    "property_id": "C01",
    "category": "proof",
    "technique": "Lean 4 proofs of the verified model checker, the reference DPLL / projected enumerator, the blocking-clause "
                 "and 1-UIP resolution lemmas + per-run correspondence with an executable line-by-line CDCL mirror",
    "text": "evalCnf_iff / evalCnf_models (the checker accepts exactly the total assignments making every clause and every "
            "assumption true), pairwiseDistinct_iff / distinctB_iff, dpll_sat_iff, dpll_models_complete, distinct_of_blocked, "
            "resolve_sound, learn_chain_sound, entailsB_iff, cdcl_returns_models_partial. On every explored input every assignment solve_sat returns "
            "(solution and each entry of solutions) is accepted by evalCnf and the tuple by distinctB; the Cdcl mirror "
            "(watches, binary implications, Float VSIDS, heap, Luby, reduce_db, blocking clauses) must return the same status "
            "and assignments in the same order, and every learned clause it logs is checked entailed.",
    "note": "cdcl_returns_models_partial IS proved (for every input without literal 0 / empty clauses / repeated literals in a "
            "clause and EVERY parameter setting, every assignment the certifying Cdcl mirror returns is total, satisfies all "
            "clauses and assumptions, and enumerations are pairwise distinct: two-watched-literal / trail invariant Cdcl.Inv and "
            "heap invariant HInvX carried through every operation). Open: clauses with a repeated literal; that the mirror's "
            "GUARD give-up exit never fires (never observed; treated as infrastructure failure). Known finding: a formula of "
            "empty clauses only is answered {} (pinned by an existing test). Excluded: literal 0, solution_limit < 1.",
})
CHECKS.append({
    "property_id": "C02",
    "category": "proof",
    "technique": "Lean 4 proofs: reference DPLL verdict exact (sat and unsat), Luby schedule of the regenerated source proved "
                 "terminating and equal to the Luby sequence; per-run comparison of every verdict with the proved DPLL, "
                 "return-within-limit observed per call, CDCL mirror correspondence",
    "text": "dpll_sat_iff, dpll_unsat_iff, luby_pos, luby_pow2, luby_fuel, luby_is_luby (about the loop translated from "
            "sat.py on every run), learn_chain_sound, entailsB_iff, cdcl_infeasible_sound_partial, cdcl_fuel_suffices_partial, "
            "upRefutes_sound. INFEASIBLE and model verdicts of solve_sat are compared "
            "with the proved-exact DPLL on every input; MAX_ITER on a satisfiable input of <= 16 variables with default "
            "budgets is a failure; every call must return within its limit (timeouts re-run alone); the mirror's fuel use is "
            "measured against the budget-derived bound.",
    "note": "cdcl_infeasible_sound_partial (the certifying mirror answers INFEASIBLE only for unsatisfiable input: 1-UIP chains "
            "checked by chainOk / learn_chain_sound, final unit-propagation refutation checked by upRefutes_sound) and "
            "cdcl_fuel_suffices_partial (the mirror never exhausts the fuel Cdcl.loopFuel derived from the budgets: bounded work "
            "as a for-all theorem) ARE proved for inputs without literal 0 / repeated literals. Open: that the GUARD exit never "
            "fires; completeness of the CDCL search (model found whenever one exists within budget) is compared per input with "
            "the proved DPLL. Same known finding as C01. On the 250-variable reduce_db family satisfiability comes from the "
            "planted assignment (accepted by evalCnf), not from the DPLL.",
})
CHECKS.append({
    "property_id": "C05",
    "category": "proof",
    "technique": "Lean 4 proofs of the CP semantics evaluator, the exhaustive enumerator and the DFS mirror (propagators sound, "
                 "leaf check, complete search) + verified evaluation of every assignment Model.solve returns",
    "text": "check_decides, solutions_complete, propagator_sound, propagate_sound, dfs_leaf_needs_check (the unrepaired leaf "
            "rule is wrong: witnesses by decide), dfs_returns_solutions, dfs_complete, dfs_infeasible_iff, "
            "choose_solver_total. Every assignment returned by Model.solve (auto / dfs / sat, limits 1 / 3 / 100, hints, "
            "unnamed variables, empty domains) is evaluated by the verified evaluator of Cp.Sem; INFEASIBLE is judged against "
            "the verified exhaustive enumerator; the back-ends must agree on satisfiability.",
    "note": "Hints are treated as hard restrictions; failures caused purely by solve_sat are classed sat_backend:*; the DFS "
            "value order (CPython set iteration) is not modelled (solution sets only).",
})
CHECKS.append({
    "property_id": "C06",
    "category": "proof",
    "technique": "Lean 4 proof that the encoder mirror is exact for every constraint kind (encode_model_exact) + proved "
                 "projected all-models enumerator run on the clause list captured from the real encoder + literal clause-list "
                 "correspondence",
    "text": "encode_vars_decode, enc_all_different, enc_eq_const, enc_ne_const, enc_eq_var, enc_ne_var, enc_no_overlap, "
            "enc_cumulative, enc_linear, enc_sum_eq / le / ge, enc_circuit, encode_compositional, encode_model_exact (the "
            "decoded models of the emitted CNF are exactly the CP solutions, every kind, empty domains included), "
            "enumProj_spec. The clause list captured at solve_sat is enumerated by the proved enumerator and must decode to "
            "exactly the Cp.Sem solutions with one in-domain value per variable, and must equal Cp.Encode's output as a "
            "multiset of sorted clauses.",
    "note": "cumulative exactness assumes demands and capacity >= 0 (generator stays inside); the mirror follows the repaired "
            "encoder (six C05/C06 fix commits).",
})

_PENDING = "check not built yet in this round (planned in DESIGN.md §4); no claim made"
NOT_APPLICABLE = [
    {"property_id": f"C{i:02d}", "reason": _PENDING}
    for i in range(1, 21) if f"C{i:02d}" not in {c["property_id"] for c in CHECKS}
]
