"""C19 — search heuristics return the best point they evaluated, faithfully, reproducibly.

Every solver is run on the real code with the objective wrapped by a recording proxy and with
deterministic neighbour/destroy/repair/crossover/mutation/acceptance callbacks (driven by the
solver-provided rng or by a keyed hash, never by `hash()`).  The recorded event stream (values in
call order, accept decisions, candidate moves) is replayed through the proved bookkeeping
skeletons of `Solvor/Search`, and the verified checker `checkResult` decides the clauses of the
property on the implementation's own answer.
"""
from __future__ import annotations

import hashlib
import math
from fractions import Fraction

from core import Driver, Infra, frac, load_corpus, rat
from pool import err_kind, run_pool

AREAS = ["Search"]
LEVEL = "proof"
ASSUMPTIONS = [
    "C19: random.Random, math.exp/erf, temperatures, positions/velocities, the GP surrogate and the user "
    "callbacks are abstracted to event payloads (value of the k-th objective call, accept coin, candidate moves) "
    "over which the skeleton theorems quantify; tied by replaying the recorded stream of every explored run",
    "C19: objective values used by the harness are integers or dyadic rationals, so the solvers' float "
    "comparisons of objective values are exact and coincide with the skeletons' comparisons in Rat",
    "C19: powell/bfgs/lbfgs have no skeleton; only `objective == f(solution)` (the user's f re-called on the returned "
    "point, bit-exact, non-finite values compared by repr) and reproducibility are checked, directly; their call "
    "pattern (line-search trials) is deliberately not an R_trace observable, `evaluations` is not checked for them",
    "C19: start points supplied beyond the population size (documented truncation) and the unclipped versions of "
    "out-of-bounds start points are not counted as starting points",
]
RULE = ("per solver: seeded random objective (hash / needle-in-haystack / plateau / cliff / constant / step / grid "
        "families, integer or dyadic valued), callbacks, start points, bounds, limits, acceptance rules, "
        "minimize/maximize, optional on_progress stop; powell/bfgs/lbfgs additionally on objectives with jumps and "
        "kinks (hard-penalty quadratic, L1, minimax, hinge, stairs+slope), analytic and finite-difference gradients, "
        "start points on both sides of the discontinuity, max_iter swept over 0..40 and larger; each case = recorded run + identical rerun + mirrored run; "
        "non-trivial = the best was found after the start points and a strictly worse candidate was evaluated "
        "(and, for single-solution searches, accepted as current) after it")

FN = {"anneal": "anneal", "tabu": "tabu_search", "lns": "lns", "alns": "alns", "evolve": "evolve",
      "de": "differential_evolution", "pso": "particle_swarm", "nm": "nelder_mead", "bayes": "bayesian_opt",
      "powell": "powell", "bfgs": "bfgs", "lbfgs": "lbfgs"}
SKELETON = ("anneal", "tabu", "lns", "alns", "evolve", "de", "pso", "nm", "bayes")
ACCEPT_CODE = {"improving": 0, "accept_all": 1, "simulated_annealing": 2}


def H(*xs) -> int:
    """Keyed, process-independent hash (never Python's salted hash())."""
    return int.from_bytes(hashlib.blake2b(repr(xs).encode(), digest_size=8).digest(), "big")


# ---------------------------------------------------------------------------
# objective families (deterministic; integer valued, optionally scaled by a power of two)
# ---------------------------------------------------------------------------

def dobj(spec):
    """Objective on tuples of small ints."""
    kind, salt, sc = spec["kind"], spec["salt"], spec.get("scale", 1)

    def base(sol):
        if kind == "hash":
            return H(salt, tuple(sol)) % spec["R"] - spec["R"] // 2
        if kind == "needle":
            return -30 if H(salt, tuple(sol)) % spec["M"] == 0 else sum(sol) % 3
        if kind == "plateau":
            return sum(abs(x - c) for x, c in zip(sol, spec["c"])) // spec["w"]
        if kind == "cliff":
            s = sum(sol)
            return s + (15 if sol[0] >= spec["K"] // 2 else 0) - (25 if s % 5 == 0 else 0)
        return 7  # const

    return base if sc == 1 else (lambda sol: base(sol) * sc)


def cobj(spec):
    """Objective on float vectors (step functions: plateaus, ties, discontinuities, needles)."""
    kind, c, k, sc = spec["kind"], spec["c"], spec.get("k", 1), spec.get("scale", 1)

    def steps(x):
        return sum(math.floor(k * abs(xi - ci)) for xi, ci in zip(x, c))

    def base(x):
        if kind == "steps":
            return steps(x)
        if kind == "needle":
            return -40 if all(abs(xi - ci) <= spec["w"] for xi, ci in zip(x, c)) else min(steps(x), spec["cap"])
        if kind == "plateau":
            return math.floor(max(abs(xi - ci) for xi, ci in zip(x, c)))
        if kind == "disc":
            return steps(x) + (10 if x[0] > c[0] else 0) - (7 if math.floor(x[0] * 2) % 3 == 0 else 0)
        if kind == "hashgrid":
            return H(spec["salt"], tuple(math.floor(xi * spec["g"]) for xi in x)) % spec["R"]
        if kind == "quad":
            return sum(a * (xi - ci) * (xi - ci) for a, xi, ci in zip(spec["a"], x, c))
        # non-smooth family for powell / bfgs / lbfgs: jumps (hard penalty), kinks (L1, minimax, hinge), stairs
        if kind == "jump":
            return sum(a * (xi - ci) * (xi - ci) for a, xi, ci in zip(spec["a"], x, c)) \
                + (spec["C"] if (x[0] < spec["t"]) == spec.get("below", True) else 0.0)
        if kind == "l1":
            return sum(a * abs(xi - ci) for a, xi, ci in zip(spec["a"], x, c))
        if kind == "minimax":
            return max(a * abs(xi - ci) for a, xi, ci in zip(spec["a"], x, c))
        if kind == "hinge":
            return sum(max(0.0, 1.0 - a * (xi - ci)) for a, xi, ci in zip(spec["a"], x, c)) \
                + 0.5 * spec["lam"] * sum(xi * xi for xi in x)
        if kind == "stair":
            return sum(math.floor(k * abs(xi - ci)) for xi, ci in zip(x, c)) \
                + 0.25 * sum(abs(xi - ci) for xi, ci in zip(x, c))
        return 3  # const

    if spec.get("neg"):       # concave version for maximize
        pos = base
        base = lambda x: -pos(x)  # noqa: E731
    return base if sc == 1 else (lambda x: base(x) * sc)


def _sgn(v):
    return (v > 0) - (v < 0)


def make_grad(spec, f):
    """Gradient callback for bfgs/lbfgs: the almost-everywhere analytic gradient (a subgradient at kinks, the
    jump ignored) or central differences of the objective itself."""
    if spec.get("grad") == "numeric":
        h = spec.get("h", 1e-6)

        def num(x):
            g = []
            for i in range(len(x)):
                xp, xm = list(x), list(x)
                xp[i] += h
                xm[i] -= h
                g.append((f(xp) - f(xm)) / (2 * h))
            return g
        return num
    kind, c, a = spec["kind"], spec["c"], spec.get("a")
    s = (-1.0 if spec.get("neg") else 1.0) * spec.get("scale", 1)

    def ana(x):
        if kind in ("quad", "jump"):
            g = [2 * ai * (xi - ci) for ai, xi, ci in zip(a, x, c)]
        elif kind == "l1":
            g = [ai * _sgn(xi - ci) for ai, xi, ci in zip(a, x, c)]
        elif kind == "minimax":
            vals = [ai * abs(xi - ci) for ai, xi, ci in zip(a, x, c)]
            j = vals.index(max(vals))
            g = [a[j] * _sgn(x[j] - c[j]) if i == j else 0.0 for i in range(len(x))]
        elif kind == "hinge":
            g = [(-ai if 1.0 - ai * (xi - ci) > 0 else 0.0) + spec["lam"] * xi for ai, xi, ci in zip(a, x, c)]
        elif kind == "stair":
            g = [0.25 * _sgn(xi - ci) for xi, ci in zip(x, c)]
        else:
            g = [0.0 for _ in x]
        return [s * gi for gi in g]
    return ana


class Rec:
    """Recording proxy around the objective."""

    def __init__(self, f, copy):
        self.f, self.copy, self.args, self.vals, self.hook = f, copy, [], [], None

    def __call__(self, x):
        v = self.f(x)
        k = len(self.vals)
        self.args.append(self.copy(x))
        self.vals.append(v)
        if self.hook:
            self.hook(k, x)
        return v


def _stopper(stop):
    return (lambda p: p.iteration >= stop) if stop else None


# ---------------------------------------------------------------------------
# one run of one solver (in the worker); returns a plain dict
# ---------------------------------------------------------------------------

def enc(v):
    """Exact encoding of a number: [num, den], or its repr when it is not finite (nan/inf stay comparable)."""
    if isinstance(v, float) and (v != v or v in (float("inf"), float("-inf"))):
        return repr(v)
    return rat(v)


def _result(r, rec, f_plain, extra, cont):
    sol = r.solution
    canon_sol = [enc(x) for x in sol] if cont else list(sol)
    matches = [k for k, a in enumerate(rec.args) if list(a) == list(sol)]
    d = {"sol": canon_sol, "obj": enc(r.objective), "fsol": enc(f_plain(sol)), "evals": r.evaluations,
         "iters": r.iterations, "status": r.status.name, "fs": [enc(v) for v in rec.vals], "matches": matches}
    d.update(extra)
    return d


def run_discrete(case, minimize, negate):
    solver = case["solver"]
    f0 = dobj(case["obj"])
    f = (lambda s: -f0(s)) if negate else f0
    rec = Rec(f, tuple)
    cb = case["cb"]
    L, K, salt = cb["L"], cb["K"], cb["salt"]
    keep, idx_of = [], {}           # objects we handed out (kept alive), id -> evaluation index
    cur_at_call, cands, meta, acc_log = [], [], {}, {}
    cnt = [0]

    def fresh(lst):
        t = tuple(lst)
        keep.append(t)
        return t

    def hook(k, x):
        idx_of[id(x)] = k
        if id(x) in meta:
            j, mv = meta[id(x)]
            cands[j].append(mv)

    rec.hook = hook
    kw = dict(case["opts"])
    kw["minimize"] = minimize
    kw["seed"] = case["seed"]
    if case.get("stop"):
        kw["on_progress"] = _stopper(case["stop"])
        kw["progress_interval"] = 1

    def tweak(sol, h):
        lst = list(sol)
        i = h % L
        if cb.get("mode", "step") == "step":
            lst[i] = (lst[i] + (1 if (h >> 8) & 1 else -1)) % K
        else:
            lst[i] = (h >> 8) % K
        return lst

    def custom_accept(kind):
        def acc(cur, new, it, rng):
            if kind == "never":
                a = False
            elif kind == "always":
                a = True
            elif kind == "rng":
                a = rng.random() < 0.5
            elif kind == "worse_only":
                a = new >= cur
            elif kind == "slack":
                a = new < cur + 2
            else:
                a = H(salt, "acc", it) % 3 == 0
            acc_log[len(rec.vals) - 1] = a
            return a
        return acc

    accept_kind = None
    if solver in ("lns", "alns"):
        a = kw.get("accept", "improving" if solver == "lns" else "simulated_annealing")
        if isinstance(a, dict):
            kw["accept"] = custom_accept(a["custom"])
            accept_kind = 3
        else:
            accept_kind = ACCEPT_CODE[a]

    init = fresh(case["start"]) if solver != "evolve" else None

    if solver == "anneal":
        from solvor.anneal import anneal, linear_cooling, logarithmic_cooling
        c = kw.get("cooling")
        if isinstance(c, list):
            kw["cooling"] = linear_cooling(c[1]) if c[0] == "linear" else logarithmic_cooling(c[1])

        def neighbors(sol):
            cur_at_call.append(idx_of.get(id(sol), -1))
            cnt[0] += 1
            return fresh(tweak(sol, H(salt, cnt[0], tuple(sol))))

        r = anneal(init, rec, neighbors, **kw)
    elif solver == "tabu":
        from solvor.tabu import tabu_search

        def neighbors(sol):
            cur_at_call.append(idx_of.get(id(sol), -1))
            j = len(cands)
            cands.append([])
            if cb.get("dead") and H(salt, "dead", tuple(sol)) % cb["dead"] == 0:
                return []
            out = []
            for i in range(L):
                for d in (1, -1):
                    if H(salt, "mv", tuple(sol), i, d) % 4 < cb.get("dens", 3):
                        lst = list(sol)
                        lst[i] = (lst[i] + d) % K
                        nb = fresh(lst)
                        mv = i if cb.get("coarse") else 2 * i + (d > 0)
                        meta[id(nb)] = (j, mv)
                        out.append((mv, nb))
            return out

        r = tabu_search(init, rec, neighbors, **kw)
    elif solver in ("lns", "alns"):
        from solvor.lns import alns, lns

        def mk_destroy(tag):
            def destroy(sol, rng):
                cur_at_call.append(idx_of.get(id(sol), -1))
                cnt[0] += 1
                i = rng.randrange(L) if tag == 0 else H(salt, "d", cnt[0]) % L
                return (sol, i)
            return destroy

        def mk_repair(tag):
            def repair(partial, rng):
                sol, i = partial
                lst = list(sol)
                lst[i] = rng.randrange(K) if tag == 0 else (lst[i] + 1 + H(salt, "r", cnt[0]) % max(1, K - 1)) % K
                return fresh(lst)
            return repair

        if solver == "lns":
            r = lns(init, rec, mk_destroy(cb.get("dtag", 0)), mk_repair(cb.get("rtag", 0)), **kw)
        else:
            r = alns(init, rec, [mk_destroy(0), mk_destroy(1)][: cb.get("nd", 2)],
                     [mk_repair(0), mk_repair(1)][: cb.get("nr", 2)], **kw)
    else:  # evolve
        from solvor.genetic import evolve
        pop = [fresh(p) for p in case["start"]]

        def crossover(p1, p2):
            cnt[0] += 1
            cut = H(salt, "x", cnt[0]) % (L + 1)
            return fresh(list(p1[:cut]) + list(p2[cut:]))

        def mutate(s):
            cnt[0] += 1
            return fresh(tweak(s, H(salt, "m", cnt[0])))

        r = evolve(rec, pop, crossover, mutate, **kw)

    n = len(rec.vals)
    if solver in ("anneal", "lns", "alns", "tabu"):
        # accept decision for candidate k is visible as the argument of the next callback call
        coins = [False] * n
        if solver == "tabu":
            pass
        elif accept_kind == 3:
            for k, a in acc_log.items():
                coins[k] = bool(a)
        else:
            for k in range(1, n):
                if k < len(cur_at_call):
                    coins[k] = cur_at_call[k] == k
    else:
        coins = []
    extra = {"coins": coins, "cur_at_call": cur_at_call, "cands": cands, "accept_kind": accept_kind,
             "starts": [rat(f(tuple(p))) for p in (case["start"] if solver == "evolve" else [case["start"]])]}
    return _result(r, rec, f, extra, cont=False)


def _clipf(x, bounds):
    return [max(lo, min(hi, xi)) for xi, (lo, hi) in zip(x, bounds)]


def run_continuous(case, minimize, negate):
    solver = case["solver"]
    f0 = cobj(case["obj"])
    f = (lambda x: -f0(x)) if negate else f0
    rec = Rec(f, list)
    kw = dict(case["opts"])
    kw["minimize"] = minimize
    if case.get("stop"):
        kw["on_progress"] = _stopper(case["stop"])
        kw["progress_interval"] = 1
    bounds = [tuple(b) for b in case["bounds"]] if case.get("bounds") else None
    starts = []
    if solver == "de":
        from solvor.differential_evolution import differential_evolution
        if case.get("start") is not None:
            kw["initial_population"] = [list(p) for p in case["start"]]
            used = case["start"][: max(kw.get("population_size", 15), 4)]
            starts = [rat(f(_clipf(p, bounds))) for p in used]
        r = differential_evolution(rec, bounds, seed=case["seed"], **kw)
    elif solver == "pso":
        from solvor.particle_swarm import particle_swarm
        if case.get("start") is not None:
            kw["initial_positions"] = [list(p) for p in case["start"]]
            used = case["start"][: kw.get("n_particles", 30)]
            starts = [rat(f(_clipf(p, bounds))) for p in used]
        r = particle_swarm(rec, bounds, seed=case["seed"], **kw)
    elif solver == "bayes":
        from solvor.bayesian import bayesian_opt
        r = bayesian_opt(rec, bounds, seed=case["seed"], **kw)
    elif solver == "nm":
        from solvor.nelder_mead import nelder_mead
        starts = [rat(f(list(case["start"])))]
        r = nelder_mead(rec, list(case["start"]), **kw)
    elif solver == "powell":
        from solvor.powell import powell
        if bounds:
            kw["bounds"] = bounds
        r = powell(rec, list(case["start"]), **kw)
    else:
        from solvor.bfgs import bfgs, lbfgs
        g = make_grad(case["obj"], f)
        r = (bfgs if solver == "bfgs" else lbfgs)(g, list(case["start"]), objective_fn=rec, **kw)
    extra = {"starts": starts, "coins": [], "cur_at_call": [], "cands": [], "accept_kind": None}
    return _result(r, rec, f, extra, cont=True)


DISCRETE = ("anneal", "tabu", "lns", "alns", "evolve")


def run_once(case, minimize, negate):
    return (run_discrete if case["solver"] in DISCRETE else run_continuous)(case, minimize, negate)


def _try(case, minimize, negate):
    try:
        return run_once(case, minimize, negate)
    except BaseException as e:  # noqa: BLE001
        return {"raised": f"{type(e).__name__}: {e}"[:300]}


def impl(case):
    A = run_once(case, case["minimize"], False)          # an exception here is the outcome of the case
    A2 = _try(case, case["minimize"], False)             # same input again
    B = _try(case, not case["minimize"], True) if case["solver"] in SKELETON else None   # mirror image
    keys = ("sol", "obj", "evals", "iters", "status")
    same = "raised" not in A2 and all(A[k] == A2[k] for k in keys)
    mirror = None
    if B is not None:
        if "raised" in B:
            mirror = {"raised": B["raised"]}
        else:
            mirror = {"sol": B["sol"], "obj": B["obj"], "evals": B["evals"],
                      "ok": B["sol"] == A["sol"] and frac_of(B["obj"]) == -frac_of(A["obj"]) and B["evals"] == A["evals"]}
    return {"A": A, "same_again": same, "again": None if same else {k: A2.get(k) for k in keys + ("raised",)},
            "mirror": mirror}


def frac_of(v):
    return Fraction(v[0], v[1])


def val_of(v):
    """Decoded `enc` value: a Fraction, or the repr string of a non-finite float."""
    return v if isinstance(v, str) else Fraction(v[0], v[1])


# ---------------------------------------------------------------------------
# generator
# ---------------------------------------------------------------------------

def gen_dobj(rng, L, K):
    kind = rng.choice(["hash", "hash", "needle", "needle", "plateau", "cliff", "const"])
    spec = {"kind": kind, "salt": rng.randrange(10 ** 6), "scale": rng.choice([1, 1, 1, 0.5, 0.25])}
    if kind == "hash":
        spec["R"] = rng.choice([3, 7, 20, 101])
    elif kind == "needle":
        spec["M"] = rng.choice([5, 11, 29])
    elif kind == "plateau":
        spec["c"] = [rng.randrange(K) for _ in range(L)]
        spec["w"] = rng.choice([1, 2, 3])
    elif kind == "cliff":
        spec["K"] = K
    return spec


def dyadic(rng, lo, hi, q=4):
    return rng.randint(lo * q, hi * q) / q


def gen_cobj(rng, n, lo=-4, hi=4):
    kind = rng.choice(["steps", "steps", "needle", "needle", "plateau", "disc", "hashgrid", "hashgrid", "const"])
    spec = {"kind": kind, "c": [dyadic(rng, lo, hi) for _ in range(n)], "k": rng.choice([1, 2, 4]),
            "scale": rng.choice([1, 1, 1, 0.5])}
    if kind == "needle":
        spec["w"] = rng.choice([0.25, 0.5, 1.0])
        spec["cap"] = rng.choice([3, 8, 50])
    elif kind == "hashgrid":
        spec.update(salt=rng.randrange(10 ** 6), g=rng.choice([1, 2, 4]), R=rng.choice([3, 9, 50]))
    return spec


def gen_nsm(rng, n, neg=False):
    """Objectives with jumps and kinks: hard-penalty quadratic, L1, minimax, hinge, stairs plus a slope."""
    kind = rng.choice(["jump", "jump", "jump", "l1", "minimax", "hinge", "stair"])
    spec = {"kind": kind, "c": [dyadic(rng, -2, 2) for _ in range(n)], "neg": neg, "scale": 1,
            "a": [rng.choice([0.5, 1.0, 1.0, 3.0]) for _ in range(n)], "k": rng.choice([1, 2, 4])}
    if kind == "jump":
        spec["t"] = spec["c"][0] + rng.choice([-2, -1, -0.5, 0.25, 0.5, 1, 2])   # discontinuity left/right of the optimum
        spec["C"] = rng.choice([1.0, 10.0, 100.0, 1000.0])
        spec["below"] = rng.random() < 0.5      # penalised side
    elif kind == "hinge":
        spec["lam"] = rng.choice([0.0, 0.1, 1.0])
    return spec


def gen_bounds(rng, n):
    bs = []
    for _ in range(n):
        lo = dyadic(rng, -4, 2)
        bs.append([lo, lo + rng.choice([0.5, 1, 2, 4, 6])])
    return bs


def gen_case(rng, solver, big=False):
    case = {"solver": solver, "minimize": rng.random() < 0.5, "seed": rng.randrange(10 ** 6), "stop": 0}
    if solver in DISCRETE:
        L, K = rng.randint(1, 4), rng.randint(2, 6)
        case["cb"] = {"L": L, "K": K, "salt": rng.randrange(10 ** 6), "mode": rng.choice(["step", "jump"])}
        case["obj"] = gen_dobj(rng, L, K)
        case["start"] = [rng.randrange(K) for _ in range(L)]
        mi = rng.choice([1, 2, 3, 5, 10, 30, 80] + ([300, 1000] if big else []))
        o = {"max_iter": mi}
        if rng.random() < 0.25:
            case["stop"] = rng.randint(1, max(1, mi))
        if solver == "anneal":
            o["temperature"] = rng.choice([1000.0, 1000.0, 5.0, 0.5])
            c = rng.choice([None, 0.9, 0.5, ["linear", 1e-8], ["log", 1.0]])
            if c is not None:
                o["cooling"] = c
            if rng.random() < 0.2:
                o["min_temp"] = rng.choice([0.1, 1.0, 100.0])
        elif solver == "tabu":
            o["cooldown"] = rng.choice([1, 2, 3, 5, 10])
            o["max_no_improve"] = rng.choice([1, 2, 5, 100])
            case["cb"].update(dead=rng.choice([0, 0, 7, 23]), dens=rng.choice([1, 2, 3, 4]),
                              coarse=rng.random() < 0.4)
        elif solver in ("lns", "alns"):
            a = rng.choice(["improving", "accept_all", "simulated_annealing", "simulated_annealing", "custom", None])
            if a == "custom":
                o["accept"] = {"custom": rng.choice(["never", "always", "rng", "worse_only", "slack", "hash"])}
            elif a is not None:
                o["accept"] = a
            o["max_no_improve"] = rng.choice([1, 3, 10, 100])
            if rng.random() < 0.5:
                o["start_temp"] = rng.choice([100.0, 1.0, 0.01])
                o["cooling_rate"] = rng.choice([0.9995, 0.5])
            if solver == "alns":
                o["segment_size"] = rng.choice([1, 3, 100])
                case["cb"].update(nd=rng.choice([1, 2]), nr=rng.choice([1, 2]))
            else:
                case["cb"].update(dtag=rng.choice([0, 1]), rtag=rng.choice([0, 1]))
        else:  # evolve
            P = rng.randint(1, 8)
            case["start"] = [[rng.randrange(K) for _ in range(L)] for _ in range(P)]
            o["max_iter"] = rng.choice([0, 1, 2, 5, 15] + ([60] if big else []))
            if case["stop"]:
                case["stop"] = rng.randint(1, max(1, o["max_iter"]))
            o["elite_size"] = rng.choice([0, 1, 2, 2, 3, P, P + 2])
            o["mutation_rate"] = rng.choice([0.0, 0.1, 0.5, 1.0])
            o["tournament_k"] = rng.choice([1, 2, 3, 5])
            o["adaptive_mutation"] = rng.random() < 0.3
        case["opts"] = o
        return case
    # continuous
    n = rng.randint(1, 3)
    case["obj"] = gen_cobj(rng, n)
    o = {}
    if solver in ("de", "pso", "bayes"):
        case["bounds"] = gen_bounds(rng, n)
    if solver == "de":
        o["population_size"] = rng.choice([1, 4, 5, 6, 8, 15])
        o["max_iter"] = rng.choice([1, 2, 3, 8, 20] + ([80] if big else []))
        o["strategy"] = rng.choice(["rand/1", "rand/1", "best/1", "best/1", "rand/2", "best/2"])
        if o["strategy"].endswith("/2"):
            o["population_size"] = rng.choice([6, 8, 15])     # the small-population fallback is an edge case below
        o["mutation"] = rng.choice([0.8, 0.5, 1.5])
        o["crossover"] = rng.choice([0.7, 0.0, 1.0])
        if rng.random() < 0.3:
            o["tol"] = rng.choice([0.0, 1e-8, 0.5])
        if rng.random() < 0.4:
            m = rng.randint(1, max(o["population_size"], 4) + 2)
            case["start"] = [[dyadic(rng, -8, 8) for _ in range(n)] for _ in range(m)]
        if rng.random() < 0.2:
            case["stop"] = rng.randint(1, o["max_iter"])
    elif solver == "pso":
        o["n_particles"] = rng.choice([1, 2, 3, 5, 10, 30])
        o["max_iter"] = rng.choice([1, 2, 3, 8, 20] + ([80] if big else []))
        if rng.random() < 0.3:
            o["inertia_decay"] = 0.4
        if rng.random() < 0.3:
            o["v_max"] = rng.choice([0.25, 1.0, 100.0])
        if rng.random() < 0.4:
            m = rng.randint(1, o["n_particles"] + 2)
            case["start"] = [[dyadic(rng, -8, 8) for _ in range(n)] for _ in range(m)]
        if rng.random() < 0.2:
            case["stop"] = rng.randint(1, o["max_iter"])
    elif solver == "bayes":
        o["n_initial"] = rng.choice([1, 2, 3, 5])
        o["max_iter"] = rng.choice([0, 2, 4, 6, 8] + ([14] if big else []))
        o["acquisition"] = rng.choice(["ei", "ucb"])
        o["acq_restarts"] = rng.choice([1, 2])
        if rng.random() < 0.2:
            case["stop"] = rng.randint(1, max(1, o["max_iter"]))
    elif solver == "nm":
        case["start"] = [rng.choice([0, 0.0, dyadic(rng, -6, 6), rng.randint(-5, 5)]) for _ in range(n)]
        o["max_iter"] = rng.choice([1, 2, 3, 5, 10, 30, 100] + ([400] if big else []))
        o["tol"] = rng.choice([1e-6, 1e-6, 0.0, 1.5, 3.0])
        o["adaptive"] = rng.random() < 0.3
        o["initial_step"] = rng.choice([0.05, 0.5, 1.0, 2.0])
        if rng.random() < 0.35:
            case["stop"] = rng.randint(1, o["max_iter"])
    elif solver == "powell":
        case["start"] = [dyadic(rng, -4, 4) for _ in range(n)]
        if rng.random() < 0.5:
            case["bounds"] = gen_bounds(rng, n)
        r = rng.random()
        if r < 0.25:
            case["obj"] = {"kind": "quad", "c": [dyadic(rng, -2, 2) for _ in range(n)],
                           "a": [rng.choice([0.5, 1.0, 3.0]) for _ in range(n)]}
        elif r < 0.7:
            case["obj"] = gen_nsm(rng, n, neg=not case["minimize"])
        o["max_iter"] = rng.choice([0, 1, 2, 3, 5, 8, 13, 20, 40])
        if rng.random() < 0.3:
            o["tol"] = rng.choice([0.0, 1e-12, 1e-3])
        if rng.random() < 0.2:
            case["stop"] = rng.randint(1, max(1, o["max_iter"]))
    else:  # bfgs / lbfgs: smooth or kinked/jumping objective, convex (minimize) or its negation (maximize)
        neg = not case["minimize"]
        if rng.random() < 0.2:
            case["obj"] = {"kind": "quad", "c": [dyadic(rng, -2, 2) for _ in range(n)], "neg": neg,
                           "a": [rng.choice([0.5, 1.0, 3.0]) for _ in range(n)]}
        else:
            case["obj"] = gen_nsm(rng, n, neg=neg)
        case["obj"]["grad"] = rng.choice(["analytic", "analytic", "numeric"])
        if case["obj"]["grad"] == "numeric":
            case["obj"]["h"] = rng.choice([1e-6, 1e-3])
        case["start"] = [dyadic(rng, -4, 4) for _ in range(n)]
        ob = case["obj"]
        if ob["kind"] == "jump" and rng.random() < 0.7:
            # hard-penalty shape: the unconstrained optimum lies in the penalised half-space, the start does not,
            # so the iterates pile up against the discontinuity and line searches run out of backtracks
            d = rng.choice([0.25, 0.5, 1, 2])
            side = rng.choice([1, -1])
            ob["t"] = ob["c"][0] + side * d
            ob["below"] = side > 0                     # penalise x0 < t (side>0) or x0 >= t (side<0): c[0] is penalised
            case["start"][0] = ob["t"] + side * rng.choice([0.25, 0.5, 1, 2, 3])
        # sweep the iteration limit so that runs end on every kind of iteration (also an exhausted line search)
        o["max_iter"] = rng.randint(1, 40) if rng.random() < 0.8 else rng.choice([0, 60, 150, 1000])
        if rng.random() < 0.3:
            o["tol"] = rng.choice([0.0, 1e-12, 1e-3])
        if solver == "lbfgs":
            o["m"] = rng.choice([1, 3, 10])
        if rng.random() < 0.15:
            case["stop"] = rng.randint(1, max(1, o["max_iter"]))
    case["opts"] = o
    return case


def edge_cases(rng):
    """Inputs at the edge of the quantified domain: zero iteration budget, no tabu memory, DE strategies that
    need the small-population fallback, degenerate bounds."""
    out = []
    for solver in ("anneal", "tabu", "lns", "alns", "de", "pso", "nm"):
        for _ in range(2):
            c = gen_case(rng, solver)
            c["opts"]["max_iter"] = 0
            c["stop"] = 0
            c["edge"] = "max_iter=0"
            out.append(c)
    for _ in range(3):
        c = gen_case(rng, "tabu")
        c["opts"]["cooldown"] = 0
        c["cb"]["dead"] = 0
        c["cb"]["dens"] = 4
        c["edge"] = "cooldown=0"
        out.append(c)
    for _ in range(4):
        c = gen_case(rng, "de")
        c["opts"]["strategy"] = rng.choice(["rand/2", "best/2", "rand/3"])
        c["opts"]["population_size"] = rng.choice([1, 4, 5])
        if c["opts"]["strategy"] == "rand/3":
            c["opts"]["population_size"] = rng.choice([4, 6, 7])
        c.pop("start", None)
        c["edge"] = "strategy_fallback"
        out.append(c)
    for _ in range(3):
        c = gen_case(rng, rng.choice(["bayes", "bayes", "de", "pso"]))
        n = len(c["bounds"])
        j = rng.randrange(n)
        c["bounds"][j][1] = c["bounds"][j][0]
        if c["solver"] == "bayes":
            c["opts"]["max_iter"] = max(c["opts"]["max_iter"], c["opts"]["n_initial"] + 2)
            c["stop"] = 0
        c["edge"] = "degenerate_bounds"
        out.append(c)
    return out


# ---------------------------------------------------------------------------
# model request / comparison
# ---------------------------------------------------------------------------

def defaults(solver):
    import inspect
    import importlib
    modname = {"anneal": "anneal", "tabu": "tabu", "lns": "lns", "alns": "lns", "evolve": "genetic",
               "de": "differential_evolution", "pso": "particle_swarm", "nm": "nelder_mead", "bayes": "bayesian"}[solver]
    fn = getattr(importlib.import_module("solvor." + modname), FN[solver])
    return {k: p.default for k, p in inspect.signature(fn).parameters.items() if p.default is not inspect.Parameter.empty}


_DEF: dict = {}


def opt(case, name):
    s = case["solver"]
    if s not in _DEF:
        _DEF[s] = defaults(s)
    return case["opts"].get(name, _DEF[s][name])


def to_request(case, A, orig=False):
    s = case["solver"]
    n = len(A["fs"])
    stop = case.get("stop", 0)
    tol, cands = None, []
    if s == "anneal":
        ps = [n - 1]
    elif s == "tabu":
        ps = [opt(case, "cooldown"), opt(case, "max_no_improve"), stop]
        cands = A["cands"][: opt(case, "max_iter")]
    elif s in ("lns", "alns"):
        ps = [A["accept_kind"], opt(case, "max_iter"), opt(case, "max_no_improve"), stop]
    elif s == "evolve":
        ps = [len(case["start"]), max(0, opt(case, "elite_size")), A["iters"]]
    elif s == "de":
        p = max(opt(case, "population_size"), 4)
        ps = [p, max(0, (n - p)) // p]
    elif s == "pso":
        p = opt(case, "n_particles")
        ps = [p, max(0, (n - p)) // p]
    elif s == "bayes":
        n0 = opt(case, "n_initial")
        ps = [n0, max(0, n - n0)]
    else:  # nm
        ps = [len(case["start"]), opt(case, "max_iter"), stop]
        tol = rat(opt(case, "tol"))
    bounds = [[rat(lo), rat(hi)] for lo, hi in case["bounds"]] if case.get("bounds") else None
    point = A["sol"] if bounds else None
    return ["run", s, orig, case["minimize"], A["fs"], A["starts"], A["coins"], ps, tol, cands, A["obj"], A["fsol"], A["evals"],
            bounds, point]


def divergence(case, A, reply):
    """Where the skeleton replay of the recorded stream differs from what the implementation returned/did."""
    s = case["solver"]
    m_obj, m_idx, m_evals, m_trace = reply[:4]
    n = len(A["fs"])
    div = []
    if frac_of(m_obj) != frac_of(A["obj"]):
        div.append(f"objective: skeleton {frac_of(m_obj)} impl {frac_of(A['obj'])}")
    if m_evals != n:
        div.append(f"evaluations: skeleton consumed {m_evals} of {n} recorded calls")
    if m_idx not in A["matches"]:
        div.append(f"solution: skeleton returns candidate #{m_idx}, impl returned one of {A['matches'][:5]}")
    if s in ("anneal", "lns", "alns", "tabu"):
        seen = A["cur_at_call"][1:]
        if m_trace[: len(seen)] != seen:
            div.append(f"current-solution trace differs: skeleton {m_trace[:12]} impl {seen[:12]}")
    return div


class _Ctx:
    """ctx.fail with a per-class counter in the histogram."""

    def __init__(self, ctx):
        self.ctx = ctx

    def __getattr__(self, k):
        return getattr(self.ctx, k)

    def fail(self, fn, klass, what, rep):
        self.ctx.count(f"fail:{fn}:{klass}")
        return self.ctx.fail(fn, klass, what, rep)


def _show(v):
    return v if isinstance(v, str) else repr(float(v)) if v.denominator != 1 else str(v.numerator)


def judge(ctx, case, out, reply, alt=None):
    ctx = _Ctx(ctx)
    s = case["solver"]
    fn = FN[s]
    rep = {"case": case, "impl": out, "model": reply}
    canon = [s, case["minimize"], case["seed"], case.get("stop"), case["obj"], case.get("start"),
             case.get("bounds"), sorted((k, str(v)) for k, v in case["opts"].items()), case.get("cb")]
    ctx.count("solver:" + s)
    ctx.count(f"{s}:obj:{case['obj']['kind']}")
    ctx.count("minimize" if case["minimize"] else "maximize")
    if case.get("stop"):
        ctx.count("on_progress_stop")
    if case.get("edge"):
        ctx.count("edge:" + case["edge"])
    if out[0] != "ok":
        kind = err_kind(out)
        klass = "raises:" + kind + (":" + case["edge"] if case.get("edge") else "")
        ctx.count("outcome:" + kind)
        ctx.fail(fn, klass, f"call with in-domain arguments raised/timed out: {str(out[1])[:300]}", rep)
        ctx.case(canon, False)
        return
    r = out[1]
    A = r["A"]
    ctx.count("status:" + A["status"])
    obj, fsol = val_of(A["obj"]), val_of(A["fsol"])
    mini = case["minimize"]
    failed = False
    # ---- R_prop: clauses of the property on the recorded trace of the real solver ----------------
    if s in SKELETON:
        m_obj, m_idx, m_evals, m_trace, m_iters, o_obj, o_idx, chk, inb = reply
        vals = [frac_of(v) for v in A["fs"]] + [frac_of(v) for v in A["starts"]]
        better = [v for v in vals if (v < obj if mini else v > obj)]
        py_ok = obj == fsol and not better and A["evals"] == len(A["fs"])
        ctx.count("checker_verdicts")
        if bool(chk) != py_ok:      # the verified checker decides; the Python clauses only name the class
            raise Infra(f"C19: verified checker and harness disagree on {case}")
        if not chk or not py_ok:
            failed = True
            if obj != fsol:
                ctx.fail(fn, "objective_mismatch", f"Result.objective={obj} but objective_fn(Result.solution)={fsol}", rep)
            if better:
                suffix = ""
                if s == "lns" and A["accept_kind"] == 3:
                    suffix = ":custom_accept"
                elif s == "nm" and case.get("stop") and A["iters"] == case["stop"]:
                    suffix = ":on_progress_stop"
                same_orig = frac_of(o_obj) == obj
                ctx.fail(fn, "not_best_of_evaluated" + suffix,
                         f"returned objective {obj} but the solver evaluated a point with value {better[0]}"
                         + (" (equals the skeleton of the rule as written in the unchanged tree)" if same_orig else ""), rep)
            if A["evals"] != len(A["fs"]):
                ctx.fail(fn, "evaluations_miscounted", f"evaluations={A['evals']} but the objective was called "
                         f"{len(A['fs'])} times", rep)
        if case.get("bounds") is not None and inb is not True:
            failed = True
            ctx.fail(fn, "out_of_bounds", f"returned point {A['sol']} is outside bounds {case['bounds']}", rep)
        mir = r["mirror"]
        if mir is not None and not mir.get("ok"):
            failed = True
            ctx.fail(fn, "mirror_differs", f"minimize(-f) with the same seed is not the mirror image: {mir}", rep)
    else:
        ctx.count(f"{s}:grad:{case['obj'].get('grad', 'none')}")
        ctx.count(f"{s}:max_iter:{'0' if not case['opts'].get('max_iter', 1000) else '1-40' if case['opts'].get('max_iter', 1000) <= 40 else '>40'}")
        if obj != fsol:
            failed = True
            stale = [k for k, v in enumerate(A["fs"]) if v == A["obj"] and k not in A["matches"]]
            ctx.fail(fn, "objective_mismatch",
                     f"Result.objective={_show(obj)} but objective_fn(Result.solution)={_show(fsol)}"
                     + (f"; the reported value is what the objective returned for another point (call #{stale[-1]})"
                        if stale else ""), rep)
    if not r["same_again"]:
        failed = True
        ctx.fail(fn, "nondeterministic", f"second identical call returned {r['again']}", rep)
    # ---- R_trace: the skeleton replay reproduces the returned best, step by step -----------------
    nontrivial = False
    if s in SKELETON:
        n = len(A["fs"])
        div = divergence(case, A, reply)
        if div and not failed and alt is not None and not divergence(case, A, alt):
            # lns with a user acceptance callback on a tree without the repair C19_lns_best: the run follows the
            # skeleton of the rule as written (`lnsStepOrig`); the defect itself is reported where R_prop fails
            ctx.count("r_trace_agree_unrepaired_lns_rule")
        elif div and not failed:
            ctx.tdiv(fn, {"case": case, "divergence": div, "impl": {k: A[k] for k in ("sol", "obj", "evals", "iters")},
                          "model": reply})
        elif not div:
            ctx.count("r_trace_agree")
        # non-triviality
        sign = 1 if mini else -1
        iv = [sign * frac_of(v) for v in A["fs"]]
        nstart = {"evolve": len(case["start"]) if s == "evolve" else 1, "de": max(opt(case, "population_size"), 4) if s == "de" else 1,
                  "pso": opt(case, "n_particles") if s == "pso" else 1, "bayes": opt(case, "n_initial") if s == "bayes" else 1,
                  "nm": len(case["start"]) + 1 if s == "nm" else 1}.get(s, 1)
        if m_idx < n and m_idx >= nstart:
            b = iv[m_idx]
            if s in ("anneal", "lns", "alns", "tabu"):
                nontrivial = any(t > m_idx and t < n and iv[t] > b for t in m_trace)
            else:
                nontrivial = any(v > b for v in iv[m_idx + 1:])
        if nontrivial:
            ctx.count(f"nontrivial:{s}")
    else:
        nontrivial = A["iters"] >= 1
    ctx.case(canon, nontrivial, {"case": case, "impl": {k: A[k] for k in ("sol", "obj", "fsol", "evals", "iters", "status")},
                                 "calls": len(A["fs"]), "model": reply[:3] if reply else None})


def run_cases(ctx, cases):
    outs = run_pool(impl, cases, timeout=60.0)
    reqs, where = [], []
    for i, (c, o) in enumerate(zip(cases, outs)):
        if o[0] == "ok" and c["solver"] in SKELETON:
            where.append(i)
            reqs.append(to_request(c, o[1]["A"]))
    replies = Driver("Search").run(reqs, chunks=8)
    by = dict(zip(where, replies))
    for i, rp in by.items():
        if rp and rp[0] == "error":
            raise Infra(f"model rejected request for {cases[i]}: {rp}")
    # second replay (rule of the unchanged tree) for lns runs with a user acceptance callback that diverge
    again = [i for i in where if cases[i]["solver"] == "lns" and outs[i][1]["A"]["accept_kind"] == 3
             and divergence(cases[i], outs[i][1]["A"], by[i])]
    alts = dict(zip(again, Driver("Search").run([to_request(cases[i], outs[i][1]["A"], orig=True) for i in again])))
    for i, (c, o) in enumerate(zip(cases, outs)):
        judge(ctx, c, o, by.get(i), alts.get(i))


PER_SOLVER = {"anneal": 1000, "tabu": 800, "lns": 1200, "alns": 1000, "evolve": 800, "de": 600, "pso": 600, "nm": 1200,
              "bayes": 300, "powell": 300, "bfgs": 600, "lbfgs": 600}


def _cov(ctx):
    ctx.cov["rule"] = RULE
    h = ctx.cov["histogram"]
    ctx.cov["r_trace_agree"] = h.get("r_trace_agree", 0)
    ctx.cov["cert_checked_impl"] = h.get("checker_verdicts", 0)
    ctx.cov["excluded_region"] = ("theorem hypotheses popSize/nParticles/nInitial >= 1 and dimension n >= 1: the real "
                                  "code rejects these inputs itself (IndexError/ValueError on an empty population, "
                                  "empty bounds, n_initial=0); non-finite objective values are outside the Rat model "
                                  "and are not generated")


def run(ctx, budget):
    ctx.cov["rule"] = RULE
    cases = [c["case"] for c in load_corpus("C19")]
    cases += edge_cases(ctx.rng)
    for s, k in PER_SOLVER.items():
        mult = budget
        for i in range(k * mult):
            cases.append(gen_case(ctx.rng, s, big=(ctx.tier == "thorough" and i % 4 == 0)))
    run_cases(ctx, cases)
    _cov(ctx)


def replay(ctx, body):
    run_cases(ctx, [body["case"]])
    _cov(ctx)
