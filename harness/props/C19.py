"""C19 — search heuristics return the best point they evaluated, faithfully, reproducibly.

Every solver is run on the real code with the objective wrapped by a recording proxy and with
deterministic neighbour/destroy/repair/crossover/mutation/acceptance callbacks (driven by the
solver-provided rng or by a keyed hash, never by `hash()`).  The recorded event stream (values in
call order, accept decisions, candidate moves) is replayed through the proved bookkeeping
skeletons of `Solvor/Search`, and the verified checker `checkResult` decides the clauses of the
property on the implementation's own answer.
"""
from __future__ import annotations

import hashlib
import math
from fractions import Fraction

from core import Driver, Infra, frac, load_corpus, rat
from pool import err_kind, run_pool

AREAS = ["Search"]
LEVEL = "proof"
ASSUMPTIONS = [
    "C19: random.Random, math.exp/erf, temperatures, positions/velocities, the GP surrogate and the user "
    "callbacks are abstracted to event payloads (value of the k-th objective call, accept coin, candidate moves) "
    "over which the skeleton theorems quantify; tied by replaying the recorded stream of every explored run",
    "C19: objective values used by the harness are integers or dyadic rationals, so the solvers' float "
    "comparisons of objective values are exact and coincide with the skeletons' comparisons in Rat",
    "C19: powell/bfgs/lbfgs have no skeleton; only `objective == f(solution)` (the user's f re-called on the returned "
    "point, bit-exact, non-finite values compared by repr) and reproducibility are checked, directly; their call "
    "pattern (line-search trials) is deliberately not an R_trace observable, `evaluations` is not checked for them",
    "C19: start points supplied beyond the population size (documented truncation) and the unclipped versions of "
    "out-of-bounds start points are not counted as starting points",
]
RULE = ("per solver: seeded random objective (hash / needle-in-haystack / plateau / cliff / constant / step / grid "
        "families, integer or dyadic valued), callbacks, start points, bounds, limits, acceptance rules, "
        "minimize/maximize, optional on_progress stop; powell/bfgs/lbfgs additionally on objectives with jumps and "
        "kinks (hard-penalty quadratic, L1, minimax, hinge, stairs+slope), analytic and finite-difference gradients, "
        "start points on both sides of the discontinuity, max_iter swept over 0..40 and larger; 70 % of the cases in a "
        "presentation style (bounds / start points / populations / operator lists / tabu candidate lists as list or "
        "tuple, numbers as int or float, equal vectors as one shared object, tabu moves as odd hashables incl. None), "
        "~20 % as elements of 2-4 call histories sharing the objective proxy and all callback objects (same input, "
        "narrow<->wide limits/bounds, minimize<->maximize, new start/seed), a few large instances per run; each case = recorded run + identical rerun + mirrored run; "
        "non-trivial = the best was found after the start points and a strictly worse candidate was evaluated "
        "(and, for single-solution searches, accepted as current) after it")

FN = {"anneal": "anneal", "tabu": "tabu_search", "lns": "lns", "alns": "alns", "evolve": "evolve",
      "de": "differential_evolution", "pso": "particle_swarm", "nm": "nelder_mead", "bayes": "bayesian_opt",
      "powell": "powell", "bfgs": "bfgs", "lbfgs": "lbfgs"}
SKELETON = ("anneal", "tabu", "lns", "alns", "evolve", "de", "pso", "nm", "bayes")
ACCEPT_CODE = {"improving": 0, "accept_all": 1, "simulated_annealing": 2}


def H(*xs) -> int:
    """Keyed, process-independent hash (never Python's salted hash())."""
    return int.from_bytes(hashlib.blake2b(repr(xs).encode(), digest_size=8).digest(), "big")


# ---------------------------------------------------------------------------
# objective families (deterministic; integer valued, optionally scaled by a power of two)
# ---------------------------------------------------------------------------

def dobj(spec):
    """Objective on tuples of small ints."""
    kind, salt, sc = spec["kind"], spec["salt"], spec.get("scale", 1)

    def base(sol):
        if kind == "hash":
            return H(salt, tuple(sol)) % spec["R"] - spec["R"] // 2
        if kind == "needle":
            return -30 if H(salt, tuple(sol)) % spec["M"] == 0 else sum(sol) % 3
        if kind == "plateau":
            return sum(abs(x - c) for x, c in zip(sol, spec["c"])) // spec["w"]
        if kind == "cliff":
            s = sum(sol)
            return s + (15 if sol[0] >= spec["K"] // 2 else 0) - (25 if s % 5 == 0 else 0)
        return 7  # const

    return base if sc == 1 else (lambda sol: base(sol) * sc)


def cobj(spec):
    """Objective on float vectors (step functions: plateaus, ties, discontinuities, needles)."""
    kind, c, k, sc = spec["kind"], spec["c"], spec.get("k", 1), spec.get("scale", 1)

    def steps(x):
        return sum(math.floor(k * abs(xi - ci)) for xi, ci in zip(x, c))

    def base(x):
        if kind == "steps":
            return steps(x)
        if kind == "needle":
            return -40 if all(abs(xi - ci) <= spec["w"] for xi, ci in zip(x, c)) else min(steps(x), spec["cap"])
        if kind == "plateau":
            return math.floor(max(abs(xi - ci) for xi, ci in zip(x, c)))
        if kind == "disc":
            return steps(x) + (10 if x[0] > c[0] else 0) - (7 if math.floor(x[0] * 2) % 3 == 0 else 0)
        if kind == "hashgrid":
            return H(spec["salt"], tuple(math.floor(xi * spec["g"]) for xi in x)) % spec["R"]
        if kind == "quad":
            return sum(a * (xi - ci) * (xi - ci) for a, xi, ci in zip(spec["a"], x, c))
        # non-smooth family for powell / bfgs / lbfgs: jumps (hard penalty), kinks (L1, minimax, hinge), stairs
        if kind == "jump":
            return sum(a * (xi - ci) * (xi - ci) for a, xi, ci in zip(spec["a"], x, c)) \
                + (spec["C"] if (x[0] < spec["t"]) == spec.get("below", True) else 0.0)
        if kind == "l1":
            return sum(a * abs(xi - ci) for a, xi, ci in zip(spec["a"], x, c))
        if kind == "minimax":
            return max(a * abs(xi - ci) for a, xi, ci in zip(spec["a"], x, c))
        if kind == "hinge":
            return sum(max(0.0, 1.0 - a * (xi - ci)) for a, xi, ci in zip(spec["a"], x, c)) \
                + 0.5 * spec["lam"] * sum(xi * xi for xi in x)
        if kind == "stair":
            return sum(math.floor(k * abs(xi - ci)) for xi, ci in zip(x, c)) \
                + 0.25 * sum(abs(xi - ci) for xi, ci in zip(x, c))
        return 3  # const

    if spec.get("neg"):       # concave version for maximize
        pos = base
        base = lambda x: -pos(x)  # noqa: E731
    return base if sc == 1 else (lambda x: base(x) * sc)


def _sgn(v):
    return (v > 0) - (v < 0)


def make_grad(spec, f):
    """Gradient callback for bfgs/lbfgs: the almost-everywhere analytic gradient (a subgradient at kinks, the
    jump ignored) or central differences of the objective itself."""
    if spec.get("grad") == "numeric":
        h = spec.get("h", 1e-6)

        def num(x):
            g = []
            for i in range(len(x)):
                xp, xm = list(x), list(x)
                xp[i] += h
                xm[i] -= h
                g.append((f(xp) - f(xm)) / (2 * h))
            return g
        return num
    kind, c, a = spec["kind"], spec["c"], spec.get("a")
    s = (-1.0 if spec.get("neg") else 1.0) * spec.get("scale", 1)

    def ana(x):
        if kind in ("quad", "jump"):
            g = [2 * ai * (xi - ci) for ai, xi, ci in zip(a, x, c)]
        elif kind == "l1":
            g = [ai * _sgn(xi - ci) for ai, xi, ci in zip(a, x, c)]
        elif kind == "minimax":
            vals = [ai * abs(xi - ci) for ai, xi, ci in zip(a, x, c)]
            j = vals.index(max(vals))
            g = [a[j] * _sgn(x[j] - c[j]) if i == j else 0.0 for i in range(len(x))]
        elif kind == "hinge":
            g = [(-ai if 1.0 - ai * (xi - ci) > 0 else 0.0) + spec["lam"] * xi for ai, xi, ci in zip(a, x, c)]
        elif kind == "stair":
            g = [0.25 * _sgn(xi - ci) for xi, ci in zip(x, c)]
        else:
            g = [0.0 for _ in x]
        return [s * gi for gi in g]
    return ana


class Rec:
    """Recording proxy around the objective."""

    def __init__(self, f, copy):
        self.f, self.copy, self.args, self.vals, self.hook = f, copy, [], [], None

    def __call__(self, x):
        v = self.f(x)
        k = len(self.vals)
        self.args.append(self.copy(x))
        self.vals.append(v)
        if self.hook:
            self.hook(k, x)
        return v


def _stopper(stop):
    return (lambda p: p.iteration >= stop) if stop else None


# ---------------------------------------------------------------------------
# one run of one solver (in the worker); returns a plain dict
# ---------------------------------------------------------------------------

def enc(v):
    """Exact encoding of a number: [num, den], or its repr when it is not finite (nan/inf stay comparable)."""
    if isinstance(v, float) and (v != v or v in (float("inf"), float("-inf"))):
        return repr(v)
    return rat(v)


def _result(r, rec, f_plain, extra, cont):
    sol = r.solution
    canon_sol = [enc(x) for x in sol] if cont else list(sol)
    matches = [k for k, a in enumerate(rec.args) if list(a) == list(sol)]
    d = {"sol": canon_sol, "obj": enc(r.objective), "fsol": enc(f_plain(sol)), "evals": r.evaluations,
         "iters": r.iterations, "status": r.status.name, "fs": [enc(v) for v in rec.vals], "matches": matches}
    d.update(extra)
    return d


# presentation styles (what the annotated contracts allow: Sequence -> list / tuple, numbers as int / float,
# equal elements as one shared object, tabu moves as arbitrary hashables)
ODD_LABELS = [None, 0, "", (), frozenset(), -1, 0.5, (1, 2), "7", "0", "a", (None,), 2, "-1", 1.5, frozenset([1])]


def _num(v, pres):
    """An integral number as int or float, as the style says (same mathematical value)."""
    if pres.get("num") == "int" and float(v).is_integer():
        return int(v)
    if pres.get("num") == "float":
        return float(v)
    return v


def _seq(items, kind):
    return tuple(items) if kind == "tuple" else list(items)


def _vectors(vs, pres):
    """A collection of vectors in the requested style; equal vectors share one object when aliasing is on."""
    out, seen = [], {}
    for v in vs:
        key = tuple(v)
        if pres.get("alias") and key in seen:
            out.append(seen[key])
            continue
        obj = _seq([_num(x, pres) for x in v], pres.get("inner", "list"))
        seen[key] = obj
        out.append(obj)
    return _seq(out, pres.get("outer", "list"))


def _bounds(bs, pres):
    return _seq([_seq([_num(lo, pres), _num(hi, pres)], pres.get("inner", "tuple")) for lo, hi in bs],
                pres.get("outer", "list"))


def _snapshot(sol):
    import copy
    return copy.deepcopy(sol)


def run_discrete(case, minimize, negate, sess=None):
    """One call of a discrete solver.  `sess` (a dict) keeps the objective proxy and every callback *object*
    alive across the calls of a history; the per-call recording state lives in sess['S'] and is reset here."""
    solver = case["solver"]
    sess = {} if sess is None else sess
    cb = case["cb"]
    pres = case.get("pres", {})
    L, K, salt = cb["L"], cb["K"], cb["salt"]
    if "S" not in sess:
        S = sess["S"] = {}
        f0 = dobj(case["obj"])
        f = sess["f"] = (lambda s: -f0(s)) if negate else f0
        rec = sess["rec"] = Rec(f, tuple)

        def fresh(lst):
            t = tuple(lst)
            S["keep"].append(t)
            return t

        def hook(k, x):
            S["idx_of"][id(x)] = k
            if id(x) in S["meta"]:
                j, mv = S["meta"][id(x)]
                S["cands"][j].append(mv)

        rec.hook = hook

        def tweak(sol, h):
            lst = list(sol)
            i = h % L
            if cb.get("mode", "step") == "step":
                lst[i] = (lst[i] + (1 if (h >> 8) & 1 else -1)) % K
            else:
                lst[i] = (h >> 8) % K
            return lst

        def custom_accept(kind):
            def acc(cur, new, it, rng):
                if kind == "never":
                    a = False
                elif kind == "always":
                    a = True
                elif kind == "rng":
                    a = rng.random() < 0.5
                elif kind == "worse_only":
                    a = new >= cur
                elif kind == "slack":
                    a = new < cur + 2
                else:
                    a = H(salt, "acc", it) % 3 == 0
                S["acc_log"][len(rec.vals) - 1] = a
                return a
            return acc

        def label(mv):
            if S["labels"] == "odd" and 2 * L <= len(ODD_LABELS):
                return ODD_LABELS[(mv + salt) % len(ODD_LABELS)]
            return mv

        def neighbors_anneal(sol):
            S["cur_at_call"].append(S["idx_of"].get(id(sol), -1))
            S["cnt"] += 1
            return fresh(tweak(sol, H(salt, S["cnt"], tuple(sol))))

        def neighbors_tabu(sol):
            S["cur_at_call"].append(S["idx_of"].get(id(sol), -1))
            j = len(S["cands"])
            S["cands"].append([])
            if cb.get("dead") and H(salt, "dead", tuple(sol)) % cb["dead"] == 0:
                return _seq([], S["outer"])
            out = []
            for i in range(L):
                for d in (1, -1):
                    if H(salt, "mv", tuple(sol), i, d) % 4 < cb.get("dens", 3):
                        lst = list(sol)
                        lst[i] = (lst[i] + d) % K
                        nb = fresh(lst)
                        mv = i if cb.get("coarse") else 2 * i + (d > 0)
                        S["meta"][id(nb)] = (j, mv)
                        out.append((label(mv), nb))
            return _seq(out, S["outer"])

        def mk_destroy(tag):
            def destroy(sol, rng):
                S["cur_at_call"].append(S["idx_of"].get(id(sol), -1))
                S["cnt"] += 1
                i = rng.randrange(L) if tag == 0 else H(salt, "d", S["cnt"]) % L
                return (sol, i)
            return destroy

        def mk_repair(tag):
            def repair(partial, rng):
                sol, i = partial
                lst = list(sol)
                lst[i] = rng.randrange(K) if tag == 0 else (lst[i] + 1 + H(salt, "r", S["cnt"]) % max(1, K - 1)) % K
                return fresh(lst)
            return repair

        def crossover(p1, p2):
            S["cnt"] += 1
            cut = H(salt, "x", S["cnt"]) % (L + 1)
            return fresh(list(p1[:cut]) + list(p2[cut:]))

        def mutate(sl):
            S["cnt"] += 1
            return fresh(tweak(sl, H(salt, "m", S["cnt"])))

        sess.update(fresh=fresh, custom_accept=custom_accept, acc={}, neighbors_anneal=neighbors_anneal,
                    neighbors_tabu=neighbors_tabu, destroy=[mk_destroy(0), mk_destroy(1)],
                    repair=[mk_repair(0), mk_repair(1)], crossover=crossover, mutate=mutate)
    S, rec, f, fresh = sess["S"], sess["rec"], sess["f"], sess["fresh"]
    S.clear()
    S.update(keep=[], idx_of={}, cur_at_call=[], cands=[], meta={}, acc_log={}, cnt=0,
             labels=pres.get("labels", "int"), outer=pres.get("outer", "list"))
    rec.args, rec.vals = [], []
    kw = dict(case["opts"])
    kw["minimize"] = minimize
    kw["seed"] = case["seed"]
    if case.get("stop"):
        kw["on_progress"] = _stopper(case["stop"])
        kw["progress_interval"] = 1

    accept_kind = None
    if solver in ("lns", "alns"):
        a = kw.get("accept", "improving" if solver == "lns" else "simulated_annealing")
        if isinstance(a, dict):
            if a["custom"] not in sess["acc"]:
                sess["acc"][a["custom"]] = sess["custom_accept"](a["custom"])
            kw["accept"] = sess["acc"][a["custom"]]
            accept_kind = 3
        else:
            accept_kind = ACCEPT_CODE[a]
        for wname in ("destroy_weights", "repair_weights"):
            if wname in kw:
                kw[wname] = _seq([_num(w, pres) for w in kw[wname]], pres.get("outer", "list"))

    init = fresh(case["start"]) if solver != "evolve" else None

    if solver == "anneal":
        from solvor.anneal import anneal, linear_cooling, logarithmic_cooling
        c = kw.get("cooling")
        if isinstance(c, list):
            kw["cooling"] = linear_cooling(c[1]) if c[0] == "linear" else logarithmic_cooling(c[1])
        r = anneal(init, rec, sess["neighbors_anneal"], **kw)
    elif solver == "tabu":
        from solvor.tabu import tabu_search
        r = tabu_search(init, rec, sess["neighbors_tabu"], **kw)
    elif solver in ("lns", "alns"):
        from solvor.lns import alns, lns
        if solver == "lns":
            r = lns(init, rec, sess["destroy"][cb.get("dtag", 0)], sess["repair"][cb.get("rtag", 0)], **kw)
        else:
            r = alns(init, rec, _seq(sess["destroy"][: cb.get("nd", 2)], pres.get("outer", "list")),
                     _seq(sess["repair"][: cb.get("nr", 2)], pres.get("outer", "list")), **kw)
    else:  # evolve
        from solvor.genetic import evolve
        pop, seen = [], {}
        for p in case["start"]:
            if pres.get("alias") and tuple(p) in seen:
                pop.append(seen[tuple(p)])
            else:
                seen[tuple(p)] = fresh(p)
                pop.append(seen[tuple(p)])
        r = evolve(rec, _seq(pop, pres.get("outer", "list")), sess["crossover"], sess["mutate"], **kw)

    cur_at_call, cands, acc_log = S["cur_at_call"], S["cands"], S["acc_log"]
    n = len(rec.vals)
    if solver in ("anneal", "lns", "alns", "tabu"):
        # accept decision for candidate k is visible as the argument of the next callback call
        coins = [False] * n
        if solver == "tabu":
            pass
        elif accept_kind == 3:
            for k, a in acc_log.items():
                coins[k] = bool(a)
        else:
            for k in range(1, n):
                if k < len(cur_at_call):
                    coins[k] = cur_at_call[k] == k
    else:
        coins = []
    extra = {"coins": coins, "cur_at_call": list(cur_at_call), "cands": [list(c) for c in cands],
             "accept_kind": accept_kind,
             "starts": [rat(f(tuple(p))) for p in (case["start"] if solver == "evolve" else [case["start"]])]}
    sess.setdefault("sols", []).append((r.solution, _snapshot(r.solution)))
    return _result(r, rec, f, extra, cont=False)


def _clipf(x, bounds):
    return [max(lo, min(hi, xi)) for xi, (lo, hi) in zip(x, bounds)]


def run_continuous(case, minimize, negate, sess=None):
    solver = case["solver"]
    sess = {} if sess is None else sess
    pres = case.get("pres", {})
    if "rec" not in sess:
        f0 = cobj(case["obj"])
        sess["f"] = (lambda x: -f0(x)) if negate else f0
        sess["rec"] = Rec(sess["f"], list)
        if solver in ("bfgs", "lbfgs"):
            sess["grad"] = make_grad(case["obj"], sess["f"])
    f, rec = sess["f"], sess["rec"]
    rec.args, rec.vals = [], []
    kw = dict(case["opts"])
    kw["minimize"] = minimize
    if case.get("stop"):
        kw["on_progress"] = _stopper(case["stop"])
        kw["progress_interval"] = 1
    plain = [tuple(b) for b in case["bounds"]] if case.get("bounds") else None
    bounds = _bounds(case["bounds"], pres) if case.get("bounds") else None
    x0 = _seq([_num(v, pres) for v in case["start"]], pres.get("outer", "list")) \
        if solver in ("nm", "powell", "bfgs", "lbfgs") else None
    starts = []
    if solver == "de":
        from solvor.differential_evolution import differential_evolution
        if case.get("start") is not None:
            kw["initial_population"] = _vectors(case["start"], pres)
            used = case["start"][: max(kw.get("population_size", 15), 4)]
            starts = [rat(f(_clipf(p, plain))) for p in used]
        r = differential_evolution(rec, bounds, seed=case["seed"], **kw)
    elif solver == "pso":
        from solvor.particle_swarm import particle_swarm
        if case.get("start") is not None:
            kw["initial_positions"] = _vectors(case["start"], pres)
            used = case["start"][: kw.get("n_particles", 30)]
            starts = [rat(f(_clipf(p, plain))) for p in used]
        r = particle_swarm(rec, bounds, seed=case["seed"], **kw)
    elif solver == "bayes":
        from solvor.bayesian import bayesian_opt
        r = bayesian_opt(rec, bounds, seed=case["seed"], **kw)
    elif solver == "nm":
        from solvor.nelder_mead import nelder_mead
        starts = [rat(f(list(case["start"])))]
        r = nelder_mead(rec, x0, **kw)
    elif solver == "powell":
        from solvor.powell import powell
        if bounds:
            kw["bounds"] = bounds
        r = powell(rec, x0, **kw)
    else:
        from solvor.bfgs import bfgs, lbfgs
        r = (bfgs if solver == "bfgs" else lbfgs)(sess["grad"], x0, objective_fn=rec, **kw)
    extra = {"starts": starts, "coins": [], "cur_at_call": [], "cands": [], "accept_kind": None}
    sess.setdefault("sols", []).append((r.solution, _snapshot(r.solution)))
    return _result(r, rec, f, extra, cont=True)


DISCRETE = ("anneal", "tabu", "lns", "alns", "evolve")


def run_once(case, minimize, negate, sess=None):
    return (run_discrete if case["solver"] in DISCRETE else run_continuous)(case, minimize, negate, sess)


def _try(case, minimize, negate):
    try:
        return run_once(case, minimize, negate)
    except BaseException as e:  # noqa: BLE001
        return {"raised": f"{type(e).__name__}: {e}"[:300]}


def impl(case, sess=None):
    """Recorded run (inside the history's session when there is one), identical rerun and mirrored run with
    fresh function objects."""
    own = {} if sess is None else sess
    A = run_once(case, case["minimize"], False, own)     # an exception here is the outcome of the case
    A2 = _try(case, case["minimize"], False)             # same input again
    B = _try(case, not case["minimize"], True) if case["solver"] in SKELETON else None   # mirror image
    keys = ("sol", "obj", "evals", "iters", "status")
    same = "raised" not in A2 and all(A[k] == A2[k] for k in keys)
    mirror = None
    if B is not None:
        if "raised" in B:
            mirror = {"raised": B["raised"]}
        else:
            mirror = {"sol": B["sol"], "obj": B["obj"], "evals": B["evals"],
                      "ok": B["sol"] == A["sol"] and frac_of(B["obj"]) == -frac_of(A["obj"]) and B["evals"] == A["evals"]}
    obj, snap = own["sols"][-1]
    return {"A": A, "same_again": same, "again": None if same else {k: A2.get(k) for k in keys + ("raised",)},
            "mirror": mirror, "sol_changed": None if _same_obj(obj, snap) else [repr(snap)[:200], repr(obj)[:200]]}


def _same_obj(a, b):
    try:
        return type(a) is type(b) and repr(a) == repr(b)
    except Exception:  # noqa: BLE001
        return False


def impl_group(group):
    """A history: 1-4 related cases run one after the other in this process, sharing the objective proxy and
    the callback objects.  Each element gets its own outcome ("ok", value) / ("err", message)."""
    sess = {} if len(group) > 1 else None
    outs = []
    for case in group:
        try:
            outs.append(["ok", impl(case, sess)])
        except BaseException as e:  # noqa: BLE001
            import traceback
            outs.append(["err", f"{type(e).__name__}: {e}"[:500] + "\n" + traceback.format_exc(limit=4)[-600:]])
    if sess is not None:
        # solution objects handed out by earlier calls must still be what they were
        for i, (obj, snap) in enumerate(sess.get("sols", [])):
            oks = [k for k, o in enumerate(outs) if o[0] == "ok"]
            if i < len(oks) and not _same_obj(obj, snap) and not outs[oks[i]][1]["sol_changed"]:
                outs[oks[i]][1]["sol_changed"] = [repr(snap)[:200], repr(obj)[:200]]
    return outs


def frac_of(v):
    return Fraction(v[0], v[1])


def val_of(v):
    """Decoded `enc` value: a Fraction, or the repr string of a non-finite float."""
    return v if isinstance(v, str) else Fraction(v[0], v[1])


# ---------------------------------------------------------------------------
# generator
# ---------------------------------------------------------------------------

def gen_dobj(rng, L, K):
    kind = rng.choice(["hash", "hash", "needle", "needle", "plateau", "cliff", "const"])
    spec = {"kind": kind, "salt": rng.randrange(10 ** 6), "scale": rng.choice([1, 1, 1, 0.5, 0.25])}
    if kind == "hash":
        spec["R"] = rng.choice([3, 7, 20, 101])
    elif kind == "needle":
        spec["M"] = rng.choice([5, 11, 29])
    elif kind == "plateau":
        spec["c"] = [rng.randrange(K) for _ in range(L)]
        spec["w"] = rng.choice([1, 2, 3])
    elif kind == "cliff":
        spec["K"] = K
    return spec


def dyadic(rng, lo, hi, q=4):
    return rng.randint(lo * q, hi * q) / q


def gen_cobj(rng, n, lo=-4, hi=4):
    kind = rng.choice(["steps", "steps", "needle", "needle", "plateau", "disc", "hashgrid", "hashgrid", "const"])
    spec = {"kind": kind, "c": [dyadic(rng, lo, hi) for _ in range(n)], "k": rng.choice([1, 2, 4]),
            "scale": rng.choice([1, 1, 1, 0.5])}
    if kind == "needle":
        spec["w"] = rng.choice([0.25, 0.5, 1.0])
        spec["cap"] = rng.choice([3, 8, 50])
    elif kind == "hashgrid":
        spec.update(salt=rng.randrange(10 ** 6), g=rng.choice([1, 2, 4]), R=rng.choice([3, 9, 50]))
    return spec


def gen_nsm(rng, n, neg=False):
    """Objectives with jumps and kinks: hard-penalty quadratic, L1, minimax, hinge, stairs plus a slope."""
    kind = rng.choice(["jump", "jump", "jump", "l1", "minimax", "hinge", "stair"])
    spec = {"kind": kind, "c": [dyadic(rng, -2, 2) for _ in range(n)], "neg": neg, "scale": 1,
            "a": [rng.choice([0.5, 1.0, 1.0, 3.0]) for _ in range(n)], "k": rng.choice([1, 2, 4])}
    if kind == "jump":
        spec["t"] = spec["c"][0] + rng.choice([-2, -1, -0.5, 0.25, 0.5, 1, 2])   # discontinuity left/right of the optimum
        spec["C"] = rng.choice([1.0, 10.0, 100.0, 1000.0])
        spec["below"] = rng.random() < 0.5      # penalised side
    elif kind == "hinge":
        spec["lam"] = rng.choice([0.0, 0.1, 1.0])
    return spec


def gen_bounds(rng, n):
    bs = []
    for _ in range(n):
        lo = dyadic(rng, -4, 2)
        bs.append([lo, lo + rng.choice([0.5, 1, 2, 4, 6])])
    return bs


def gen_case(rng, solver, big=False):
    case = {"solver": solver, "minimize": rng.random() < 0.5, "seed": rng.randrange(10 ** 6), "stop": 0}
    if solver in DISCRETE:
        L, K = rng.randint(1, 4), rng.randint(2, 6)
        case["cb"] = {"L": L, "K": K, "salt": rng.randrange(10 ** 6), "mode": rng.choice(["step", "jump"])}
        case["obj"] = gen_dobj(rng, L, K)
        case["start"] = [rng.randrange(K) for _ in range(L)]
        mi = rng.choice([1, 2, 3, 5, 10, 30, 80] + ([300, 1000] if big else []))
        o = {"max_iter": mi}
        if rng.random() < 0.25:
            case["stop"] = rng.randint(1, max(1, mi))
        if solver == "anneal":
            o["temperature"] = rng.choice([1000.0, 1000.0, 5.0, 0.5])
            c = rng.choice([None, 0.9, 0.5, ["linear", 1e-8], ["log", 1.0]])
            if c is not None:
                o["cooling"] = c
            if rng.random() < 0.2:
                o["min_temp"] = rng.choice([0.1, 1.0, 100.0])
        elif solver == "tabu":
            o["cooldown"] = rng.choice([1, 2, 3, 5, 10])
            o["max_no_improve"] = rng.choice([1, 2, 5, 100])
            case["cb"].update(dead=rng.choice([0, 0, 7, 23]), dens=rng.choice([1, 2, 3, 4]),
                              coarse=rng.random() < 0.4)
        elif solver in ("lns", "alns"):
            a = rng.choice(["improving", "accept_all", "simulated_annealing", "simulated_annealing", "custom", None])
            if a == "custom":
                o["accept"] = {"custom": rng.choice(["never", "always", "rng", "worse_only", "slack", "hash"])}
            elif a is not None:
                o["accept"] = a
            o["max_no_improve"] = rng.choice([1, 3, 10, 100])
            if rng.random() < 0.5:
                o["start_temp"] = rng.choice([100.0, 1.0, 0.01])
                o["cooling_rate"] = rng.choice([0.9995, 0.5])
            if solver == "alns":
                o["segment_size"] = rng.choice([1, 3, 100])
                case["cb"].update(nd=rng.choice([1, 2]), nr=rng.choice([1, 2]))
            else:
                case["cb"].update(dtag=rng.choice([0, 1]), rtag=rng.choice([0, 1]))
        else:  # evolve
            P = rng.randint(1, 8)
            case["start"] = [[rng.randrange(K) for _ in range(L)] for _ in range(P)]
            o["max_iter"] = rng.choice([0, 1, 2, 5, 15] + ([60] if big else []))
            if case["stop"]:
                case["stop"] = rng.randint(1, max(1, o["max_iter"]))
            o["elite_size"] = rng.choice([0, 1, 2, 2, 3, P, P + 2])
            o["mutation_rate"] = rng.choice([0.0, 0.1, 0.5, 1.0])
            o["tournament_k"] = rng.choice([1, 2, 3, 5])
            o["adaptive_mutation"] = rng.random() < 0.3
        case["opts"] = o
        return case
    # continuous
    n = rng.randint(1, 3)
    case["obj"] = gen_cobj(rng, n)
    o = {}
    if solver in ("de", "pso", "bayes"):
        case["bounds"] = gen_bounds(rng, n)
    if solver == "de":
        o["population_size"] = rng.choice([1, 2, 3, 4, 5, 6, 8, 15])   # 1..3 are silently raised to 4
        o["max_iter"] = rng.choice([1, 2, 3, 8, 20] + ([80] if big else []))
        o["strategy"] = rng.choice(["rand/1", "rand/1", "best/1", "best/1", "rand/2", "best/2"])
        if o["strategy"].endswith("/2"):
            o["population_size"] = rng.choice([6, 8, 15])     # the small-population fallback is an edge case below
        o["mutation"] = rng.choice([0.8, 0.5, 1.5])
        o["crossover"] = rng.choice([0.7, 0.0, 1.0])
        if rng.random() < 0.3:
            o["tol"] = rng.choice([0.0, 1e-8, 0.5])
        if rng.random() < 0.4:
            m = rng.randint(1, max(o["population_size"], 4) + 2)
            case["start"] = [[dyadic(rng, -8, 8) for _ in range(n)] for _ in range(m)]
        if rng.random() < 0.2:
            case["stop"] = rng.randint(1, o["max_iter"])
    elif solver == "pso":
        o["n_particles"] = rng.choice([1, 2, 3, 5, 10, 30])
        o["max_iter"] = rng.choice([1, 2, 3, 8, 20] + ([80] if big else []))
        if rng.random() < 0.3:
            o["inertia_decay"] = 0.4
        if rng.random() < 0.3:
            o["v_max"] = rng.choice([0.25, 1.0, 100.0])
        if rng.random() < 0.4:
            m = rng.randint(1, o["n_particles"] + 2)
            case["start"] = [[dyadic(rng, -8, 8) for _ in range(n)] for _ in range(m)]
        if rng.random() < 0.2:
            case["stop"] = rng.randint(1, o["max_iter"])
    elif solver == "bayes":
        o["n_initial"] = rng.choice([1, 2, 3, 5])
        o["max_iter"] = rng.choice([0, 2, 4, 6, 8] + ([14] if big else []))
        o["acquisition"] = rng.choice(["ei", "ucb"])
        o["acq_restarts"] = rng.choice([1, 2])
        if rng.random() < 0.2:
            case["stop"] = rng.randint(1, max(1, o["max_iter"]))
    elif solver == "nm":
        case["start"] = [rng.choice([0, 0.0, dyadic(rng, -6, 6), rng.randint(-5, 5)]) for _ in range(n)]
        o["max_iter"] = rng.choice([1, 2, 3, 5, 10, 30, 100] + ([400] if big else []))
        o["tol"] = rng.choice([1e-6, 1e-6, 0.0, 1.5, 3.0])
        o["adaptive"] = rng.random() < 0.3
        o["initial_step"] = rng.choice([0.05, 0.5, 1.0, 2.0])
        if rng.random() < 0.35:
            case["stop"] = rng.randint(1, o["max_iter"])
    elif solver == "powell":
        case["start"] = [dyadic(rng, -4, 4) for _ in range(n)]
        if rng.random() < 0.5:
            case["bounds"] = gen_bounds(rng, n)
        r = rng.random()
        if r < 0.25:
            case["obj"] = {"kind": "quad", "c": [dyadic(rng, -2, 2) for _ in range(n)],
                           "a": [rng.choice([0.5, 1.0, 3.0]) for _ in range(n)]}
        elif r < 0.7:
            case["obj"] = gen_nsm(rng, n, neg=not case["minimize"])
        o["max_iter"] = rng.choice([0, 1, 2, 3, 5, 8, 13, 20, 40])
        if rng.random() < 0.3:
            o["tol"] = rng.choice([0.0, 1e-12, 1e-3])
        if rng.random() < 0.2:
            case["stop"] = rng.randint(1, max(1, o["max_iter"]))
    else:  # bfgs / lbfgs: smooth or kinked/jumping objective, convex (minimize) or its negation (maximize)
        neg = not case["minimize"]
        if rng.random() < 0.2:
            case["obj"] = {"kind": "quad", "c": [dyadic(rng, -2, 2) for _ in range(n)], "neg": neg,
                           "a": [rng.choice([0.5, 1.0, 3.0]) for _ in range(n)]}
        else:
            case["obj"] = gen_nsm(rng, n, neg=neg)
        case["obj"]["grad"] = rng.choice(["analytic", "analytic", "numeric"])
        if case["obj"]["grad"] == "numeric":
            case["obj"]["h"] = rng.choice([1e-6, 1e-3])
        case["start"] = [dyadic(rng, -4, 4) for _ in range(n)]
        ob = case["obj"]
        if ob["kind"] == "jump" and rng.random() < 0.7:
            # hard-penalty shape: the unconstrained optimum lies in the penalised half-space, the start does not,
            # so the iterates pile up against the discontinuity and line searches run out of backtracks
            d = rng.choice([0.25, 0.5, 1, 2])
            side = rng.choice([1, -1])
            ob["t"] = ob["c"][0] + side * d
            ob["below"] = side > 0                     # penalise x0 < t (side>0) or x0 >= t (side<0): c[0] is penalised
            case["start"][0] = ob["t"] + side * rng.choice([0.25, 0.5, 1, 2, 3])
        # sweep the iteration limit so that runs end on every kind of iteration (also an exhausted line search)
        o["max_iter"] = rng.randint(1, 40) if rng.random() < 0.8 else rng.choice([0, 60, 150, 1000])
        if rng.random() < 0.3:
            o["tol"] = rng.choice([0.0, 1e-12, 1e-3])
        if solver == "lbfgs":
            o["m"] = rng.choice([1, 3, 10])
        if rng.random() < 0.15:
            case["stop"] = rng.randint(1, max(1, o["max_iter"]))
    case["opts"] = o
    return case


def gen_pres(rng):
    return {"outer": rng.choice(["list", "tuple"]), "inner": rng.choice(["list", "tuple"]),
            "num": rng.choice(["int", "float", "asis"]), "alias": rng.random() < 0.4,
            "labels": rng.choice(["int", "odd"])}


def with_pres(rng, case):
    """Attach a presentation style (70 % of the cases); with aliasing on, make two start vectors equal."""
    if rng.random() < 0.7:
        case["pres"] = gen_pres(rng)
        st = case.get("start")
        if case["pres"]["alias"] and case["solver"] in ("evolve", "de", "pso") and st and len(st) >= 2:
            i, j = rng.sample(range(len(st)), 2)
            st[j] = list(st[i])
    return case


def vary(rng, case):
    """A related input for a history: same solver, objective and callbacks, changed limits / direction / start."""
    import copy
    c = copy.deepcopy(case)
    s = c["solver"]
    hows = ["same", "max_iter_up", "max_iter_down", "seed", "stop", "pres"]
    if s in SKELETON:
        hows += ["flip", "flip"]
    if c.get("bounds"):
        hows += ["bounds_wide", "bounds_narrow"]
    if c.get("start") is not None:
        hows += ["start"]
    how = rng.choice(hows)
    o = c["opts"]
    if how == "max_iter_up":
        o["max_iter"] = o.get("max_iter", 10) * rng.choice([2, 3]) + 1
    elif how == "max_iter_down":
        o["max_iter"] = max(1, o.get("max_iter", 10) // rng.choice([2, 3]))
    elif how == "seed":
        c["seed"] = rng.randrange(10 ** 6)
    elif how == "stop":
        c["stop"] = 0 if c.get("stop") else rng.randint(1, max(1, o.get("max_iter", 5)))
    elif how == "pres":
        c["pres"] = gen_pres(rng)
    elif how == "flip":
        c["minimize"] = not c["minimize"]
    elif how in ("bounds_wide", "bounds_narrow"):
        d = rng.choice([0.5, 1, 2])
        c["bounds"] = [[lo - d, hi + d] if how == "bounds_wide" else [lo, lo + max(0.25, (hi - lo) / 2)]
                       for lo, hi in c["bounds"]]
    elif how == "start":
        st = c["start"]
        if s in DISCRETE and s != "evolve":
            c["start"] = [rng.randrange(c["cb"]["K"]) for _ in st]
        elif s == "evolve":
            c["start"] = [[rng.randrange(c["cb"]["K"]) for _ in st[0]] for _ in range(rng.randint(1, len(st) + 2))]
        elif s in ("de", "pso"):
            c["start"] = [[dyadic(rng, -8, 8) for _ in st[0]] for _ in range(rng.randint(1, len(st) + 2))]
        else:
            c["start"] = [dyadic(rng, -4, 4) for _ in st]
    if c.get("stop") and o.get("max_iter") is not None:
        c["stop"] = min(c["stop"], max(1, o["max_iter"]))
    return c, how


def gen_history(rng, solver, gid):
    """2-4 consecutive calls sharing the objective proxy and every callback object."""
    base = with_pres(rng, gen_case(rng, solver))
    group = [base]
    base["hist"] = {"gid": gid, "pos": 0, "how": "base"}
    for k in range(1, rng.randint(2, 4)):
        c, how = vary(rng, group[-1])
        c["hist"] = {"gid": gid, "pos": k, "how": how}
        group.append(c)
    return group


def large_cases(rng):
    """A few instances several times larger than the usual ones (long runs, big populations / neighbourhoods /
    dimensions, many ties)."""
    out = []

    def disc(solver, L, K, opts, **cbx):
        c = {"solver": solver, "minimize": rng.random() < 0.5, "seed": rng.randrange(10 ** 6), "stop": 0, "large": True,
             "cb": {"L": L, "K": K, "salt": rng.randrange(10 ** 6), "mode": "step", **cbx}, "opts": opts}
        c["obj"] = rng.choice([{"kind": "hash", "salt": rng.randrange(10 ** 6), "scale": 1, "R": 3},
                               {"kind": "plateau", "salt": 0, "scale": 1, "c": [rng.randrange(K) for _ in range(L)], "w": 3},
                               {"kind": "needle", "salt": rng.randrange(10 ** 6), "scale": 1, "M": 29}])
        c["start"] = [rng.randrange(K) for _ in range(L)]
        return c

    out.append(disc("anneal", 30, 4, {"max_iter": 20000, "temperature": 5.0, "cooling": 0.9999}))
    out.append(disc("lns", 20, 5, {"max_iter": 5000, "max_no_improve": 5000, "accept": "simulated_annealing",
                                   "start_temp": 1.0}, dtag=0, rtag=0))
    out.append(disc("alns", 20, 5, {"max_iter": 5000, "max_no_improve": 5000, "segment_size": 50}, nd=2, nr=2))
    out.append(disc("tabu", 40, 3, {"max_iter": 150, "max_no_improve": 150, "cooldown": 30}, dead=0, dens=4, coarse=False))
    e = disc("evolve", 12, 4, {"max_iter": 25, "elite_size": 5, "mutation_rate": 0.3, "tournament_k": 4})
    e["start"] = [[rng.randrange(4) for _ in range(12)] for _ in range(150)]
    out.append(e)

    def cont(solver, n, opts, **kw):
        c = {"solver": solver, "minimize": rng.random() < 0.5, "seed": rng.randrange(10 ** 6), "stop": 0, "large": True,
             "obj": gen_cobj(rng, n), "opts": opts, **kw}
        return c

    out.append(cont("de", 6, {"population_size": 60, "max_iter": 40, "tol": 0.0}, bounds=gen_bounds(rng, 6)))
    out.append(cont("pso", 6, {"n_particles": 120, "max_iter": 40}, bounds=gen_bounds(rng, 6)))
    out.append(cont("nm", 12, {"max_iter": 600, "tol": 0.0, "initial_step": 0.5}, start=[dyadic(rng, -4, 4) for _ in range(12)]))
    out.append(cont("bayes", 3, {"n_initial": 6, "max_iter": 22, "acq_restarts": 2}, bounds=gen_bounds(rng, 3)))
    return [with_pres(rng, c) for c in out]


def boundary_cases(rng):
    """A fixed handful per solver: boundary seeds (0, 1, 2**32, -1) under the run-twice clause, and every optional
    numeric parameter of the bounded solvers far outside its default scale under the in-bounds clause, on
    objectives whose better values lie towards / beyond the walls of the box."""
    out = []
    for solver in ("anneal", "tabu", "lns", "alns", "evolve", "de", "pso", "bayes"):
        for seed in (0, 1, 2 ** 32, -1):
            c = gen_case(rng, solver)
            c["seed"] = seed
            c["stop"] = 0
            if solver in DISCRETE:
                c["obj"] = {"kind": "hash", "salt": rng.randrange(10 ** 6), "scale": 1, "R": 101}
                c["cb"].update(L=4, K=6)
                c["start"] = [rng.randrange(6) for _ in range(4)] if solver != "evolve" else \
                    [[rng.randrange(6) for _ in range(4)] for _ in range(6)]
                c["opts"]["max_iter"] = 40 if solver != "evolve" else 8
                if solver == "anneal":
                    c["opts"].update(temperature=20.0, cooling=0.999)
                    c["opts"].pop("min_temp", None)
                if solver in ("lns", "alns"):
                    c["opts"].update(accept="simulated_annealing", start_temp=20.0, cooling_rate=0.999, max_no_improve=100)
                if solver == "tabu":
                    c["opts"].update(max_no_improve=100)
                    c["cb"].update(dead=0, dens=4)
                if solver == "evolve":
                    c["opts"].update(mutation_rate=0.5, elite_size=1)
            else:
                c["opts"]["max_iter"] = max(6, c["opts"].get("max_iter", 6))
            c["boundary"] = f"seed={seed}"
            out.append(c)

    def box_case(solver, opts):
        n = rng.randint(1, 3)
        bs = gen_bounds(rng, n)
        j = rng.randrange(n)
        bs[j] = [bs[j][0], bs[j][0] + 0.5]                      # one narrow dimension
        centre = [(lo + hi) / 2 for lo, hi in bs]
        far = rng.random() < 0.7
        c = {"solver": solver, "seed": rng.randrange(10 ** 6), "stop": 0, "bounds": bs,
             # far: the further from the centre the better (walls and beyond attract); else a random grid
             "obj": ({"kind": "steps", "c": centre, "k": 4, "scale": 1} if far else
                     {"kind": "hashgrid", "c": centre, "k": 1, "scale": 1, "salt": rng.randrange(10 ** 6), "g": 2, "R": 50}),
             "minimize": (not far) if far else rng.random() < 0.5, "opts": opts}
        c["boundary"] = solver + ":" + ",".join(f"{k}={v}" for k, v in sorted(opts.items()) if k not in ("max_iter",))
        return c, max(hi - lo for lo, hi in bs)

    for mult in (3, 10, 1e-9, 0.0, 1000):
        c, w = box_case("pso", {"n_particles": 6, "max_iter": 15})
        c["opts"]["v_max"] = mult * w if mult >= 1 else mult
        c["boundary"] = f"pso:v_max={mult}x"
        out.append(c)
    for extra in ({"inertia": 0.0}, {"inertia": 1.5, "v_max": 50.0}, {"cognitive": 0.0, "social": 6.0, "v_max": 20.0},
                  {"cognitive": 6.0, "social": 0.0, "v_max": 20.0}, {"inertia": 0.9, "inertia_decay": 0.0, "v_max": 8.0},
                  {"inertia": 1.0, "cognitive": 4.0, "social": 4.0, "v_max": 1e6}):
        c, _ = box_case("pso", {"n_particles": 5, "max_iter": 15, **extra})
        out.append(c)
    for extra in ({"mutation": 0.0}, {"mutation": 3.0}, {"mutation": 25.0, "crossover": 1.0}, {"crossover": 0.0},
                  {"mutation": 1e-9, "strategy": "best/1"}, {"mutation": 100.0, "strategy": "best/1", "population_size": 2}):
        c, _ = box_case("de", {"population_size": 5, "max_iter": 12, "tol": 0.0, **extra})
        out.append(c)
    for extra in ({"kappa": 0.0, "acquisition": "ucb"}, {"kappa": 1000.0, "acquisition": "ucb"}, {"acq_restarts": 1}):
        c, _ = box_case("bayes", {"n_initial": 3, "max_iter": 9, **extra})
        out.append(c)
    for step in (1e-9, 100.0, 0.0):
        c = gen_case(rng, "nm")
        c["opts"]["initial_step"] = step
        c["boundary"] = f"nm:initial_step={step}"
        out.append(c)
    for t in (1e-6, 1e9):
        c = gen_case(rng, "anneal")
        c["opts"]["temperature"] = t
        c["opts"].pop("min_temp", None)
        c["boundary"] = f"anneal:temperature={t}"
        out.append(c)
    return out


def edge_cases(rng):
    """Inputs at the edge of the quantified domain: zero iteration budget, no tabu memory, DE strategies that
    need the small-population fallback, degenerate bounds."""
    out = []
    for solver in ("anneal", "tabu", "lns", "alns", "de", "pso", "nm"):
        for _ in range(2):
            c = gen_case(rng, solver)
            c["opts"]["max_iter"] = 0
            c["stop"] = 0
            c["edge"] = "max_iter=0"
            out.append(c)
    for _ in range(3):
        c = gen_case(rng, "tabu")
        c["opts"]["cooldown"] = 0
        c["cb"]["dead"] = 0
        c["cb"]["dens"] = 4
        c["edge"] = "cooldown=0"
        out.append(c)
    for _ in range(4):
        c = gen_case(rng, "de")
        c["opts"]["strategy"] = rng.choice(["rand/2", "best/2", "rand/3"])
        c["opts"]["population_size"] = rng.choice([1, 4, 5])
        if c["opts"]["strategy"] == "rand/3":
            c["opts"]["population_size"] = rng.choice([4, 6, 7])
        c.pop("start", None)
        c["edge"] = "strategy_fallback"
        out.append(c)
    for _ in range(3):
        c = gen_case(rng, rng.choice(["bayes", "bayes", "de", "pso"]))
        n = len(c["bounds"])
        j = rng.randrange(n)
        c["bounds"][j][1] = c["bounds"][j][0]
        if c["solver"] == "bayes":
            c["opts"]["max_iter"] = max(c["opts"]["max_iter"], c["opts"]["n_initial"] + 2)
            c["stop"] = 0
        c["edge"] = "degenerate_bounds"
        out.append(c)
    return out


# ---------------------------------------------------------------------------
# model request / comparison
# ---------------------------------------------------------------------------

def defaults(solver):
    import inspect
    import importlib
    modname = {"anneal": "anneal", "tabu": "tabu", "lns": "lns", "alns": "lns", "evolve": "genetic",
               "de": "differential_evolution", "pso": "particle_swarm", "nm": "nelder_mead", "bayes": "bayesian"}[solver]
    fn = getattr(importlib.import_module("solvor." + modname), FN[solver])
    return {k: p.default for k, p in inspect.signature(fn).parameters.items() if p.default is not inspect.Parameter.empty}


_DEF: dict = {}


def opt(case, name):
    s = case["solver"]
    if s not in _DEF:
        _DEF[s] = defaults(s)
    return case["opts"].get(name, _DEF[s][name])


def to_request(case, A, orig=False):
    s = case["solver"]
    n = len(A["fs"])
    stop = case.get("stop", 0)
    tol, cands = None, []
    if s == "anneal":
        ps = [n - 1]
    elif s == "tabu":
        ps = [opt(case, "cooldown"), opt(case, "max_no_improve"), stop]
        cands = A["cands"][: opt(case, "max_iter")]
    elif s in ("lns", "alns"):
        ps = [A["accept_kind"], opt(case, "max_iter"), opt(case, "max_no_improve"), stop]
    elif s == "evolve":
        ps = [len(case["start"]), max(0, opt(case, "elite_size")), A["iters"]]
    elif s == "de":
        p = max(opt(case, "population_size"), 4)
        ps = [p, max(0, (n - p)) // p]
    elif s == "pso":
        p = opt(case, "n_particles")
        ps = [p, max(0, (n - p)) // p]
    elif s == "bayes":
        n0 = opt(case, "n_initial")
        ps = [n0, max(0, n - n0)]
    else:  # nm
        ps = [len(case["start"]), opt(case, "max_iter"), stop]
        tol = rat(opt(case, "tol"))
    bounds = [[rat(lo), rat(hi)] for lo, hi in case["bounds"]] if case.get("bounds") else None
    point = A["sol"] if bounds else None
    return ["run", s, orig, case["minimize"], A["fs"], A["starts"], A["coins"], ps, tol, cands, A["obj"], A["fsol"], A["evals"],
            bounds, point]


def divergence(case, A, reply):
    """Where the skeleton replay of the recorded stream differs from what the implementation returned/did."""
    s = case["solver"]
    m_obj, m_idx, m_evals, m_trace = reply[:4]
    n = len(A["fs"])
    div = []
    if frac_of(m_obj) != frac_of(A["obj"]):
        div.append(f"objective: skeleton {frac_of(m_obj)} impl {frac_of(A['obj'])}")
    if m_evals != n:
        div.append(f"evaluations: skeleton consumed {m_evals} of {n} recorded calls")
    if m_idx not in A["matches"]:
        div.append(f"solution: skeleton returns candidate #{m_idx}, impl returned one of {A['matches'][:5]}")
    if s in ("anneal", "lns", "alns", "tabu"):
        seen = A["cur_at_call"][1:]
        if m_trace[: len(seen)] != seen:
            div.append(f"current-solution trace differs: skeleton {m_trace[:12]} impl {seen[:12]}")
    return div


def _show(v):
    return v if isinstance(v, str) else repr(float(v)) if v.denominator != 1 else str(v.numerator)


def judge(ctx, case, out, reply, alt=None):
    s = case["solver"]
    fn = FN[s]
    rep = {"case": case, "impl": out, "model": reply}
    canon = [s, case["minimize"], case["seed"], case.get("stop"), case["obj"], case.get("start"),
             case.get("bounds"), sorted((k, str(v)) for k, v in case["opts"].items()), case.get("cb"),
             case.get("pres"), (case.get("hist") or {}).get("pos")]
    ctx.count("solver:" + s)
    for k, v in (case.get("pres") or {}).items():
        ctx.count(f"pres:{k}:{v}")
    if case.get("hist"):
        ctx.count(f"history:pos{case['hist']['pos']}:{case['hist'].get('how', 'base')}")
    if case.get("large"):
        ctx.count("large:" + s)
    if case.get("boundary"):
        ctx.count("boundary:" + case["boundary"])
    ctx.count(f"{s}:obj:{case['obj']['kind']}")
    ctx.count("minimize" if case["minimize"] else "maximize")
    if case.get("stop"):
        ctx.count("on_progress_stop")
    if case.get("edge"):
        ctx.count("edge:" + case["edge"])
    if out[0] != "ok":
        kind = err_kind(out)
        klass = "raises:" + kind + (":" + case["edge"] if case.get("edge") else "")
        ctx.count("outcome:" + kind)
        ctx.fail(fn, klass, f"call with in-domain arguments raised/timed out: {str(out[1])[:300]}", rep)
        ctx.case(canon, False)
        return
    r = out[1]
    A = r["A"]
    ctx.count("status:" + A["status"])
    obj, fsol = val_of(A["obj"]), val_of(A["fsol"])
    mini = case["minimize"]
    failed = False
    # ---- R_prop: clauses of the property on the recorded trace of the real solver ----------------
    if s in SKELETON:
        m_obj, m_idx, m_evals, m_trace, m_iters, o_obj, o_idx, chk, inb = reply
        vals = [frac_of(v) for v in A["fs"]] + [frac_of(v) for v in A["starts"]]
        better = [v for v in vals if (v < obj if mini else v > obj)]
        py_ok = obj == fsol and not better and A["evals"] == len(A["fs"])
        ctx.count("checker_verdicts")
        if bool(chk) != py_ok:      # the verified checker decides; the Python clauses only name the class
            raise Infra(f"C19: verified checker and harness disagree on {case}")
        if not chk or not py_ok:
            failed = True
            if obj != fsol:
                ctx.fail(fn, "objective_mismatch", f"Result.objective={obj} but objective_fn(Result.solution)={fsol}", rep)
            if better:
                suffix = ""
                if s == "lns" and A["accept_kind"] == 3:
                    suffix = ":custom_accept"
                elif s == "nm" and case.get("stop") and A["iters"] == case["stop"]:
                    suffix = ":on_progress_stop"
                same_orig = frac_of(o_obj) == obj
                ctx.fail(fn, "not_best_of_evaluated" + suffix,
                         f"returned objective {obj} but the solver evaluated a point with value {better[0]}"
                         + (" (equals the skeleton of the rule as written in the unchanged tree)" if same_orig else ""), rep)
            if A["evals"] != len(A["fs"]):
                ctx.fail(fn, "evaluations_miscounted", f"evaluations={A['evals']} but the objective was called "
                         f"{len(A['fs'])} times", rep)
        if case.get("bounds") is not None and inb is not True:
            failed = True
            ctx.fail(fn, "out_of_bounds", f"returned point {A['sol']} is outside bounds {case['bounds']}", rep)
        mir = r["mirror"]
        if mir is not None and not mir.get("ok"):
            failed = True
            ctx.fail(fn, "mirror_differs", f"minimize(-f) with the same seed is not the mirror image: {mir}", rep)
    else:
        ctx.count(f"{s}:grad:{case['obj'].get('grad', 'none')}")
        ctx.count(f"{s}:max_iter:{'0' if not case['opts'].get('max_iter', 1000) else '1-40' if case['opts'].get('max_iter', 1000) <= 40 else '>40'}")
        if obj != fsol:
            failed = True
            stale = [k for k, v in enumerate(A["fs"]) if v == A["obj"] and k not in A["matches"]]
            ctx.fail(fn, "objective_mismatch",
                     f"Result.objective={_show(obj)} but objective_fn(Result.solution)={_show(fsol)}"
                     + (f"; the reported value is what the objective returned for another point (call #{stale[-1]})"
                        if stale else ""), rep)
    if r.get("sol_changed"):
        failed = True
        ctx.fail(fn, "solution_changed_by_later_call", f"the solution object of this Result was {r['sol_changed'][0]} "
                 f"when returned and is {r['sol_changed'][1]} after later calls", rep)
    if not r["same_again"]:
        failed = True
        ctx.fail(fn, "nondeterministic", f"second identical call returned {r['again']}", rep)
    # ---- R_trace: the skeleton replay reproduces the returned best, step by step -----------------
    nontrivial = False
    if s in SKELETON:
        n = len(A["fs"])
        div = divergence(case, A, reply)
        if div and not failed and alt is not None and not divergence(case, A, alt):
            # lns with a user acceptance callback on a tree without the repair C19_lns_best: the run follows the
            # skeleton of the rule as written (`lnsStepOrig`); the defect itself is reported where R_prop fails
            ctx.count("r_trace_agree_unrepaired_lns_rule")
        elif div and not failed:
            ctx.tdiv(fn, {"case": case, "divergence": div, "impl": {k: A[k] for k in ("sol", "obj", "evals", "iters")},
                          "model": reply})
        elif not div:
            ctx.count("r_trace_agree")
        # non-triviality
        sign = 1 if mini else -1
        iv = [sign * frac_of(v) for v in A["fs"]]
        nstart = {"evolve": len(case["start"]) if s == "evolve" else 1, "de": max(opt(case, "population_size"), 4) if s == "de" else 1,
                  "pso": opt(case, "n_particles") if s == "pso" else 1, "bayes": opt(case, "n_initial") if s == "bayes" else 1,
                  "nm": len(case["start"]) + 1 if s == "nm" else 1}.get(s, 1)
        if m_idx < n and m_idx >= nstart:
            b = iv[m_idx]
            if s in ("anneal", "lns", "alns", "tabu"):
                nontrivial = any(t > m_idx and t < n and iv[t] > b for t in m_trace)
            else:
                nontrivial = any(v > b for v in iv[m_idx + 1:])
        if nontrivial:
            ctx.count(f"nontrivial:{s}")
    else:
        nontrivial = A["iters"] >= 1
    ctx.case(canon, nontrivial, {"case": case, "impl": {k: A[k] for k in ("sol", "obj", "fsol", "evals", "iters", "status")},
                                 "calls": len(A["fs"]), "model": reply[:3] if reply else None})


class _Buf:
    """Buffers what `judge` reports so that history failures can be classified before they are emitted."""

    def __init__(self, ctx):
        self.ctx, self.ops = ctx, []
        self.tier, self.rng = ctx.tier, ctx.rng

    def count(self, *a):
        self.ops.append(("count", a))

    def fail(self, *a):
        self.ops.append(("fail", a))
        return True

    def tdiv(self, *a):
        self.ops.append(("tdiv", a))

    def case(self, *a, **k):
        self.ops.append(("case", a))

    def fails(self):
        return [a for op, a in self.ops if op == "fail"]

    def flush(self, suffix_for=()):
        for op, a in self.ops:
            if op == "fail":
                fn, klass, what, rp = a
                if klass in suffix_for:
                    klass += ":after_previous_call"
                    what += " (the same input run alone in a fresh process passes this clause)"
                self.ctx.count(f"fail:{fn}:{klass}")
                self.ctx.fail(fn, klass, what, rp)
            elif op == "case":
                self.ctx.case(*a)
            else:
                getattr(self.ctx, op)(*a)


def _evaluate(groups):
    """Run the groups on the implementation, replay every skeleton case in Lean; returns (cases, outs, by, alts)."""
    gouts = run_pool(impl_group, groups, timeout=90.0)
    cases, outs = [], []
    for g, go in zip(groups, gouts):
        for k, c in enumerate(g):
            cases.append(c)
            outs.append(tuple(go[1][k]) if go[0] == "ok" else go)     # a timeout/crash of the worker hits every element
    reqs, where = [], []
    for i, (c, o) in enumerate(zip(cases, outs)):
        if o[0] == "ok" and c["solver"] in SKELETON:
            where.append(i)
            reqs.append(to_request(c, o[1]["A"]))
    replies = Driver("Search").run(reqs, chunks=8)
    by = dict(zip(where, replies))
    for i, rp in by.items():
        if rp and rp[0] == "error":
            raise Infra(f"model rejected request for {cases[i]}: {rp}")
    # second replay (rule of the unchanged tree) for lns runs with a user acceptance callback that diverge
    again = [i for i in where if cases[i]["solver"] == "lns" and outs[i][1]["A"]["accept_kind"] == 3
             and divergence(cases[i], outs[i][1]["A"], by[i])]
    alts = dict(zip(again, Driver("Search").run([to_request(cases[i], outs[i][1]["A"], orig=True) for i in again])))
    return cases, outs, by, alts


def run_cases(ctx, groups):
    groups = [g if isinstance(g, list) else [g] for g in groups]
    cases, outs, by, alts = _evaluate(groups)
    bufs = []
    hist_of = {id(c): g[: k + 1] for g in groups if len(g) > 1 for k, c in enumerate(g)}
    for i, (c, o) in enumerate(zip(cases, outs)):
        b = _Buf(ctx)
        judge(b, c, o, by.get(i), alts.get(i))
        if id(c) in hist_of:      # the replay of a history element needs the calls that preceded it
            b.ops = [(op, (a[0], a[1], a[2], {**a[3], "history": hist_of[id(c)]}) if op == "fail" else a) for op, a in b.ops]
        bufs.append(b)
    # a failure inside a history: does the same input fail when it is run alone in a fresh process?
    sus = [i for i, b in enumerate(bufs) if cases[i].get("hist") and cases[i]["hist"]["pos"] > 0 and b.fails()]
    solo_fail: dict = {}
    if sus:
        solo = [[{k: v for k, v in cases[i].items() if k != "hist"}] for i in sus[:200]]
        c2, o2, by2, alts2 = _evaluate(solo)
        for j, i in enumerate(sus[:200]):
            b = _Buf(ctx)
            judge(b, c2[j], o2[j], by2.get(j), alts2.get(j))
            solo_fail[i] = {a[1] for a in b.fails()}
    for i, b in enumerate(bufs):
        if i in solo_fail:
            b.flush(suffix_for={a[1] for a in b.fails()} - solo_fail[i])
        else:
            b.flush()


PER_SOLVER = {"anneal": 1000, "tabu": 800, "lns": 1200, "alns": 1000, "evolve": 800, "de": 600, "pso": 600, "nm": 1200,
              "bayes": 300, "powell": 300, "bfgs": 600, "lbfgs": 600}


def _cov(ctx):
    ctx.cov["rule"] = RULE
    h = ctx.cov["histogram"]
    ctx.cov["r_trace_agree"] = h.get("r_trace_agree", 0)
    ctx.cov["cert_checked_impl"] = h.get("checker_verdicts", 0)
    ctx.cov["excluded_region"] = ("theorem hypotheses popSize/nParticles/nInitial >= 1 and dimension n >= 1: the real "
                                  "code rejects these inputs itself (IndexError/ValueError on an empty population, "
                                  "empty bounds, n_initial=0); non-finite objective values are outside the Rat model "
                                  "and are not generated")


HISTORY_SHARE = 0.25      # fraction of the generated cases that are elements of 2-4 call histories


def run(ctx, budget):
    ctx.cov["rule"] = RULE
    groups = [[c["case"]] for c in load_corpus("C19")]
    groups += [[c] for c in edge_cases(ctx.rng)]
    groups += [[c] for c in large_cases(ctx.rng)]
    for _ in range(2 if budget == 1 else 8):
        groups += [[with_pres(ctx.rng, c)] for c in boundary_cases(ctx.rng)]
    gid = 0
    for s, k in PER_SOLVER.items():
        n, made = k * budget, 0
        while made < n:
            if ctx.rng.random() < HISTORY_SHARE / 3:        # a history has 3 elements on average
                gid += 1
                g = gen_history(ctx.rng, s, gid)
            else:
                g = [with_pres(ctx.rng, gen_case(ctx.rng, s, big=(ctx.tier == "thorough" and made % 4 == 0)))]
            groups.append(g)
            made += len(g)
    run_cases(ctx, groups)
    _cov(ctx)


def replay(ctx, body):
    run_cases(ctx, [body.get("history") or [body["case"]]])
    _cov(ctx)
