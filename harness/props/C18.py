"""C18 — job-shop schedules and VRPTW bookkeeping (solvor/job_shop.py, vrp.py, lns.py) against the
proved dispatch machine and VRP bookkeeping skeleton (Solvor/Sched).

Job shop: every schedule the implementation hands out (dispatch only, after local search, and the
result of `_try_swap`/`_rebuild_schedule` on every adjacent pair of the final schedule) is judged by
the verified checker `chkSchedule` (valid + objective = latest end) and, as R_trace, must be exactly
the abstract machine's schedule for the pick order read off its own dict insertion order
(`isDispatchOf`); for the four deterministic rules the dispatch-only schedule must equal the mirror
`dispatchRule`.

VRP: `solve_vrptw` is replayed with recording wrappers around the exported operators (module
attributes of solvor.vrp are swapped for the duration of the call, nothing in /repo is edited), the
exported operators are additionally called directly on recorded states, and scripted operator
sequences are run from the empty plan.  Every (pre, post) pair must be an abstract transition of
its kind (`isRemove` / `isInsertRun`), every state must satisfy `Inv` (`chkInv`), its cached
arrival times must agree with the exact recomputation and `vrp_objective` with the exact formula
(both within 1e-6, exact rational arithmetic in Lean).
"""
from __future__ import annotations

import json

import core
from core import Driver, rat
from pool import err_kind, run_pool

AREAS = ["Sched"]
LEVEL = "proof"
ASSUMPTIONS = [
    "job shop: which ready job is picked (rule, seed, rebuild priorities) is a parameter of the model; "
    "tied by R_trace: each returned schedule equals the abstract machine's for its own pick order, and "
    "equals the rule mirror for fifo/spt/lpt/mwkr",
    "VRP: RNG, float distances (`hypot`) and the insertion-cost heuristics appear only as the payload of "
    "abstract transitions; the cached distance matrix is taken from the implementation as exact rationals",
    "VRP: float arrival times / objective are compared with the exact rational recomputation within 1e-6",
    "VRP: Vehicle.id is a label (the code never reads it); every per-vehicle quantity of the model (capacity) is "
    "addressed by list position, so ids different from positions must not change any observable",
    "excluded region: customer ids are their 1-based position (the documented usage; VRPState indexes "
    "customers by id), required_vehicles >= 1, solve_vrptw max_iter >= 1 (max_iter = 0 is C19's lns.py case)",
]
RULE = ("job shop: 1-6 jobs of 1-6 ops over 1-4 machine labels with gaps, repeated machines, zero durations, "
        "all rules, local-search lengths 0-150, seeds; non-trivial = the local search accepted >= 1 swap "
        "(final objective < dispatch objective).  VRP: 3-9 customers, time windows, demands, 0-3 "
        "multi-vehicle customers, fleets 1-4 given as a count or (half of the cases) as explicit Vehicle lists "
        "whose ids are positional / a non-identity permutation / outside 0..n-1 / strings / repeated, with "
        "heterogeneous capacities (big truck first or last) and max_duration values, weights, seeds, objective "
        "probes (vrp_objective on crammed, overloaded and late plans built from visited states), short ALNS runs "
        "replayed with recording "
        "wrappers + direct operator calls on recorded states + scripted operator sequences; non-trivial "
        "= >= 1 destroy step that removed and >= 1 repair step that inserted a customer")
TOL = [1, 10 ** 6]    # absolute: arrival times, objective
REL = [1, 10 ** 12]  # relative slack: objective (large penalty sums), squared distances

DESTROY = ["random_removal", "worst_removal", "related_removal", "route_removal", "sync_removal"]
REPAIR = ["greedy_insertion", "regret_insertion", "sync_aware_insertion"]
RULES = ["fifo", "spt", "lpt", "mwkr"]
WKEYS = ["distance_weight", "vehicle_weight", "tw_penalty", "capacity_penalty", "sync_penalty", "unassigned_penalty"]

# ---------------------------------------------------------------------------
# generators
# ---------------------------------------------------------------------------


def gen_js(rng, big):
    nj = rng.choice([1, 2, 3, 3, 4, 4, 5, 6 if big else 5])
    k = rng.randint(1, 4)
    labels = sorted(rng.sample(range(0, 9), k))
    durs = rng.choice([[0, 1, 2, 3, 5, 8], [0, 0, 1, 1, 2], [1, 2, 3, 4, 5, 6, 7, 9, 13], [0], [3, 3, 4]])
    jobs = []
    for _ in range(nj):
        nops = rng.randint(1, 6 if big else 4)
        jobs.append([[rng.choice(labels), rng.choice(durs)] for _ in range(nops)])
    rule = rng.choice(["spt", "lpt", "mwkr", "fifo", "random", "random", "SPT", "Lpt", "MWKR", "FIFO"])
    return {"kind": "js", "jobs": jobs, "rule": rule,
            "max_iter": rng.choice([0, 1, 5, 20, 60, 60, 150, 150]), "seed": rng.randrange(1000)}


def js_edges():
    yield {"kind": "js", "jobs": [], "rule": "spt", "max_iter": 5, "seed": 0}
    yield {"kind": "js", "jobs": [[[0, 0]]], "rule": "fifo", "max_iter": 5, "seed": 0}
    yield {"kind": "js", "jobs": [[[0, 3], [1, 2], [2, 2]], [[0, 2], [2, 1], [1, 4]]], "rule": "spt", "max_iter": 50,
           "seed": 1}
    yield {"kind": "js", "jobs": [[[7, 2], [7, 0], [7, 3]], [[7, 1]], [[3, 0], [7, 0]]], "rule": "lpt", "max_iter": 50,
           "seed": 2}
    # malformed stream: must be rejected with ValueError
    yield {"kind": "js", "jobs": [[]], "rule": "spt", "max_iter": 5, "seed": 0, "malformed": True}
    yield {"kind": "js", "jobs": [[[0, -1]]], "rule": "spt", "max_iter": 5, "seed": 0, "malformed": True}
    yield {"kind": "js", "jobs": [[[-1, 1]]], "rule": "spt", "max_iter": 5, "seed": 0, "malformed": True}
    yield {"kind": "js", "jobs": [[[0, 1]]], "rule": "edd", "max_iter": 5, "seed": 0, "malformed": True}


def gen_problem(rng, big):
    n = rng.randint(3, 9)
    fleet = rng.randint(1, 4)
    nmulti = min(n, rng.choice([0, 0, 1, 1, 2, 3]))
    multi = set(rng.sample(range(1, n + 1), nmulti))
    grid = rng.choice([1, 1, 4])  # dyadic coordinates k/grid
    span = rng.choice([6, 12, 30])

    def co():
        return rng.randint(-span * grid, span * grid) / grid if grid > 1 else rng.randint(-span, span)
    tight = rng.random() < 0.3
    depot = [0, 0] if rng.random() < 0.6 else [co(), co()]
    custs = []
    for i in range(1, n + 1):
        x, y = co(), co()
        reach = int(((x - depot[0]) ** 2 + (y - depot[1]) ** 2) ** 0.5) + 1
        tws = rng.choice([0, 0, 0, 5, 10, 20, 2.5])
        if rng.random() < (0.2 if tight else 0.5):
            twe = None
        elif rng.random() < (0.25 if tight else 0.03):
            twe = tws + rng.choice([1, 3, 8])              # often unreachable in time
        else:
            twe = max(tws, reach) + rng.choice([0, 3, 8, 15, 30, 60])
        custs.append([i, x, y, rng.choice([0, 1, 2, 3, 5, 2.5]), tws, twe, rng.choice([0, 0, 1, 2.5]),
                      rng.choice([2, 2, 3]) if i in multi else 1])
    cap = rng.choice([None, None, 4, 8, 15, 30] if tight else [None, None, None, 15, 30])
    if rng.random() < 0.5:
        vehicles = gen_fleet(rng, fleet, sum(c[3] for c in custs))
    else:
        vehicles = fleet
    weights = {}
    if rng.random() < 0.5:
        for key, vals in (("distance_weight", [1.0, 0.5, 2.0]), ("vehicle_weight", [0.0, 10.0, 2.5]),
                          ("tw_penalty", [1000.0, 10.0]), ("capacity_penalty", [1000.0, 5.0]),
                          ("sync_penalty", [10000.0, 100.0])):
            if rng.random() < 0.6:
                weights[key] = rng.choice(vals)
    return {"customers": custs, "as_tuples": rng.random() < 0.3, "vehicles": vehicles, "vehicle_capacity": cap,
            "depot": depot, "weights": weights}


def gen_fleet(rng, fleet, total_demand):
    """Explicit `Vehicle` list `[id, capacity|None, max_duration|None]`.  `Vehicle.id` is a label: the
    code addresses vehicles by list position only, so ids that are a non-identity permutation, lie
    outside 0..n-1, are strings or repeat must behave exactly like positional ids.  Capacities differ
    per vehicle (often one big truck, first or last, that can take nearly everything)."""
    style = rng.choice(["identity", "permuted", "permuted", "offset", "offset", "string", "duplicate"])
    ids = list(range(fleet))
    if style == "permuted" and fleet > 1:
        while ids == list(range(fleet)):
            rng.shuffle(ids)
    elif style == "permuted":
        ids = [1]
    elif style == "offset":
        ids = [10 * (i + 1) for i in range(fleet)]
        rng.shuffle(ids)
    elif style == "string":
        ids = [f"truck-{chr(97 + (fleet - 1 - i))}" for i in range(fleet)]
    elif style == "duplicate":
        ids = [0] * fleet
    big = max(1, int(total_demand) + rng.choice([-2, 0, 1]))
    kind = rng.choice(["big_first", "big_last", "random", "random"])
    caps = [rng.choice([None, 2, 3, 6, 12, 25]) for _ in range(fleet)]
    if kind == "big_first":
        caps = [big] + [rng.choice([1, 2, 3, 5]) for _ in range(fleet - 1)]
    elif kind == "big_last":
        caps = [rng.choice([1, 2, 3, 5]) for _ in range(fleet - 1)] + [big]
    return [[i, c, rng.choice([None, None, 50, 7.5])] for i, c in zip(ids, caps)]


def gen_script(rng, has_multi, length):
    """A sequence of exported operators applied from the empty plan (all customers unassigned)."""
    rep = REPAIR if has_multi else REPAIR[:2]
    des = DESTROY if has_multi else DESTROY[:4]
    out = [{"op": rng.choice(rep if has_multi else rep), "seed": rng.randrange(1000)}]
    for _ in range(length):
        name = rng.choice(des + rep) if rng.random() < 0.3 else (rng.choice(des) if len(out) % 2 else rng.choice(rep))
        out.append(op_call(rng, name))
    return out


def op_call(rng, name):
    c = {"op": name, "seed": rng.randrange(1000)}
    if name in ("random_removal", "worst_removal", "related_removal"):
        c["degree"] = rng.choice([0.1, 0.2, 0.3, 0.5, 1.0])
    elif name == "route_removal":
        c["n_routes"] = rng.choice([1, 1, 2, 3])
    elif name == "regret_insertion":
        c["k"] = rng.choice([1, 2, 3])
    return c


def gen_vrp(rng, big):
    case = {"kind": "vrp", **gen_problem(rng, big)}
    if rng.random() < 0.03:
        # excluded region (ids are not the 1-based positions): the real code is run, the outcome only recorded
        how = rng.choice(["shuffled", "offset", "duplicate"])
        ids = [c[0] for c in case["customers"]]
        if how == "shuffled":
            rng.shuffle(ids)
        elif how == "offset":
            ids = [i + 10 for i in ids]
        else:
            ids[-1] = ids[0]
        for c, i in zip(case["customers"], ids):
            c[0] = i
        case["excluded"] = "ids_" + how
    has_multi = any(c[7] > 1 for c in case["customers"])
    if rng.random() < 0.3:
        case["script"] = gen_script(rng, has_multi, rng.randint(4, 16 if big else 10))
    else:
        case["max_iter"] = rng.choice([8, 15, 25, 40] if big else [8, 15, 25])
        case["max_no_improve"] = rng.choice([5, 20, 500])
        case["seed"] = rng.randrange(1000)
        nd = rng.randint(4, 12)
        case["direct"] = [[rng.random(), op_call(rng, rng.choice((DESTROY if has_multi else DESTROY[:4]) +
                                                                 (REPAIR if has_multi else REPAIR[:2])))]
                          for _ in range(nd)]
    case["probe_seed"] = rng.randrange(1000)
    return case


# ---------------------------------------------------------------------------
# implementation side (runs in worker processes)
# ---------------------------------------------------------------------------

def _entries(sol):
    out = []
    for key, val in sol.items():
        (j, k), (s, e) = key, val
        for x in (j, k, s, e):
            if not isinstance(x, int) or isinstance(x, bool):
                raise TypeError(f"schedule entry {key!r}: {val!r} is not made of ints")
        out.append([j, k, s, e])
    return out


def impl_js(case):
    from solvor import job_shop as J
    jobs = [[tuple(o) for o in j] for j in case["jobs"]]
    snapshot = json.dumps(case["jobs"])
    out = {"scheds": []}
    r0 = J.solve_job_shop(jobs, rule=case["rule"], local_search=False, seed=case["seed"])
    out["scheds"].append(["dispatch", _entries(r0.solution), r0.objective])
    try:
        r1 = J.solve_job_shop(jobs, rule=case["rule"], local_search=True, max_iter=case["max_iter"], seed=case["seed"])
    except Exception as e:  # noqa: BLE001
        out["ls_error"] = f"{type(e).__name__}: {e}"
        return out
    out["scheds"].append(["final", _entries(r1.solution), r1.objective])
    out["status"] = [r0.status.name, r1.status.name]
    # _try_swap / _rebuild_schedule on every adjacent pair of every machine of the final schedule
    sched = r1.solution
    machines = sorted({m for job in jobs for m, _ in job})
    nsw = 0
    for m in machines:
        ops = [(j, k) for j, job in enumerate(jobs) for k, (mm, _) in enumerate(job) if mm == m]
        ops.sort(key=lambda x: sched[x][0])
        for i in range(len(ops) - 1):
            if nsw >= 16:
                break
            new = J._try_swap(jobs, sched, ops[i][0], ops[i][1], ops[i + 1][0], ops[i + 1][1])
            if new is not None:
                nsw += 1
                out["scheds"].append(["swap", _entries(new), J._compute_makespan(jobs, new)])
    out["unchanged"] = json.dumps([[list(o) for o in j] for j in jobs]) == snapshot
    return out


def _build(case):
    import solvor.vrp as V
    custs = []
    for c in case["customers"]:
        twe = float("inf") if c[5] is None else c[5]
        if case.get("as_tuples"):
            custs.append((c[0], c[1], c[2], c[3], c[4], twe, c[6], c[7]))
        else:
            custs.append(V.Customer(c[0], c[1], c[2], c[3], c[4], twe, c[6], c[7]))
    veh = case["vehicles"]
    if not isinstance(veh, int):
        veh = [V.Vehicle(v[0], float("inf") if v[1] is None else v[1],
                         float("inf") if len(v) < 3 or v[2] is None else v[2]) for v in veh]
    kw = {}
    if case.get("vehicle_capacity") is not None:
        kw["vehicle_capacity"] = case["vehicle_capacity"]
    return custs, veh, kw


def impl_vrp(case):
    import random

    import solvor.vrp as V
    W = dict(case.get("weights") or {})
    steps = []     # [name, kind, pre, post]
    depth = [0]

    def snap(st):
        for r in st.routes:
            for c in r:
                if not isinstance(c, int) or isinstance(c, bool) or c < 0:
                    raise TypeError(f"route entry {c!r}")
        return [[list(r) for r in st.routes], sorted(st.unassigned), [list(a) for a in st.arrival_times],
                V.vrp_objective(st, **W)]

    orig = {name: getattr(V, name) for name in DESTROY + REPAIR}

    def wrap(name):
        fn = orig[name]
        kind = 0 if name in DESTROY else 1

        def w(state, rng, *a, **k):
            if depth[0] > 0:
                return fn(state, rng, *a, **k)
            depth[0] += 1
            try:
                pre = snap(state)
                out = fn(state, rng, *a, **k)
            finally:
                depth[0] -= 1
            steps.append([name, kind, pre, snap(out)])
            return out
        return w

    def call(state, c):
        fn = getattr(V, c["op"])
        kw = {k: c[k] for k in ("degree", "n_routes", "k") if k in c}
        return fn(state, random.Random(c["seed"]), **kw)

    custs, veh, kw = _build(case)
    out = {}
    try:
        for name in orig:
            setattr(V, name, wrap(name))
        if "script" in case:
            cl = [V.Customer(0, case["depot"][0], case["depot"][1])]
            for c in custs:
                cl.append(c if isinstance(c, V.Customer) else V.Customer(*c))
            vl = [V.Vehicle(i, kw.get("vehicle_capacity", float("inf"))) for i in range(veh)] if isinstance(veh, int) \
                else list(veh)
            st = V.VRPState.from_problem(cl, vl)
            first = st
            for c in case["script"]:
                st = call(st, c)
            out["final"] = snap(st)
            out["final_obj"] = out["final"][3]
            out["dist"] = first._dist
        else:
            res = V.solve_vrptw(custs, veh, tuple(case["depot"]), max_iter=case["max_iter"],
                                max_no_improve=case["max_no_improve"], seed=case["seed"], **kw,
                                **{k: v for k, v in W.items() if k != "unassigned_penalty"})
            st = res.solution
            out["final"] = snap(st)
            out["final_obj"] = res.objective
            out["status"] = res.status.name
            out["dist"] = st._dist
            # direct calls of the exported operators on states the search went through
            n_solver = len(steps)
            out["n_solver_steps"] = n_solver
            partial = [s[3] for s in steps if s[1] == 0] or [s[2] for s in steps]
            complete = [s[3] for s in steps if s[1] == 1]
            for frac, c in case.get("direct", []):
                pool = partial if c["op"] in REPAIR else complete
                if not pool:
                    continue
                pre = pool[int(frac * len(pool)) % len(pool)]
                base = V.VRPState.from_problem(st.customers, st.vehicles)
                base.routes = [list(r) for r in pre[0]]
                base.unassigned = set(pre[1])
                base.arrival_times = [list(a) for a in pre[2]]
                call(base, c)
        # objective probes: `vrp_objective` / `update_arrival_times` on crammed (overloaded, late) plans built
        # from states the run went through -- reachable states never overload a vehicle, so the capacity
        # and lateness terms of the weighted sum would otherwise always be evaluated at 0
        prng = random.Random(case.get("probe_seed", 0))
        srcs = [s[3] for s in steps][-40:] + [out["final"]]
        probes = []
        for _ in range(case.get("probes", 3)):
            src = prng.choice(srcs)
            allc = list(dict.fromkeys(c for r in src[0] for c in r))
            k = len(src[0])
            if not allc or not k:
                continue
            prng.shuffle(allc)
            v = prng.randrange(k)
            cut = prng.randint(0, len(allc)) if k > 1 and prng.random() < 0.5 else len(allc)
            routes = [[] for _ in range(k)]
            routes[v] = allc[:cut]
            if cut < len(allc):
                routes[(v + 1 + prng.randrange(k - 1)) % k] = allc[cut:]
            base = V.VRPState.from_problem(st.customers, st.vehicles)
            base.routes = routes
            base.unassigned = set(src[1])
            base.update_arrival_times()
            probes.append(snap(base))
        out["probes"] = probes
    finally:
        for name, fn in orig.items():
            setattr(V, name, fn)
    out["steps"] = steps
    return out


def impl(case):
    return impl_js(case) if case["kind"] == "js" else impl_vrp(case)


# ---------------------------------------------------------------------------
# requests
# ---------------------------------------------------------------------------

def ls_draws(case, out):
    """The machines `rng.randrange(n_machines)` yields in the local search of this call, recomputed
    from the seed (support only: feeds the R_trace mirror).  For rule `random` the `rng.choice(ready)`
    calls of `_dispatch` are replayed first; `None` if that does not reproduce the dispatch order."""
    import random
    jobs = case["jobs"]
    if not jobs or len(out["scheds"]) < 2 or out["scheds"][1][0] != "final":
        return None
    rng = random.Random(case["seed"])
    if case["rule"].lower() == "random":
        nxt = [0] * len(jobs)
        for j, _k, _s, _e in out["scheds"][0][1]:
            ready = [jj for jj in range(len(jobs)) if nxt[jj] < len(jobs[jj])]
            if not ready or rng.choice(ready) != j:
                return None
            nxt[j] += 1
    nm = max(m for job in jobs for m, _ in job) + 1
    return [rng.randrange(nm) for _ in range(case["max_iter"])]


def js_request(case, out):
    rule = case["rule"].lower()
    return ["js", case["jobs"], RULES.index(rule) if rule in RULES else -1,
            [[s[1], rat(s[2])] for s in out["scheds"]], ls_draws(case, out)]


def vrp_request(case, out):
    cs = case["customers"]
    n = len(cs)
    table, states = {}, []

    def sid(s):
        key = json.dumps(s)
        if key not in table:
            table[key] = len(states)
            states.append([s[0], s[1], [[rat(x) for x in a] for a in s[2]], rat(s[3])])
        return table[key]
    steps = [[st[1], sid(st[2]), sid(st[3])] for st in out["steps"]]
    fin = out["final"]
    final_id = sid([fin[0], fin[1], fin[2], out["final_obj"]])
    ids = [(st[1], st[2]) for st in steps]
    probe_ids = [sid(pr) for pr in out.get("probes", [])]
    veh = case["vehicles"]
    if isinstance(veh, int):
        caps = [None if case.get("vehicle_capacity") is None else rat(case["vehicle_capacity"])] * veh
    else:
        caps = [None if v[1] is None else rat(v[1]) for v in veh]
    W = case.get("weights") or {}
    req = ["vrp", n, [1] + [c[7] for c in cs], [[rat(x) for x in row] for row in out["dist"]],
           [rat(0)] + [rat(c[3]) for c in cs], [rat(0)] + [rat(c[4]) for c in cs],
           [None] + [None if c[5] is None else rat(c[5]) for c in cs], [rat(0)] + [rat(c[6]) for c in cs],
           caps, [rat(W[k]) if k in W else None for k in WKEYS], TOL, REL,
           [[rat(case["depot"][0]), rat(case["depot"][1])]] + [[rat(c[1]), rat(c[2])] for c in cs], states, steps]
    return req, (ids, probe_ids), final_id


# ---------------------------------------------------------------------------
# judgement
# ---------------------------------------------------------------------------
JS_CLAUSES = ["op_twice", "op_unknown", "op_missing", "end_minus_start_ne_duration", "job_order", "machine_overlap",
              "objective_ne_latest_end"]
INV_CLAUSES = ["id_out_of_range", "unassigned_dup", "customer_lost", "unassigned_and_on_route", "twice_on_route",
               "single_on_two_routes"]


def judge_js(ctx, case, o, reply):
    fn = "solve_job_shop"
    rep = {"case": case, "impl": o, "model": reply}
    if case.get("malformed"):
        ctx.count("js:malformed:" + err_kind(o))
        ctx.case(["js", case], False)
        return
    if o[0] != "ok":
        ctx.fail(fn, "raises:" + err_kind(o), f"valid input raised/timed out: {o[1]}", rep)
        ctx.case(["js", case], False)
        return
    out = o[1]
    ctx.count("js:rule:" + case["rule"].lower())
    ctx.count(f"js:max_iter:{case['max_iter']}")
    if "ls_error" in out:
        kind = out["ls_error"].split(":")[0]
        ctx.fail(fn, f"raises:{kind}:max_iter={'0' if case['max_iter'] == 0 else 'pos'}",
                 f"valid input raised with local_search=True: {out['ls_error']}", rep)
    elif not out.get("unchanged", True):
        ctx.fail(fn, "input_modified", "the jobs argument was modified", rep)
    rule_sched, verdicts, ls = reply
    for (tag, entries, obj), v in zip(out["scheds"], verdicts):
        if isinstance(v, str):
            raise core.Infra(f"model rejected schedule: {v}")
        clauses, refine, mk = v
        f = fn if tag != "swap" else "_try_swap"
        bad = [nm for nm, ok in zip(JS_CLAUSES, clauses) if not ok]
        if bad:
            ctx.fail(f, "invalid_schedule:" + bad[0],
                     f"{tag} schedule rejected by the verified checker chkSchedule: {bad}; latest end {mk}, "
                     f"reported objective {obj}", {**rep, "schedule": entries, "objective": obj})
        elif not refine:
            ctx.tdiv(f, {"case": case, "what": f"{tag} schedule is valid but is not the abstract dispatch "
                                               "machine's schedule for its own pick order", "schedule": entries})
        ctx.count("js:sched:" + tag)
        ctx.count("checked:schedules(chkSchedule)")
        if refine:
            ctx.count("r_trace:schedule_is_dispatch_of_own_order")
    if rule_sched is not None and out["scheds"]:
        if out["scheds"][0][1] != rule_sched:
            ctx.tdiv(fn, {"case": case, "what": "dispatch-only schedule differs from the rule mirror",
                          "impl": out["scheds"][0][1], "mirror": rule_sched})
        else:
            ctx.count("r_trace:rule_mirror_equal")
    if ls is not None:
        fin = out["scheds"][1]
        if sorted(ls[0]) != sorted(fin[1]) or ls[1] != fin[2]:
            ctx.tdiv(fn, {"case": case, "what": "schedule/objective after local search differ from the mirror "
                                               "localSearch run on the same drawn machines",
                          "impl": [fin[1], fin[2]], "mirror": ls})
        else:
            ctx.count("r_trace:local_search_mirror_equal")
    elif len(out["scheds"]) > 1 and out["scheds"][1][0] == "final" and case["jobs"]:
        ctx.count("js:ls_mirror_skipped")
    improved = len(out["scheds"]) > 1 and out["scheds"][1][0] == "final" and out["scheds"][1][2] < out["scheds"][0][2]
    ctx.count("js:improved" if improved else "js:not_improved")
    ctx.case(["js", case], improved, {"case": case, "dispatch_obj": out["scheds"][0][2],
                                     "final_obj": out["scheds"][1][2] if len(out["scheds"]) > 1 else None,
                                     "schedules_checked": len(out["scheds"])})


def judge_vrp(ctx, case, o, reply, ids, final_id):
    top = "solve_vrptw" if "script" not in case else "operator_script"
    rep = {"case": case}
    if case.get("excluded"):
        ctx.count(f"excluded_region:{case['excluded']}:{err_kind(o)}")
        ctx.cov["excluded_region_hits"] = ctx.cov.get("excluded_region_hits", 0) + 1
        return
    if o[0] != "ok":
        ctx.fail(top, "raises:" + err_kind(o), f"valid input raised/timed out: {o[1]}", {**rep, "impl": o})
        ctx.case(["vrp", case], False)
        return
    out = o[1]
    sv, tv, euclid = reply
    if not euclid:
        ctx.fail("VRPState.from_problem", "distance_not_euclidean", "cached distance matrix is not the Euclidean "
                 "distance of the coordinates (non-negative, symmetric, d^2 = dx^2 + dy^2 within 1e-12 relative)",
                 {**rep, "dist": out["dist"]})
    multi = {c[0] for c in case["customers"] if c[7] > 1}
    ctx.count("vrp:script" if "script" in case else "vrp:solve")
    ctx.count(f"vrp:n={len(case['customers'])}")
    ctx.count(f"vrp:multi={len(multi)}")
    veh = case["vehicles"]
    if isinstance(veh, int):
        ctx.count("vrp:fleet:int")
    else:
        vids = [v[0] for v in veh]
        ctx.count("vrp:fleet:list:" + ("ids_positional" if vids == list(range(len(vids))) else
                                        "ids_string" if any(isinstance(i, str) for i in vids) else
                                        "ids_permuted" if sorted(vids) == list(range(len(vids))) else
                                        "ids_duplicate" if len(set(vids)) < len(vids) else "ids_out_of_range"))
        if len({json.dumps(v[1]) for v in veh}) > 1:
            ctx.count("vrp:fleet:heterogeneous_capacity")
    seen = set()

    def once(f, klass, what, extra):
        if (f, klass) not in seen:
            seen.add((f, klass))
            ctx.fail(f, klass, what, {**rep, **extra})

    def state_ok(f, idx, st, where):
        inv, arr_ok, obj_ok, exact = sv[idx]
        bad = [nm for nm, ok in zip(INV_CLAUSES, inv) if not ok]
        ok = True
        if bad:
            ok = False
            once(f, "breaks_inv:" + bad[0], f"{where}: state violates the bookkeeping invariant ({bad}); "
                 f"routes={st[0]} unassigned={st[1]}", {"state": st, "failed_clauses": bad})
        if not arr_ok:
            ok = False
            once(f, "stale_arrival_times", f"{where}: cached arrival_times differ from the exact recomputation "
                 f"by more than 1e-6; routes={st[0]} arrival_times={st[2]}", {"state": st})
        if not obj_ok:
            ok = False
            once("vrp_objective" if where != "final" else f, "objective_mismatch",
                 f"{where}: objective {st[3]!r} differs from the documented weighted sum "
                 f"{float(core.unrat(exact))!r} of this state by more than 1e-6", {"state": st, "exact": exact})
        return ok

    removed = inserted = 0
    reqs_steps = out["steps"]
    ids, probe_ids = ids
    for pi, pr in zip(probe_ids, out.get("probes", [])):
        _inv, arr_ok, obj_ok, exact = sv[pi]
        ctx.count("vrp:objective_probe")
        if core.unrat(exact) >= 1000:
            ctx.count("vrp:objective_probe_with_penalty")
        if not arr_ok:
            once("VRPState.update_arrival_times", "stale_arrival_times", "probe plan: arrival_times after "
                 f"update_arrival_times() differ from the exact recomputation; routes={pr[0]} arrival_times={pr[2]}",
                 {"state": pr})
        if not obj_ok:
            once("vrp_objective", "objective_mismatch", f"probe plan routes={pr[0]} unassigned={pr[1]}: objective "
                 f"{pr[3]!r} differs from the documented weighted sum {float(core.unrat(exact))!r} by more than 1e-6",
                 {"state": pr, "exact": exact})
    for i, (st, (pi, qi), ref) in enumerate(zip(reqs_steps, ids, tv)):
        name, kind, pre, post = st
        if isinstance(ref, str):
            raise core.Infra(f"model rejected step: {ref}")
        ctx.count("vrp:op:" + name)
        if not all(sv[pi][0]):
            ctx.count("vrp:step_skipped_pre_not_inv")  # blamed on the step that produced `pre`
            continue
        if not ref:
            if kind == 0:
                left = sorted(c for c in post[1] if any(c in r for r in post[0]))
                klass = "not_a_remove_step" + (":multi_vehicle_customer_left_on_route" if set(left) & multi else "")
            else:
                gone = sorted(c for c in pre[1] if c not in post[1] and not any(c in r for r in post[0]))
                klass = "not_an_insert_run" + (":multi_vehicle_customer_dropped" if set(gone) & multi else "")
            once(name, klass, f"(pre, post) is not an abstract {'remove' if kind == 0 else 'insert'} transition: "
                 f"pre routes={pre[0]} unassigned={pre[1]} -> post routes={post[0]} unassigned={post[1]}",
                 {"operator": name, "pre": pre, "post": post})
        state_ok(name, qi, post, f"after {name}")
        if kind == 0 and len(post[1]) > len(pre[1]):
            removed += 1
        if kind == 1 and len(post[1]) < len(pre[1]):
            inserted += 1
    fin = out["final"]
    state_ok(top, final_id, [fin[0], fin[1], fin[2], out["final_obj"]], "final")
    if fin[1]:
        ctx.count("vrp:final_has_unassigned")
    ctx.count("vrp:steps", len(reqs_steps))
    ctx.count("checked:vrp_steps(isRemove/isInsertRun)", len(reqs_steps))
    ctx.count("checked:vrp_states(chkInv,chkArrivals,chkObjective)", len(sv))
    ctx.case(["vrp", case], removed >= 1 and inserted >= 1,
             {"case": case, "steps": len(reqs_steps), "final_routes": fin[0], "final_unassigned": fin[1],
              "objective": out["final_obj"], "exact_objective": sv[final_id][3]})


def eval_cases(cases):
    """Run implementation and model on `cases`; returns one (case, outcome, reply, ids, final_id) each."""
    outs = run_pool(impl, cases, timeout=60.0)
    reqs, meta = [], []
    for c, o in zip(cases, outs):
        if o[0] != "ok" or c.get("malformed") or c.get("excluded"):
            meta.append(None)
            continue
        if c["kind"] == "js":
            reqs.append(js_request(c, o[1]))
            meta.append((len(reqs) - 1, None, None))
        else:
            r, ids, fid = vrp_request(c, o[1])
            reqs.append(r)
            meta.append((len(reqs) - 1, ids, fid))
    replies = Driver("Sched").run(reqs, chunks=16)
    res = []
    for c, o, m in zip(cases, outs, meta):
        rp = replies[m[0]] if m else None
        if rp and rp[0] == "error":
            raise core.Infra(f"model rejected request: {rp}")
        res.append((c, o, rp, m[1] if m else None, m[2] if m else None))
    return res


def judge(ctx, c, o, rp, ids, fid):
    if c["kind"] == "js":
        judge_js(ctx, c, o, rp)
    else:
        judge_vrp(ctx, c, o, rp, ids, fid)


class _Buffer:
    """ctx stand-in: buffers `fail`s of the case being judged, forwards the bookkeeping calls (or drops
    them when `ctx` is None, i.e. while shrinking)."""

    def __init__(self, ctx):
        self.ctx = ctx
        self.fails = []
        self.cov = ctx.cov if ctx is not None else {}

    def fail(self, function, klass, what, replay, no_input=False):
        self.fails.append((function, klass, what, replay))

    def tdiv(self, *a):
        if self.ctx is not None:
            self.ctx.tdiv(*a)

    def count(self, *a):
        if self.ctx is not None:
            self.ctx.count(*a)

    def case(self, *a):
        if self.ctx is not None:
            self.ctx.case(*a)


# ---------------------------------------------------------------------------
# shrinking: drop jobs / operations / customers / vehicles / script steps while the same class fails
# ---------------------------------------------------------------------------

def _drop_customer(case, i):
    """Remove the customer at position i (0-based); ids stay the 1-based positions."""
    c = json.loads(json.dumps(case))
    del c["customers"][i]
    for pos, cu in enumerate(c["customers"]):
        cu[0] = pos + 1
    return c


def reductions(case):
    """One-step reductions of a case, most drastic first."""
    out = []

    def cp():
        return json.loads(json.dumps(case))
    if case["kind"] == "js":
        jobs = case["jobs"]
        for j in range(len(jobs)):
            if len(jobs) > 1:
                c = cp()
                del c["jobs"][j]
                out.append((f"drop job {j}", c))
        for j in range(len(jobs)):
            for k in reversed(range(len(jobs[j]))):
                if len(jobs[j]) > 1:
                    c = cp()
                    del c["jobs"][j][k]
                    out.append((f"drop op {j}.{k}", c))
        if case["max_iter"] > 1:
            c = cp()
            c["max_iter"] = case["max_iter"] // 2
            out.append(("halve max_iter", c))
        for j in range(len(jobs)):
            for k in range(len(jobs[j])):
                if jobs[j][k][1] > 1:
                    c = cp()
                    c["jobs"][j][k][1] = 1
                    out.append((f"duration {j}.{k} -> 1", c))
        return out
    if "script" in case:
        for t in reversed(range(len(case["script"]))):
            if len(case["script"]) > 1:
                c = cp()
                del c["script"][t]
                out.append((f"drop script step {t}", c))
    else:
        if case.get("direct"):
            c = cp()
            c["direct"] = []
            out.append(("drop direct calls", c))
        if case["max_iter"] > 1:
            c = cp()
            c["max_iter"] = case["max_iter"] // 2
            out.append(("halve max_iter", c))
    for i in reversed(range(len(case["customers"]))):
        if len(case["customers"]) > 1:
            out.append((f"drop customer {i + 1}", _drop_customer(case, i)))
    veh = case["vehicles"]
    if isinstance(veh, int) and veh > 1:
        c = cp()
        c["vehicles"] = veh - 1
        out.append(("drop a vehicle", c))
    elif not isinstance(veh, int):
        for v in reversed(range(len(veh))):
            if len(veh) > 1:
                c = cp()
                del c["vehicles"][v]
                out.append((f"drop vehicle at position {v}", c))
    if case.get("weights"):
        c = cp()
        c["weights"] = {}
        out.append(("default weights", c))
    if case.get("probes", 3) > 0:
        c = cp()
        c["probes"] = 0
        out.append(("no objective probes", c))
    for i, cu in enumerate(case["customers"]):
        if cu[7] > 1:
            c = cp()
            c["customers"][i][7] = 1
            out.append((f"customer {i + 1} single-vehicle", c))
    return out


def fails_of(res):
    b = _Buffer(None)
    judge(b, *res)
    return b.fails


def shrink(case, function, klass, max_rounds=40):
    """Greedy structural shrinking; a candidate is kept only if the *same* (function, class) still fails."""
    history = []
    for _ in range(max_rounds):
        cands = reductions(case)[:60]
        if not cands:
            break
        hit = None
        for (label, cand), res in zip(cands, eval_cases([c for _, c in cands])):
            if any(f == function and k == klass for f, k, _, _ in fails_of(res)):
                hit = (label, cand)
                break
        if hit is None:
            break
        history.append(hit[0])
        case = hit[1]
    return case, history


def run_cases(ctx, cases, do_shrink=True):
    pending = []
    for res in eval_cases(cases):
        b = _Buffer(ctx)
        judge(b, *res)
        pending += [(res[0], f) for f in b.fails]
    reported = ctx.__dict__.setdefault("_c18_reported", set())
    for case, (function, klass, what, rep) in pending:
        if ctx.known_match(function, klass) is not None:
            ctx.fail(function, klass, what, rep)
            continue
        if (function, klass) in reported:  # one (minimised) replay per failure class and run
            ctx.count(f"further_failures_same_class:{function}:{klass}")
            continue
        reported.add((function, klass))
        if do_shrink and len(ctx.violations) < 5 and not case.get("malformed"):
            small, hist = shrink(case, function, klass)
            if hist:
                again = [f for f in fails_of(eval_cases([small])[0]) if f[0] == function and f[1] == klass]
                if again:  # report the minimised input, with both outputs recomputed on it
                    _, _, what, rep = again[0]
                    rep = {**rep, "shrunk_from": case, "shrink_history": hist}
        ctx.fail(function, klass, what, rep)


def run(ctx, budget):
    ctx.cov["rule"] = RULE
    big = ctx.tier == "thorough"
    cases = list(js_edges()) + [c["case"] for c in core.load_corpus("C18")]
    js = [gen_js(ctx.rng, big and i % 3 == 0) for i in range(3000 * budget)]
    vrp = [gen_vrp(ctx.rng, big and i % 3 == 0) for i in range(2000 * budget)]
    for i in range(1000 * budget):  # interleaved 3:2 so that every batch (and the samples) holds both kinds
        cases += js[3 * i:3 * i + 3] + vrp[2 * i:2 * i + 2]
    for i in range(0, len(cases), 2500):  # bounded memory: one batch of requests/replies at a time
        run_cases(ctx, cases[i:i + 2500])
    h = ctx.cov["histogram"]
    ctx.cov["cert_checked_impl"] = sum(v for k, v in h.items() if k.startswith("checked:"))
    ctx.cov["r_trace_agree"] = sum(v for k, v in h.items() if k.startswith("r_trace:"))
    ctx.cov["r_trace_diverge"] = sum(v for k, v in h.items() if k.startswith("r_trace_divergence:"))


def replay(ctx, body):
    ctx.cov["rule"] = RULE
    run_cases(ctx, [body["case"]], do_shrink=False)
