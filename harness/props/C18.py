"""C18 — job-shop schedules and VRPTW bookkeeping (solvor/job_shop.py, vrp.py, lns.py) against the
proved dispatch machine and VRP bookkeeping skeleton (Solvor/Sched).

Job shop: every schedule the implementation hands out (dispatch only, after local search, and the
result of `_try_swap`/`_rebuild_schedule` on every adjacent pair of the final schedule) is judged by
the verified checker `chkSchedule` (valid + objective = latest end) and, as R_trace, must be exactly
the abstract machine's schedule for the pick order read off its own dict insertion order
(`isDispatchOf`); for the four deterministic rules the dispatch-only schedule must equal the mirror
`dispatchRule`.

VRP: `solve_vrptw` is replayed with recording wrappers around the exported operators (module
attributes of solvor.vrp are swapped for the duration of the call, nothing in /repo is edited), the
exported operators are additionally called directly on recorded states, and scripted operator
sequences are run from the empty plan.  Every (pre, post) pair must be an abstract transition of
its kind (`isRemove` / `isInsertRun`), every state must satisfy `Inv` (`chkInv`), its cached
arrival times must agree with the exact recomputation and `vrp_objective` with the exact formula
(both within 1e-6, exact rational arithmetic in Lean).
"""
from __future__ import annotations

import json

import core
from core import Driver, rat
from pool import err_kind, run_pool

AREAS = ["Sched"]
LEVEL = "proof"
ASSUMPTIONS = [
    "job shop: which ready job is picked (rule, seed, rebuild priorities) is a parameter of the model; "
    "tied by R_trace: each returned schedule equals the abstract machine's for its own pick order, and "
    "equals the rule mirror for fifo/spt/lpt/mwkr",
    "VRP: RNG, float distances (`hypot`) and the insertion-cost heuristics appear only as the payload of "
    "abstract transitions; the cached distance matrix is taken from the implementation as exact rationals",
    "VRP: float arrival times / objective are compared with the exact rational recomputation within 1e-6 absolute "
    "(objective: plus 1e-12 relative to the exact value, which only matters above 1e6); the recomputation starts "
    "from the implementation's own cached distance matrix taken as exact rationals, so `hypot` rounding never "
    "enters it -- the only place a `hypot` tolerance is used is chkEuclid (d^2 vs dx^2+dy^2, relative 1e-12); a "
    "penalty term weight*eps is therefore visible as soon as it exceeds 1e-6 (numeric-edge family: eps from 2^-30 "
    "to 1e-5 with weights 1e3..1e6, and exact zeros)",
    "VRP: Vehicle.max_duration is never read by the code and has no term in vrp_objective (no duration excess)",
    "VRP: Vehicle.id is a label (the code never reads it); every per-vehicle quantity of the model (capacity) is "
    "addressed by list position, so ids different from positions must not change any observable",
    "excluded region: customer ids are their 1-based position (the documented usage; VRPState indexes "
    "customers by id), required_vehicles >= 1, solve_vrptw max_iter >= 1 (max_iter = 0 is C19's lns.py case)",
]
RULE = ("job shop: 1-6 jobs of 1-6 ops over 1-4 machine labels with gaps, repeated machines, zero durations, "
        "all rules, local-search lengths 0-150, seeds; jobs presented as lists / tuples / mixed, equal jobs and "
        "operations as one aliased object, 0/1 durations as bool; non-trivial = the local search accepted >= 1 "
        "swap (final objective < dispatch objective).  VRP: 3-9 customers, time windows, demands, 0-3 "
        "multi-vehicle customers, customers as Customer objects / tuples / both / tuples cut after the last "
        "non-default field, fleets 1-4 given as a count or (half of the cases) as explicit Vehicle lists "
        "whose ids are positional / a non-identity permutation / outside 0..n-1 / strings / repeated, with "
        "heterogeneous capacities (big truck first or last) and max_duration values, weights, seeds, objective "
        "probes (vrp_objective on crammed, overloaded and late plans built from visited states), short ALNS runs "
        "replayed with recording wrappers + direct operator calls on the recorded state *objects* + scripted "
        "operator sequences; every state object handed out is read again after all later calls; non-trivial "
        "= >= 1 destroy step that removed and >= 1 repair step that inserted a customer.  Histories (fixed "
        "share): 2-4 consecutive calls in one process on related inputs (same twice, narrow->wide, wide->narrow, "
        "same shape with changed content -- for job shop optionally in the very same list objects --, other "
        "options, job shop and VRP interleaved, shared Customer/Vehicle/vehicle-list objects), each judged on "
        "its own input; a failure that passes alone in a fresh process is classed :after_previous_call.  A few "
        "large instances per run (10-18 jobs x 5-10 ops with few distinct durations; 18-28 customers, 4-8 vehicles)")
TOL = [1, 10 ** 6]    # absolute: arrival times, objective
REL = [1, 10 ** 12]  # relative slack: objective (large penalty sums), squared distances

DESTROY = ["random_removal", "worst_removal", "related_removal", "route_removal", "sync_removal"]
REPAIR = ["greedy_insertion", "regret_insertion", "sync_aware_insertion"]
RULES = ["fifo", "spt", "lpt", "mwkr"]
WKEYS = ["distance_weight", "vehicle_weight", "tw_penalty", "capacity_penalty", "sync_penalty", "unassigned_penalty"]

# ---------------------------------------------------------------------------
# generators
# ---------------------------------------------------------------------------


def gen_js(rng, big, large=False):
    nj = rng.choice([1, 2, 3, 3, 4, 4, 5, 6 if big else 5])
    k = rng.randint(1, 4)
    durs = rng.choice([[0, 1, 2, 3, 5, 8], [0, 0, 1, 1, 2], [1, 2, 3, 4, 5, 6, 7, 9, 13], [0], [3, 3, 4]])
    maxops = 6 if big else 4
    if large:  # a few times larger than usual, few distinct durations (many ties), chains on one machine
        nj, k, maxops = rng.randint(10, 18), rng.choice([1, 2, 5]), rng.randint(6, 10)
        durs = rng.choice([[1], [0, 1], [2, 2, 3], [0, 1, 2, 3, 5, 8]])
    labels = sorted(rng.sample(range(0, 9), k))
    jobs = []
    for _ in range(nj):
        nops = rng.randint(maxops - 1 if large else 1, maxops)
        jobs.append([[rng.choice(labels), rng.choice(durs)] for _ in range(nops)])
    if nj >= 2 and rng.random() < 0.3:  # equal jobs (so that aliasing below has something to alias)
        jobs[rng.randrange(nj)] = [list(o) for o in jobs[rng.randrange(nj)]]
    rule = rng.choice(["spt", "lpt", "mwkr", "fifo", "random", "random", "SPT", "Lpt", "MWKR", "FIFO"])
    case = {"kind": "js", "jobs": jobs, "rule": rule,
            "max_iter": rng.choice([1, 3, 6] if large else [0, 1, 5, 20, 60, 60, 150, 150]), "seed": rng.randrange(1000)}
    if large:
        case["large"] = True
    if rng.random() < 0.55:
        # presentation: Sequence[Sequence[tuple[int, int]]] -- lists / tuples / mixed, one object standing at
        # several positions for equal jobs and equal operations, 0/1 durations as bool
        case["style"] = {"outer": rng.choice(["list", "tuple"]), "inner": rng.choice(["list", "tuple", "mixed"]),
                         "alias": rng.random() < 0.5, "bool_dur": rng.random() < 0.15}
    return case


def js_edges():
    yield {"kind": "js", "jobs": [], "rule": "spt", "max_iter": 5, "seed": 0}
    yield {"kind": "js", "jobs": [[[0, 0]]], "rule": "fifo", "max_iter": 5, "seed": 0}
    yield {"kind": "js", "jobs": [[[0, 3], [1, 2], [2, 2]], [[0, 2], [2, 1], [1, 4]]], "rule": "spt", "max_iter": 50,
           "seed": 1}
    yield {"kind": "js", "jobs": [[[7, 2], [7, 0], [7, 3]], [[7, 1]], [[3, 0], [7, 0]]], "rule": "lpt", "max_iter": 50,
           "seed": 2}
    # malformed stream: must be rejected with ValueError
    yield {"kind": "js", "jobs": [[]], "rule": "spt", "max_iter": 5, "seed": 0, "malformed": True}
    yield {"kind": "js", "jobs": [[[0, -1]]], "rule": "spt", "max_iter": 5, "seed": 0, "malformed": True}
    yield {"kind": "js", "jobs": [[[-1, 1]]], "rule": "spt", "max_iter": 5, "seed": 0, "malformed": True}
    yield {"kind": "js", "jobs": [[[0, 1]]], "rule": "edd", "max_iter": 5, "seed": 0, "malformed": True}


def gen_problem(rng, big, large=False):
    n = rng.randint(18, 28) if large else rng.randint(3, 9)
    fleet = rng.randint(4, 8) if large else rng.randint(1, 4)
    nmulti = min(n, rng.choice([0, 0, 1, 1, 2, 3]))
    multi = set(rng.sample(range(1, n + 1), nmulti))
    grid = rng.choice([1, 1, 4])  # dyadic coordinates k/grid
    span = rng.choice([6, 12, 30])

    def co():
        return rng.randint(-span * grid, span * grid) / grid if grid > 1 else rng.randint(-span, span)
    tight = rng.random() < 0.3
    depot = [0, 0] if rng.random() < 0.6 else [co(), co()]
    custs = []
    for i in range(1, n + 1):
        x, y = co(), co()
        reach = int(((x - depot[0]) ** 2 + (y - depot[1]) ** 2) ** 0.5) + 1
        tws = rng.choice([0, 0, 0, 5, 10, 20, 2.5])
        if rng.random() < (0.2 if tight else 0.5):
            twe = None
        elif rng.random() < (0.25 if tight else 0.03):
            twe = tws + rng.choice([1, 3, 8])              # often unreachable in time
        else:
            twe = max(tws, reach) + rng.choice([0, 3, 8, 15, 30, 60])
        if rng.random() < 0.07:
            # boundary value: a window that closes at exactly 0 (falsy, but a real deadline: every positive arrival is
            # late); int 0 and float 0.0, sometimes for a customer standing on the depot
            tws, twe = 0, rng.choice([0, 0.0])
            if rng.random() < 0.4:
                x, y = depot[0], depot[1]
        custs.append([i, x, y, rng.choice([0, 1, 2, 3, 5, 2.5]), tws, twe, rng.choice([0, 0, 1, 2.5]),
                      rng.choice([2, 2, 3]) if i in multi else 1])
    cap = rng.choice([None, None, 4, 8, 15, 30] if tight else [None, None, None, 15, 30])
    if rng.random() < 0.5:
        vehicles = gen_fleet(rng, fleet, sum(c[3] for c in custs))
    else:
        vehicles = fleet
    weights = {}
    if rng.random() < 0.5:
        for key, vals in (("distance_weight", [1.0, 0.5, 2.0]), ("vehicle_weight", [0.0, 10.0, 2.5]),
                          ("tw_penalty", [1000.0, 10.0]), ("capacity_penalty", [1000.0, 5.0]),
                          ("sync_penalty", [10000.0, 100.0])):
            if rng.random() < 0.6:
                weights[key] = rng.choice(vals)
    return {"customers": custs, "as_tuples": rng.random() < 0.25, "vehicles": vehicles, "vehicle_capacity": cap,
            "depot": depot, "weights": weights}


def gen_fleet(rng, fleet, total_demand):
    """Explicit `Vehicle` list `[id, capacity|None, max_duration|None]`.  `Vehicle.id` is a label: the
    code addresses vehicles by list position only, so ids that are a non-identity permutation, lie
    outside 0..n-1, are strings or repeat must behave exactly like positional ids.  Capacities differ
    per vehicle (often one big truck, first or last, that can take nearly everything)."""
    style = rng.choice(["identity", "permuted", "permuted", "offset", "offset", "string", "duplicate"])
    ids = list(range(fleet))
    if style == "permuted" and fleet > 1:
        while ids == list(range(fleet)):
            rng.shuffle(ids)
    elif style == "permuted":
        ids = [1]
    elif style == "offset":
        ids = [10 * (i + 1) for i in range(fleet)]
        rng.shuffle(ids)
    elif style == "string":
        ids = [f"truck-{chr(97 + (fleet - 1 - i))}" for i in range(fleet)]
    elif style == "duplicate":
        ids = [0] * fleet
    big = max(1, int(total_demand) + rng.choice([-2, 0, 1]))
    kind = rng.choice(["big_first", "big_last", "random", "random"])
    caps = [rng.choice([None, 2, 3, 6, 12, 25]) for _ in range(fleet)]
    if kind == "big_first":
        caps = [big] + [rng.choice([1, 2, 3, 5]) for _ in range(fleet - 1)]
    elif kind == "big_last":
        caps = [rng.choice([1, 2, 3, 5]) for _ in range(fleet - 1)] + [big]
    return [[i, c, rng.choice([None, None, 50, 7.5])] for i, c in zip(ids, caps)]


def gen_script(rng, has_multi, length):
    """A sequence of exported operators applied from the empty plan (all customers unassigned)."""
    rep = REPAIR if has_multi else REPAIR[:2]
    des = DESTROY if has_multi else DESTROY[:4]
    out = [{"op": rng.choice(rep if has_multi else rep), "seed": rng.randrange(1000)}]
    for _ in range(length):
        name = rng.choice(des + rep) if rng.random() < 0.3 else (rng.choice(des) if len(out) % 2 else rng.choice(rep))
        out.append(op_call(rng, name))
    return out


def op_call(rng, name):
    c = {"op": name, "seed": rng.randrange(1000)}
    if name in ("random_removal", "worst_removal", "related_removal"):
        c["degree"] = rng.choice([0.1, 0.2, 0.3, 0.5, 1.0])
    elif name == "route_removal":
        c["n_routes"] = rng.choice([1, 1, 2, 3])
    elif name == "regret_insertion":
        c["k"] = rng.choice([1, 2, 3])
    return c


def gen_vrp(rng, big, large=False):
    case = {"kind": "vrp", **gen_problem(rng, big, large)}
    if rng.random() < 0.03 and not large:
        # excluded region (ids are not the 1-based positions): the real code is run, the outcome only recorded
        how = rng.choice(["shuffled", "offset", "duplicate"])
        ids = [c[0] for c in case["customers"]]
        if how == "shuffled":
            rng.shuffle(ids)
        elif how == "offset":
            ids = [i + 10 for i in ids]
        else:
            ids[-1] = ids[0]
        for c, i in zip(case["customers"], ids):
            c[0] = i
        case["excluded"] = "ids_" + how
    has_multi = any(c[7] > 1 for c in case["customers"])
    if rng.random() < 0.3:
        case["script"] = gen_script(rng, has_multi, rng.randint(4, 16 if big else 10))
    else:
        case["max_iter"] = rng.choice([4, 6] if large else [8, 15, 25, 40] if big else [8, 15, 25])
        case["max_no_improve"] = rng.choice([5, 20, 500])
        case["seed"] = rng.randrange(1000)
        nd = rng.randint(4, 12)
        case["direct"] = [[rng.random(), op_call(rng, rng.choice((DESTROY if has_multi else DESTROY[:4]) +
                                                                 (REPAIR if has_multi else REPAIR[:2])))]
                          for _ in range(nd)]
    case["probe_seed"] = rng.randrange(1000)
    # presentation of `customers: list[Customer] | list[tuple]`: objects, tuples, both in one list, tuples cut
    # after the last non-default field
    case["cust_style"] = "tuples" if case.pop("as_tuples") else rng.choice(["objects", "objects", "mixed", "short_tuples"])
    if large:
        case["large"] = True
    return case


EPS = [0, 0, 2.0 ** -30, 1e-9, 1e-8, 2e-7, 8e-7, 2.0 ** -20, 1e-6, 1.5e-6, 1e-5]


def gen_edge(rng):
    """Numeric-edge family for the objective: a 3-4-5 geometry scaled by a power of two (all distances exact
    doubles) in which the arrival spread at a two-vehicle customer, a lateness and a capacity excess are each
    exactly 0, tiny (2^-30 .. 1e-5) or just above 1e-6.  Customer 1 = M (needs two vehicles) at (6s, 8s),
    customer 2 = X at (3s, 4s) on the way to M, customer 3 = Y at (-4s, 3s).  Plan: vehicle A drives 0 -> M
    (arrives 10s), vehicle B drives 0 -> X -> M and is held up at X by `eps_sync` (X's window opens at
    5s + eps, or X takes eps service time), so the spread at M is eps and no waiting at M equalises it (unless
    the recipe opens M's window late on purpose); vehicle C reaches Y at 5s, `eps_late` after Y's window closed;
    B's load exceeds its capacity by `eps_cap`."""
    s_ = 2.0 ** rng.choice([-1, 0, 0, 1, 2, 3])
    e_sync, e_late, e_cap = rng.choice(EPS), rng.choice(EPS), rng.choice(EPS)
    mode = rng.choice(["window", "window", "service"])
    equalise = rng.random() < 0.15
    m = [1, 6 * s_, 8 * s_, 4, (10 * s_ + 2 * e_sync) if equalise else rng.choice([0, 0, 10 * s_]), None, 0, 2]
    if rng.random() < 0.3:
        m[5] = 10 * s_ + rng.choice([0, e_sync, 1.0])  # M's own window closes at / just after the first arrival
    x = [2, 3 * s_, 4 * s_, 6 + e_cap, (5 * s_ + e_sync) if mode == "window" else 0, None,
         e_sync if mode == "service" else 0, 1]
    y = [3, -4 * s_, 3 * s_, rng.choice([0, 1]), 0, 5 * s_ - e_late, rng.choice([0, 1]), 1]
    custs = [m, x, y]
    for i in range(rng.choice([0, 0, 1, 2])):
        custs.append([4 + i, rng.choice([-8, 8]) * s_, rng.choice([-6, 6]) * s_, rng.choice([0, 1, 2]), 0, None, 0, 1])
    ids = rng.choice([[0, 1, 2], [2, 0, 1], [10, 20, 30]])
    vehicles = [[ids[0], rng.choice([None, 20]), None], [ids[1], 10, None], [ids[2], rng.choice([None, 5]), None]]
    weights = {}
    for key, vals in (("tw_penalty", [1000.0, 1e5]), ("capacity_penalty", [1000.0, 1e5]),
                      ("sync_penalty", [10000.0, 1000.0, 1e6]), ("vehicle_weight", [0.0, 2.5])):
        if rng.random() < 0.5:
            weights[key] = rng.choice(vals)
    case = {"kind": "vrp", "customers": custs, "vehicles": vehicles, "vehicle_capacity": None, "depot": [0, 0],
            "weights": weights, "cust_style": rng.choice(["objects", "tuples", "short_tuples"]),
            "plans": [[[1], [2, 1], [3]], [[2, 1], [1], [3]], [[1], [3, 2, 1], []]],
            "edge": {"sync": e_sync, "late": e_late, "cap": e_cap, "mode": mode, "equalise": equalise},
            "probe_seed": rng.randrange(1000)}
    if rng.random() < 0.4:
        case["script"] = [{"op": "sync_aware_insertion", "seed": rng.randrange(1000)}] + \
            [op_call(rng, rng.choice(DESTROY if i % 2 == 0 else REPAIR)) for i in range(rng.randint(2, 6))]
    else:
        case.update({"max_iter": rng.choice([6, 12]), "max_no_improve": 20, "seed": rng.randrange(1000),
                     "direct": [[rng.random(), op_call(rng, rng.choice(DESTROY + REPAIR))] for _ in range(4)]})
    return case


def _relabel(case, keep):
    """The sub-problem with the first `keep` customers (ids stay the 1-based positions)."""
    c = json.loads(json.dumps(case))
    c["customers"] = c["customers"][:keep]
    return c


def gen_hist(rng, big):
    """2-4 consecutive calls in one worker process on related inputs (each judged on its own input)."""
    kind = rng.choice(["js", "js", "vrp", "vrp", "mixed"])
    recipe = rng.choice(["same_twice", "narrow_wide", "wide_narrow", "changed_content", "other_options"])

    def js_variants():
        base = gen_js(rng, big)
        reuse = rng.random() < 0.5
        if reuse:
            base.pop("style", None)  # in-place re-use needs list objects
        alt = json.loads(json.dumps(base))
        if recipe in ("narrow_wide", "wide_narrow"):
            alt["jobs"] = alt["jobs"][:max(1, len(alt["jobs"]) // 2)]
        elif recipe == "changed_content":
            for j in alt["jobs"]:
                for o in j:
                    o[0] = (o[0] + rng.choice([0, 1, 3])) % 9
                    o[1] = rng.choice([0, 1, 2, 5])
        elif recipe == "other_options":
            alt["rule"], alt["seed"], alt["max_iter"] = rng.choice(["spt", "lpt", "mwkr", "fifo", "random"]), \
                rng.randrange(1000), rng.choice([1, 20, 60])
        items = [alt, base] if recipe == "narrow_wide" else [base, alt]
        if rng.random() < 0.4:
            items.append(json.loads(json.dumps(items[0])))
        if reuse:
            for it in items[1:]:
                it["reuse_objects"] = True
        return items

    def vrp_variants():
        base = gen_vrp(rng, False)
        while base.get("excluded"):
            base = gen_vrp(rng, False)
        alt = json.loads(json.dumps(base))
        if recipe in ("narrow_wide", "wide_narrow"):
            alt = _relabel(alt, max(1, len(alt["customers"]) // 2))
        elif recipe == "changed_content":
            for c in alt["customers"]:
                c[1], c[2] = c[2], -c[1]
                c[3] = rng.choice([0, 1, 2, 3])
        elif recipe == "other_options":
            alt.pop("script", None)
            alt.update({"max_iter": 6, "max_no_improve": 20, "seed": rng.randrange(1000), "direct": base.get("direct", [])[:4]})
        items = [alt, base] if recipe == "narrow_wide" else [base, alt]
        if rng.random() < 0.3:
            items.append(json.loads(json.dumps(items[0])))
        return items
    if kind == "js":
        items = js_variants()
    elif kind == "vrp":
        items = vrp_variants()
    else:
        a, b = vrp_variants(), js_variants()
        items = [a[0], b[0], a[1]] + ([b[1]] if rng.random() < 0.5 else [])
    return {"kind": "hist", "recipe": f"{kind}:{recipe}", "items": items[:4]}


# ---------------------------------------------------------------------------
# implementation side (runs in worker processes)
# ---------------------------------------------------------------------------

def _entries(sol):
    out = []
    for key, val in sol.items():
        (j, k), (s, e) = key, val
        for x in (j, k, s, e):
            if not isinstance(x, int) or isinstance(x, bool):
                raise TypeError(f"schedule entry {key!r}: {val!r} is not made of ints")
        out.append([j, k, s, e])
    return out


def _mk_jobs(case, shared=None):
    """Build the `jobs` argument in the presentation the case asks for (meaning = case["jobs"])."""
    st = case.get("style") or {}
    spec = case["jobs"]

    def op(o):
        d = o[1]
        return (o[0], bool(d) if st.get("bool_dur") and d in (0, 1) else d)
    if shared is not None and case.get("reuse_objects") and isinstance(shared.get("jobs"), list):
        jobs = shared["jobs"]  # the list objects of the previous call, content replaced in place
        inner, new = list(jobs), []
        for i, j in enumerate(spec):
            if i < len(inner) and isinstance(inner[i], list):
                inner[i][:] = [op(o) for o in j]
                new.append(inner[i])
            else:
                new.append([op(o) for o in j])
        jobs[:] = new
        return jobs
    opc, jobc, out = {}, {}, []
    for idx, j in enumerate(spec):
        key = json.dumps(j)
        if st.get("alias") and key in jobc:
            out.append(jobc[key])  # one object at several positions
            continue
        ops = [opc.setdefault(tuple(o), op(o)) if st.get("alias") else op(o) for o in j]
        kind = st.get("inner", "list")
        if kind == "mixed":
            kind = "tuple" if idx % 2 else "list"
        jobc[key] = tuple(ops) if kind == "tuple" else ops
        out.append(jobc[key])
    jobs = tuple(out) if st.get("outer") == "tuple" else out
    if shared is not None:
        shared["jobs"] = jobs
    return jobs


def impl_js(case, shared=None):
    from solvor import job_shop as J
    jobs = _mk_jobs(case, shared)
    out = {"scheds": []}
    r0 = J.solve_job_shop(jobs, rule=case["rule"], local_search=False, seed=case["seed"])
    out["scheds"].append(["dispatch", _entries(r0.solution), r0.objective])
    try:
        r1 = J.solve_job_shop(jobs, rule=case["rule"], local_search=True, max_iter=case["max_iter"], seed=case["seed"])
    except Exception as e:  # noqa: BLE001
        out["ls_error"] = f"{type(e).__name__}: {e}"
        return out
    out["scheds"].append(["final", _entries(r1.solution), r1.objective])
    out["status"] = [r0.status.name, r1.status.name]
    # _try_swap / _rebuild_schedule on every adjacent pair of every machine of the final schedule
    sched = r1.solution
    machines = sorted({m for job in jobs for m, _ in job})
    nsw = 0
    for m in machines:
        ops = [(j, k) for j, job in enumerate(jobs) for k, (mm, _) in enumerate(job) if mm == m]
        ops.sort(key=lambda x: sched[x][0])
        for i in range(len(ops) - 1):
            if nsw >= 16:
                break
            new = J._try_swap(jobs, sched, ops[i][0], ops[i][1], ops[i + 1][0], ops[i + 1][1])
            if new is not None:
                nsw += 1
                out["scheds"].append(["swap", _entries(new), J._compute_makespan(jobs, new)])
    out["unchanged"] = [[[o[0], int(o[1])] for o in j] for j in jobs] == case["jobs"]
    return out


def _build(case, shared=None):
    """customers / vehicles arguments in the presentation the case asks for.  With `shared` (a history) equal
    specifications give the *same* Customer / Vehicle objects and the same vehicles list object as in the
    previous calls."""
    import solvor.vrp as V
    shared = shared if shared is not None else {}
    cc, vc = shared.setdefault("cust", {}), shared.setdefault("veh", {})
    style = case.get("cust_style") or ("tuples" if case.get("as_tuples") else "objects")
    custs = []
    for pos, c in enumerate(case["customers"]):
        twe = float("inf") if c[5] is None else c[5]
        full = (c[0], c[1], c[2], c[3], c[4], twe, c[6], c[7])
        kind = style if style != "mixed" else ("tuples" if pos % 2 else "objects")
        if kind == "short_tuples":
            dflt = {3: 0.0, 4: 0.0, 5: float("inf"), 6: 0.0, 7: 1}
            while len(full) > 3 and full[-1] == dflt[len(full) - 1]:
                full = full[:-1]
        key = (kind == "objects", full)
        if key not in cc:
            cc[key] = V.Customer(*full) if kind == "objects" else full
        custs.append(cc[key])
    veh = case["vehicles"]
    if not isinstance(veh, int):
        lkey = json.dumps(veh)
        if lkey not in vc:
            one = {}
            vc[lkey] = [one.setdefault(json.dumps(v), V.Vehicle(v[0], float("inf") if v[1] is None else v[1],
                                                                float("inf") if len(v) < 3 or v[2] is None else v[2]))
                        for v in veh]
        veh = vc[lkey]
    kw = {}
    if case.get("vehicle_capacity") is not None:
        kw["vehicle_capacity"] = case["vehicle_capacity"]
    return custs, veh, kw


def late_check(registry):
    """Re-snapshot every state object that was handed out earlier; report those that changed since."""
    late = {}
    for tag, label, obj, snap0, snapfn in registry:
        try:
            now = snapfn(obj)
        except Exception as e:  # noqa: BLE001
            now = None
            late.setdefault(tag, []).append([label, snap0, None, f"{type(e).__name__}: {e}"])
            continue
        if now != snap0:
            late.setdefault(tag, []).append([label, snap0, now, None])
    return late


def impl_vrp(case, shared=None, tag=0):
    import random

    import solvor.vrp as V
    W = dict(case.get("weights") or {})
    steps = []     # [name, kind, pre, post]
    step_objs = []  # the state objects themselves: (kind, pre object, post object)
    own = shared is None
    shared = {} if own else shared
    registry = shared.setdefault("registry", [])
    seen_ids = shared.setdefault("seen_ids", set())
    depth = [0]

    def register(label, obj, sn):
        if id(obj) not in seen_ids:  # objects stay referenced by the registry, so ids are not recycled
            seen_ids.add(id(obj))
            registry.append((tag, label, obj, sn, snap))

    def snap(st):
        for r in st.routes:
            for c in r:
                if not isinstance(c, int) or isinstance(c, bool) or c < 0:
                    raise TypeError(f"route entry {c!r}")
        return [[list(r) for r in st.routes], sorted(st.unassigned), [list(a) for a in st.arrival_times],
                V.vrp_objective(st, **W)]

    orig = {name: getattr(V, name) for name in DESTROY + REPAIR}

    def wrap(name):
        fn = orig[name]
        kind = 0 if name in DESTROY else 1

        def w(state, rng, *a, **k):
            if depth[0] > 0:
                return fn(state, rng, *a, **k)
            depth[0] += 1
            try:
                pre = snap(state)
                out = fn(state, rng, *a, **k)
            finally:
                depth[0] -= 1
            post = snap(out)
            steps.append([name, kind, pre, post])
            step_objs.append((kind, state, out))
            register("input of " + name, state, pre)
            register("result of " + name, out, post)
            return out
        return w

    def call(state, c):
        fn = getattr(V, c["op"])
        kw = {k: c[k] for k in ("degree", "n_routes", "k") if k in c}
        return fn(state, random.Random(c["seed"]), **kw)

    custs, veh, kw = _build(case, shared)
    out = {}
    try:
        for name in orig:
            setattr(V, name, wrap(name))
        if "script" in case:
            cl = [V.Customer(0, case["depot"][0], case["depot"][1])]
            for c in custs:
                cl.append(c if isinstance(c, V.Customer) else V.Customer(*c))
            vl = [V.Vehicle(i, kw.get("vehicle_capacity", float("inf"))) for i in range(veh)] if isinstance(veh, int) \
                else list(veh)
            st = V.VRPState.from_problem(cl, vl)
            first = st
            for c in case["script"]:
                st = call(st, c)
            out["final"] = snap(st)
            out["final_obj"] = out["final"][3]
            out["dist"] = first._dist
        else:
            res = V.solve_vrptw(custs, veh, tuple(case["depot"]), max_iter=case["max_iter"],
                                max_no_improve=case["max_no_improve"], seed=case["seed"], **kw,
                                **{k: v for k, v in W.items() if k != "unassigned_penalty"})
            st = res.solution
            out["final"] = snap(st)
            register("result of solve_vrptw", st, out["final"])
            out["final_obj"] = res.objective
            out["status"] = res.status.name
            out["dist"] = st._dist
            # direct calls of the exported operators on states the search went through
            n_solver = len(steps)
            out["n_solver_steps"] = n_solver
            # ... on the very objects the search handed to / got from its operators (re-use of returned states)
            partial = [o[2] for o in step_objs if o[0] == 0] or [o[1] for o in step_objs]
            complete = [o[2] for o in step_objs if o[0] == 1] + [st]
            for frac, c in case.get("direct", []):
                pool = partial if c["op"] in REPAIR else complete
                if not pool:
                    continue
                call(pool[int(frac * len(pool)) % len(pool)], c)
        # objective probes: `vrp_objective` / `update_arrival_times` on crammed (overloaded, late) plans built
        # from states the run went through -- reachable states never overload a vehicle, so the capacity
        # and lateness terms of the weighted sum would otherwise always be evaluated at 0
        prng = random.Random(case.get("probe_seed", 0))
        srcs = [s[3] for s in steps][-40:] + [out["final"]]
        probes = []
        for _ in range(case.get("probes", 3)):
            src = prng.choice(srcs)
            allc = list(dict.fromkeys(c for r in src[0] for c in r))
            k = len(src[0])
            if not allc or not k:
                continue
            prng.shuffle(allc)
            v = prng.randrange(k)
            cut = prng.randint(0, len(allc)) if k > 1 and prng.random() < 0.5 else len(allc)
            routes = [[] for _ in range(k)]
            routes[v] = allc[:cut]
            if cut < len(allc):
                routes[(v + 1 + prng.randrange(k - 1)) % k] = allc[cut:]
            base = V.VRPState.from_problem(st.customers, st.vehicles)
            base.routes = routes
            base.unassigned = set(src[1])
            base.update_arrival_times()
            probes.append(snap(base))
        for plan in case.get("plans", []):  # hand-made plans of the numeric-edge family
            base = V.VRPState.from_problem(st.customers, st.vehicles)
            if len(plan) != len(base.routes):
                continue
            base.routes = [list(r) for r in plan]
            base.unassigned = {c for c in range(1, len(st.customers))} - {c for r in plan for c in r}
            base.update_arrival_times()
            probes.append(snap(base))
        out["probes"] = probes
    finally:
        for name, fn in orig.items():
            setattr(V, name, fn)
    out["steps"] = steps
    if own:
        out["late"] = late_check(registry).get(tag, [])
    return out


def impl_hist(case):
    """Consecutive calls in this one process; the outcome of each item is judged on its own input."""
    shared = {}
    outs = []
    for idx, it in enumerate(case["items"]):
        try:
            outs.append(["ok", impl_js(it, shared) if it["kind"] == "js" else impl_vrp(it, shared, idx)])
        except Exception as e:  # noqa: BLE001
            import traceback
            outs.append(["err", f"{type(e).__name__}: {e}"[:500] + "\n" + traceback.format_exc(limit=4)[-600:]])
    late = late_check(shared.get("registry", []))
    for idx, o in enumerate(outs):
        if o[0] == "ok" and case["items"][idx]["kind"] == "vrp":
            o[1]["late"] = late.get(idx, [])
    return outs


def impl(case):
    if case["kind"] == "hist":
        return impl_hist(case)
    return impl_js(case) if case["kind"] == "js" else impl_vrp(case)


# ---------------------------------------------------------------------------
# requests
# ---------------------------------------------------------------------------

def ls_draws(case, out):
    """The machines `rng.randrange(n_machines)` yields in the local search of this call, recomputed
    from the seed (support only: feeds the R_trace mirror).  For rule `random` the `rng.choice(ready)`
    calls of `_dispatch` are replayed first; `None` if that does not reproduce the dispatch order."""
    import random
    jobs = case["jobs"]
    if not jobs or len(out["scheds"]) < 2 or out["scheds"][1][0] != "final" or case.get("large"):
        return None
    rng = random.Random(case["seed"])
    if case["rule"].lower() == "random":
        nxt = [0] * len(jobs)
        for j, _k, _s, _e in out["scheds"][0][1]:
            ready = [jj for jj in range(len(jobs)) if nxt[jj] < len(jobs[jj])]
            if not ready or rng.choice(ready) != j:
                return None
            nxt[j] += 1
    nm = max(m for job in jobs for m, _ in job) + 1
    return [rng.randrange(nm) for _ in range(case["max_iter"])]


def js_request(case, out):
    rule = case["rule"].lower()
    return ["js", case["jobs"], RULES.index(rule) if rule in RULES else -1,
            [[s[1], rat(s[2])] for s in out["scheds"]], ls_draws(case, out)]


def vrp_request(case, out):
    cs = case["customers"]
    n = len(cs)
    table, states = {}, []

    def sid(s):
        key = json.dumps(s)
        if key not in table:
            table[key] = len(states)
            states.append([s[0], s[1], [[rat(x) for x in a] for a in s[2]], rat(s[3])])
        return table[key]
    steps = [[st[1], sid(st[2]), sid(st[3])] for st in out["steps"]]
    fin = out["final"]
    final_id = sid([fin[0], fin[1], fin[2], out["final_obj"]])
    ids = [(st[1], st[2]) for st in steps]
    probe_ids = [sid(pr) for pr in out.get("probes", [])]
    late_ids = [None if lt[2] is None else sid(lt[2]) for lt in out.get("late", [])]
    veh = case["vehicles"]
    if isinstance(veh, int):
        caps = [None if case.get("vehicle_capacity") is None else rat(case["vehicle_capacity"])] * veh
    else:
        caps = [None if v[1] is None else rat(v[1]) for v in veh]
    W = case.get("weights") or {}
    req = ["vrp", n, [1] + [c[7] for c in cs], [[rat(x) for x in row] for row in out["dist"]],
           [rat(0)] + [rat(c[3]) for c in cs], [rat(0)] + [rat(c[4]) for c in cs],
           [None] + [None if c[5] is None else rat(c[5]) for c in cs], [rat(0)] + [rat(c[6]) for c in cs],
           caps, [rat(W[k]) if k in W else None for k in WKEYS], TOL, REL,
           [[rat(case["depot"][0]), rat(case["depot"][1])]] + [[rat(c[1]), rat(c[2])] for c in cs], states, steps]
    return req, (ids, probe_ids, late_ids), final_id


# ---------------------------------------------------------------------------
# judgement
# ---------------------------------------------------------------------------
JS_CLAUSES = ["op_twice", "op_unknown", "op_missing", "end_minus_start_ne_duration", "job_order", "machine_overlap",
              "objective_ne_latest_end"]
INV_CLAUSES = ["id_out_of_range", "unassigned_dup", "customer_lost", "unassigned_and_on_route", "twice_on_route",
               "single_on_two_routes"]


def judge_js(ctx, case, o, reply):
    fn = "solve_job_shop"
    rep = {"case": case, "impl": o, "model": reply}
    if case.get("malformed"):
        ctx.count("js:malformed:" + err_kind(o))
        ctx.case(["js", case], False)
        return
    if o[0] != "ok":
        ctx.fail(fn, "raises:" + err_kind(o), f"valid input raised/timed out: {o[1]}", rep)
        ctx.case(["js", case], False)
        return
    out = o[1]
    ctx.count("js:rule:" + case["rule"].lower())
    st = case.get("style")
    ctx.count("js:style:" + ("list/list/tuple" if not st else
                             f"{st['outer']}/{st['inner']}" + ("/aliased" if st["alias"] else "") +
                             ("/bool_durations" if st["bool_dur"] else "")))
    if case.get("reuse_objects"):
        ctx.count("js:same_list_objects_as_previous_call")
    if case.get("large"):
        ctx.count("large:js")
    ctx.count(f"js:max_iter:{case['max_iter']}")
    if "ls_error" in out:
        kind = out["ls_error"].split(":")[0]
        ctx.fail(fn, f"raises:{kind}:max_iter={'0' if case['max_iter'] == 0 else 'pos'}",
                 f"valid input raised with local_search=True: {out['ls_error']}", rep)
    elif not out.get("unchanged", True):
        ctx.count("js:jobs_argument_modified(not a clause of C18)")
    rule_sched, verdicts, ls = reply
    for (tag, entries, obj), v in zip(out["scheds"], verdicts):
        if isinstance(v, str):
            raise core.Infra(f"model rejected schedule: {v}")
        clauses, refine, mk = v
        f = fn if tag != "swap" else "_try_swap"
        bad = [nm for nm, ok in zip(JS_CLAUSES, clauses) if not ok]
        if bad:
            ctx.fail(f, "invalid_schedule:" + bad[0],
                     f"{tag} schedule rejected by the verified checker chkSchedule: {bad}; latest end {mk}, "
                     f"reported objective {obj}", {**rep, "schedule": entries, "objective": obj})
        elif not refine:
            ctx.tdiv(f, {"case": case, "what": f"{tag} schedule is valid but is not the abstract dispatch "
                                               "machine's schedule for its own pick order", "schedule": entries})
        ctx.count("js:sched:" + tag)
        ctx.count("checked:schedules(chkSchedule)")
        if refine:
            ctx.count("r_trace:schedule_is_dispatch_of_own_order")
    if rule_sched is not None and out["scheds"]:
        if out["scheds"][0][1] != rule_sched:
            ctx.tdiv(fn, {"case": case, "what": "dispatch-only schedule differs from the rule mirror",
                          "impl": out["scheds"][0][1], "mirror": rule_sched})
        else:
            ctx.count("r_trace:rule_mirror_equal")
    if ls is not None:
        fin = out["scheds"][1]
        if sorted(ls[0]) != sorted(fin[1]) or ls[1] != fin[2]:
            ctx.tdiv(fn, {"case": case, "what": "schedule/objective after local search differ from the mirror "
                                               "localSearch run on the same drawn machines",
                          "impl": [fin[1], fin[2]], "mirror": ls})
        else:
            ctx.count("r_trace:local_search_mirror_equal")
    elif len(out["scheds"]) > 1 and out["scheds"][1][0] == "final" and case["jobs"]:
        ctx.count("js:ls_mirror_skipped")
    improved = len(out["scheds"]) > 1 and out["scheds"][1][0] == "final" and out["scheds"][1][2] < out["scheds"][0][2]
    ctx.count("js:improved" if improved else "js:not_improved")
    ctx.case(["js", case], improved, {"case": case, "dispatch_obj": out["scheds"][0][2],
                                     "final_obj": out["scheds"][1][2] if len(out["scheds"]) > 1 else None,
                                     "schedules_checked": len(out["scheds"])})


def judge_vrp(ctx, case, o, reply, ids, final_id):
    top = "solve_vrptw" if "script" not in case else "operator_script"
    rep = {"case": case}
    if case.get("excluded"):
        ctx.count(f"excluded_region:{case['excluded']}:{err_kind(o)}")
        ctx.cov["excluded_region_hits"] = ctx.cov.get("excluded_region_hits", 0) + 1
        return
    if o[0] != "ok":
        ctx.fail(top, "raises:" + err_kind(o), f"valid input raised/timed out: {o[1]}", {**rep, "impl": o})
        ctx.case(["vrp", case], False)
        return
    out = o[1]
    sv, tv, euclid = reply
    if not euclid:
        ctx.fail("VRPState.from_problem", "distance_not_euclidean", "cached distance matrix is not the Euclidean "
                 "distance of the coordinates (non-negative, symmetric, d^2 = dx^2 + dy^2 within 1e-12 relative)",
                 {**rep, "dist": out["dist"]})
    multi = {c[0] for c in case["customers"] if c[7] > 1}
    ctx.count("vrp:script" if "script" in case else "vrp:solve")
    if case.get("edge"):
        ctx.count("vrp:numeric_edge")
        for term in ("sync", "late", "cap"):
            e = case["edge"][term]
            ctx.count(f"vrp:numeric_edge:{term}:" + ("exact_zero" if e == 0 else "tiny<=1e-6" if e <= 1e-6 else "just_above_1e-6"))
    if case.get("large"):
        ctx.count("large:vrp")
    ctx.count(f"vrp:n={len(case['customers'])}")
    ctx.count(f"vrp:multi={len(multi)}")
    veh = case["vehicles"]
    if isinstance(veh, int):
        ctx.count("vrp:fleet:int")
    else:
        vids = [v[0] for v in veh]
        ctx.count("vrp:fleet:list:" + ("ids_positional" if vids == list(range(len(vids))) else
                                        "ids_string" if any(isinstance(i, str) for i in vids) else
                                        "ids_permuted" if sorted(vids) == list(range(len(vids))) else
                                        "ids_duplicate" if len(set(vids)) < len(vids) else "ids_out_of_range"))
        if len({json.dumps(v[1]) for v in veh}) > 1:
            ctx.count("vrp:fleet:heterogeneous_capacity")
    seen = set()

    def once(f, klass, what, extra):
        if (f, klass) not in seen:
            seen.add((f, klass))
            ctx.fail(f, klass, what, {**rep, **extra})

    def state_ok(f, idx, st, where):
        inv, arr_ok, obj_ok, exact = sv[idx]
        bad = [nm for nm, ok in zip(INV_CLAUSES, inv) if not ok]
        ok = True
        if bad:
            ok = False
            once(f, "breaks_inv:" + bad[0], f"{where}: state violates the bookkeeping invariant ({bad}); "
                 f"routes={st[0]} unassigned={st[1]}", {"state": st, "failed_clauses": bad})
        if not arr_ok:
            ok = False
            once(f, "stale_arrival_times", f"{where}: cached arrival_times differ from the exact recomputation "
                 f"by more than 1e-6; routes={st[0]} arrival_times={st[2]}", {"state": st})
        if not obj_ok:
            ok = False
            once("vrp_objective" if where != "final" else f, "objective_mismatch",
                 f"{where}: objective {st[3]!r} differs from the documented weighted sum "
                 f"{float(core.unrat(exact))!r} of this state by more than 1e-6", {"state": st, "exact": exact})
        return ok

    removed = inserted = 0
    reqs_steps = out["steps"]
    ids, probe_ids, late_ids = ids
    ctx.count("vrp:cust_style:" + (case.get("cust_style") or ("tuples" if case.get("as_tuples") else "objects")))
    ctx.count("vrp:state_objects_rechecked_at_end")  # every handed-out state object is re-read after all later calls
    for li, lt in zip(late_ids, out.get("late", [])):
        label, before, now, err = lt
        ctx.count("vrp:earlier_state_changed_later")
        if li is None:
            once(top, "earlier_state_corrupted_later:unreadable", f"the {label} can no longer be scored after later "
                 f"operator calls on other states: {err}; it was routes={before[0]} unassigned={before[1]}",
                 {"earlier_state_then": before})
            continue
        inv, arr_ok, _obj_ok, _exact = sv[li]
        bad = [nm for nm, ok in zip(INV_CLAUSES, inv) if not ok] + ([] if arr_ok else ["stale_arrival_times"])
        if bad:
            once(top, "earlier_state_corrupted_later:" + bad[0], f"the {label} was routes={before[0]} unassigned="
                 f"{before[1]} when handed out and is routes={now[0]} unassigned={now[1]} after later operator calls "
                 f"on other states (shared sub-objects); it now violates {bad}",
                 {"earlier_state_then": before, "earlier_state_now": now, "failed_clauses": bad})
    for pi, pr in zip(probe_ids, out.get("probes", [])):
        _inv, arr_ok, obj_ok, exact = sv[pi]
        ctx.count("vrp:objective_probe")
        if core.unrat(exact) >= 1000:
            ctx.count("vrp:objective_probe_with_penalty")
        if not arr_ok:
            once("VRPState.update_arrival_times", "stale_arrival_times", "probe plan: arrival_times after "
                 f"update_arrival_times() differ from the exact recomputation; routes={pr[0]} arrival_times={pr[2]}",
                 {"state": pr})
        if not obj_ok:
            once("vrp_objective", "objective_mismatch", f"probe plan routes={pr[0]} unassigned={pr[1]}: objective "
                 f"{pr[3]!r} differs from the documented weighted sum {float(core.unrat(exact))!r} by more than 1e-6",
                 {"state": pr, "exact": exact})
    for i, (st, (pi, qi), ref) in enumerate(zip(reqs_steps, ids, tv)):
        name, kind, pre, post = st
        if isinstance(ref, str):
            raise core.Infra(f"model rejected step: {ref}")
        ctx.count("vrp:op:" + name)
        if not all(sv[pi][0]):
            ctx.count("vrp:step_skipped_pre_not_inv")  # blamed on the step that produced `pre`
            continue
        if not ref:
            if kind == 0:
                left = sorted(c for c in post[1] if any(c in r for r in post[0]))
                klass = "not_a_remove_step" + (":multi_vehicle_customer_left_on_route" if set(left) & multi else "")
            else:
                gone = sorted(c for c in pre[1] if c not in post[1] and not any(c in r for r in post[0]))
                klass = "not_an_insert_run" + (":multi_vehicle_customer_dropped" if set(gone) & multi else "")
            once(name, klass, f"(pre, post) is not an abstract {'remove' if kind == 0 else 'insert'} transition: "
                 f"pre routes={pre[0]} unassigned={pre[1]} -> post routes={post[0]} unassigned={post[1]}",
                 {"operator": name, "pre": pre, "post": post})
        state_ok(name, qi, post, f"after {name}")
        if kind == 0 and len(post[1]) > len(pre[1]):
            removed += 1
        if kind == 1 and len(post[1]) < len(pre[1]):
            inserted += 1
    fin = out["final"]
    state_ok(top, final_id, [fin[0], fin[1], fin[2], out["final_obj"]], "final")
    if fin[1]:
        ctx.count("vrp:final_has_unassigned")
    ctx.count("vrp:steps", len(reqs_steps))
    ctx.count("checked:vrp_steps(isRemove/isInsertRun)", len(reqs_steps))
    ctx.count("checked:vrp_states(chkInv,chkArrivals,chkObjective)", len(sv))
    ctx.case(["vrp", case], removed >= 1 and inserted >= 1,
             {"case": case, "steps": len(reqs_steps), "final_routes": fin[0], "final_unassigned": fin[1],
              "objective": out["final_obj"], "exact_objective": sv[final_id][3]})


def eval_cases(cases, fresh=False):
    """Run implementation and model.  Returns, per case, a list of (item index | None, (case, outcome, reply,
    ids, final_id)) -- one entry for a plain case, one per item for a history.  With `fresh` every case runs in
    a newly forked process of its own (nothing left over from an earlier call can play a part)."""
    if fresh:
        outs = []
        for i in range(0, len(cases), 32):
            outs += run_pool(impl, cases[i:i + 32], timeout=60.0, procs=len(cases[i:i + 32]))
    else:
        outs = run_pool(impl, cases, timeout=60.0)
    flat = []
    for ti, (c, o) in enumerate(zip(cases, outs)):
        if c["kind"] != "hist":
            flat.append((ti, None, c, o))
        elif o[0] != "ok":
            flat += [(ti, ii, it, o) for ii, it in enumerate(c["items"])]
        else:
            flat += [(ti, ii, it, tuple(io)) for ii, (it, io) in enumerate(zip(c["items"], o[1]))]
    reqs, meta = [], []
    for _, _, c, o in flat:
        if o[0] != "ok" or c.get("malformed") or c.get("excluded"):
            meta.append(None)
            continue
        if c["kind"] == "js":
            reqs.append(js_request(c, o[1]))
            meta.append((len(reqs) - 1, None, None))
        else:
            r, ids, fid = vrp_request(c, o[1])
            reqs.append(r)
            meta.append((len(reqs) - 1, ids, fid))
    replies = Driver("Sched").run(reqs, chunks=16)
    res = [[] for _ in cases]
    for (ti, ii, c, o), m in zip(flat, meta):
        rp = replies[m[0]] if m else None
        if rp and rp[0] == "error":
            raise core.Infra(f"model rejected request: {rp}")
        res[ti].append((ii, (c, o, rp, m[1] if m else None, m[2] if m else None)))
    return res


def judge(ctx, c, o, rp, ids, fid):
    if c["kind"] == "js":
        judge_js(ctx, c, o, rp)
    else:
        judge_vrp(ctx, c, o, rp, ids, fid)


class _Buffer:
    """ctx stand-in: buffers `fail`s of the case being judged, forwards the bookkeeping calls (or drops
    them when `ctx` is None, i.e. while shrinking)."""

    def __init__(self, ctx):
        self.ctx = ctx
        self.fails = []
        self.cov = ctx.cov if ctx is not None else {}

    def fail(self, function, klass, what, replay, no_input=False):
        self.fails.append((function, klass, what, replay))

    def tdiv(self, *a):
        if self.ctx is not None:
            self.ctx.tdiv(*a)

    def count(self, *a):
        if self.ctx is not None:
            self.ctx.count(*a)

    def case(self, *a):
        if self.ctx is not None:
            self.ctx.case(*a)


# ---------------------------------------------------------------------------
# shrinking: drop jobs / operations / customers / vehicles / script steps while the same class fails
# ---------------------------------------------------------------------------

def _drop_customer(case, i):
    """Remove the customer at position i (0-based); ids stay the 1-based positions."""
    c = json.loads(json.dumps(case))
    del c["customers"][i]
    for pos, cu in enumerate(c["customers"]):
        cu[0] = pos + 1
    return c


def reductions(case):
    """One-step reductions of a case, most drastic first."""
    out = []

    def cp():
        return json.loads(json.dumps(case))
    if case["kind"] == "hist":
        for i in reversed(range(len(case["items"]))):
            if len(case["items"]) > 1:
                c = cp()
                del c["items"][i]
                out.append((f"drop call {i}", c))
        for i, it in enumerate(case["items"]):
            for label, red in reductions(it)[:12]:
                c = cp()
                c["items"][i] = red
                out.append((f"call {i}: {label}", c))
        return out
    if case["kind"] == "js":
        jobs = case["jobs"]
        for j in range(len(jobs)):
            if len(jobs) > 1:
                c = cp()
                del c["jobs"][j]
                out.append((f"drop job {j}", c))
        for j in range(len(jobs)):
            for k in reversed(range(len(jobs[j]))):
                if len(jobs[j]) > 1:
                    c = cp()
                    del c["jobs"][j][k]
                    out.append((f"drop op {j}.{k}", c))
        if case["max_iter"] > 1:
            c = cp()
            c["max_iter"] = case["max_iter"] // 2
            out.append(("halve max_iter", c))
        for j in range(len(jobs)):
            for k in range(len(jobs[j])):
                if jobs[j][k][1] > 1:
                    c = cp()
                    c["jobs"][j][k][1] = 1
                    out.append((f"duration {j}.{k} -> 1", c))
        return out
    if "script" in case:
        for t in reversed(range(len(case["script"]))):
            if len(case["script"]) > 1:
                c = cp()
                del c["script"][t]
                out.append((f"drop script step {t}", c))
    else:
        if case.get("direct"):
            c = cp()
            c["direct"] = []
            out.append(("drop direct calls", c))
        if case["max_iter"] > 1:
            c = cp()
            c["max_iter"] = case["max_iter"] // 2
            out.append(("halve max_iter", c))
    for i in reversed(range(len(case["customers"]))):
        if len(case["customers"]) > 1:
            out.append((f"drop customer {i + 1}", _drop_customer(case, i)))
    veh = case["vehicles"]
    if isinstance(veh, int) and veh > 1:
        c = cp()
        c["vehicles"] = veh - 1
        out.append(("drop a vehicle", c))
    elif not isinstance(veh, int):
        for v in reversed(range(len(veh))):
            if len(veh) > 1:
                c = cp()
                del c["vehicles"][v]
                out.append((f"drop vehicle at position {v}", c))
    if case.get("weights"):
        c = cp()
        c["weights"] = {}
        out.append(("default weights", c))
    if case.get("probes", 3) > 0:
        c = cp()
        c["probes"] = 0
        out.append(("no objective probes", c))
    for i, cu in enumerate(case["customers"]):
        if cu[7] > 1:
            c = cp()
            c["customers"][i][7] = 1
            out.append((f"customer {i + 1} single-vehicle", c))
    return out


def assess(cases, ctx=None, fresh=False):
    """Judge `cases`; returns per case its failures (function, class, what, replay dict) with the final class
    names.  A failure inside a history is first re-tried with that item alone in a fresh process: if it fails
    there too it is reported for the item alone, otherwise its class gets the suffix `:after_previous_call`
    and the replay is the whole history."""
    out = [[] for _ in cases]
    retry = []
    for ti, items in enumerate(eval_cases(cases, fresh)):
        for ii, res in items:
            b = _Buffer(ctx)
            judge(b, *res)
            if ii is not None and ctx is not None:
                ctx.count("hist:item")
            for f in b.fails:
                if ii is None:
                    out[ti].append(f)
                else:
                    retry.append((ti, ii, res[0], f))
        if cases[ti]["kind"] == "hist" and ctx is not None:
            ctx.count("hist:" + cases[ti].get("recipe", "?"))
    if retry:
        alone = eval_cases([it for _, _, it, _ in retry], fresh=True)
        for (ti, ii, it, (fn, klass, what, rep)), items in zip(retry, alone):
            b = _Buffer(None)
            judge(b, *items[0][1])
            same = [f for f in b.fails if f[0] == fn and f[1] == klass]
            if same:
                out[ti].append(same[0][:3] + ({**same[0][3], "found_in_history": cases[ti]},))
            else:
                out[ti].append((fn, klass + ":after_previous_call", f"item {ii} of a history of calls in one "
                                f"process (alone in a fresh process the same input passes): {what}",
                                {**rep, "case": cases[ti], "item": ii}))
    return out


def shrink(case, function, klass, max_rounds=40, seconds=25.0):
    """Greedy structural shrinking; a candidate is kept only if the *same* (function, class) still fails."""
    import time
    history, t0 = [], time.time()
    for _ in range(max_rounds):
        cands = reductions(case)[:48]
        if not cands or time.time() - t0 > seconds:
            break
        hit = None
        for (label, cand), fails in zip(cands, assess([c for _, c in cands], fresh=True)):
            if any(f == function and k == klass for f, k, _, _ in fails):
                hit = (label, cand)
                break
        if hit is None:
            break
        history.append(hit[0])
        case = hit[1]
    return case, history


def localise(cases, case, fail):
    """A failure of a plain case seen in a worker that had run other cases before.  Returns (case, fail) to
    report: unchanged if the case fails alone in a fresh process; else a two-call history (one of the cases
    preceding it, then it) that reproduces it, class suffix `:after_previous_call`; else the case with the
    suffix `:after_unknown_previous_calls`."""
    function, klass, what, rep = fail
    if any(f[0] == function and f[1] == klass for f in assess([case], fresh=True)[0]):
        return case, fail
    at = next((i for i, c in enumerate(cases) if c is case), 0)
    preds = [c for c in cases[max(0, at - 40):at] if c["kind"] != "hist" and not c.get("malformed")][-12:]
    cands = [{"kind": "hist", "recipe": "localised", "items": [p, case]} for p in reversed(preds)]
    for cand, fails in zip(cands, assess(cands, fresh=True)):
        hit = [f for f in fails if f[0] == function and f[1] == klass + ":after_previous_call"]
        if hit:
            return cand, hit[0]
    return case, (function, klass + ":after_unknown_previous_calls", "seen only in a worker process that had run "
                  "other cases before (alone in a fresh process, and after each of the 12 preceding cases, the "
                  "same input passes): " + what, rep)


def run_cases(ctx, cases, do_shrink=True):
    pending = []
    for case, fails in zip(cases, assess(cases, ctx)):
        pending += [(f[3].get("case", case) if case["kind"] == "hist" else case, f) for f in fails]
    reported = ctx.__dict__.setdefault("_c18_reported", set())
    for case, fail in pending:
        if ctx.known_match(fail[0], fail[1]) is not None:
            ctx.fail(*fail)
            continue
        if (fail[0], fail[1]) in reported:  # one (minimised) replay per failure class and run
            ctx.count(f"further_failures_same_class:{fail[0]}:{fail[1]}")
            continue
        reported.add((fail[0], fail[1]))
        if do_shrink and case["kind"] != "hist" and len(cases) > 1:
            case, fail = localise(cases, case, fail)
            if (fail[0], fail[1]) in reported and fail[1].endswith("_call"):
                ctx.count(f"further_failures_same_class:{fail[0]}:{fail[1]}")
                continue
            reported.add((fail[0], fail[1]))
        function, klass, what, rep = fail
        if do_shrink and len(ctx.violations) < 5 and not case.get("malformed") \
                and not klass.endswith(":after_unknown_previous_calls"):
            small, hist = shrink(case, function, klass)
            if hist:
                again = [f for f in assess([small], fresh=True)[0] if f[0] == function and f[1] == klass]
                if again:  # report the minimised input, with both outputs recomputed on it
                    _, _, what, rep = again[0]
                    rep = {**rep, "shrunk_from": case, "shrink_history": hist}
        ctx.fail(function, klass, what, rep)


def run(ctx, budget):
    ctx.cov["rule"] = RULE
    big = ctx.tier == "thorough"
    cases = list(js_edges()) + [c["case"] for c in core.load_corpus("C18")]
    js = [gen_js(ctx.rng, big and i % 3 == 0) for i in range(3000 * budget)]
    vrp = [gen_vrp(ctx.rng, big and i % 3 == 0) for i in range(2000 * budget)]
    hist = [gen_hist(ctx.rng, big) for i in range(400 * budget)]
    edge = [gen_edge(ctx.rng) for i in range(200 * budget)]
    large = [gen_js(ctx.rng, big, large=True) if i % 2 else gen_vrp(ctx.rng, big, large=True) for i in range(24 * budget)]
    cases += large[:12]  # a few large instances first (they are the slowest tasks)
    for i in range(1000 * budget):  # interleaved so that every batch (and the samples) holds all kinds
        cases += js[3 * i:3 * i + 3] + vrp[2 * i:2 * i + 2] + hist[2 * i // 5:(2 * i + 2) // 5] \
            + edge[i // 5:(i + 1) // 5] \
            + (large[12 + i // 80:13 + i // 80] if i % 80 == 0 else [])
    for i in range(0, len(cases), 2500):  # bounded memory: one batch of requests/replies at a time
        run_cases(ctx, cases[i:i + 2500])
    h = ctx.cov["histogram"]
    ctx.cov["cert_checked_impl"] = sum(v for k, v in h.items() if k.startswith("checked:"))
    ctx.cov["r_trace_agree"] = sum(v for k, v in h.items() if k.startswith("r_trace:"))
    ctx.cov["r_trace_diverge"] = sum(v for k, v in h.items() if k.startswith("r_trace_divergence:"))


def replay(ctx, body):
    ctx.cov["rule"] = RULE
    run_cases(ctx, [body["case"]], do_shrink=False)
