"""C04 — solve_milp answers (solvor/milp.py) against the certified exhaustive oracle `milpOracle`
and the verified feasibility checker `isFeasible` of Solvor/Lp."""
from __future__ import annotations

import json
import time
import warnings

import core
from core import Driver, rat
from pool import err_kind, run_pool
from props.lp_common import (CANDIDATE_SECONDS, LIMITS, RecCtx, enc_mat, enc_num, enc_point, enc_vec, finite,
                              lp_candidates, note_dropped, safe_run, shrink, write_min)

AREAS = ["Lp"]
LEVEL = "proof"
ASSUMPTIONS = [
    "solve_milp(heuristics=False) is mirrored step by step (Lp.Bnb.solveMilp: heap order on (bound, counter), "
    "_solve_node bound folding/substitution, _most_fractional, _detect_binary, warm start, solution_limit, "
    "max_nodes) over exact rationals; R_trace = full Result equality, excluded only when the mirror's own path "
    "contains a tie / a comparison within 1e-9 of a threshold AND the results differ; CPython's iteration order "
    "of a set of small non-negative ints is taken to be ascending",
    "all answers (every configuration) are judged against the certified exhaustive oracle (every integer "
    "assignment of a certified box, continuous remainder by the certifying simplex)",
    "rounding/LNS heuristics and RNG are outside Lean: their incumbents are judged by the verified isFeasible; "
    "solvor.milp._is_feasible itself is compared with the proved mirror on points around every default solution",
    "refinement hypothesis (every node LP answer is what B&B needs) is discharged per input: the mirror's `ok` "
    "flag = nodeCheck on every explored node with the exact certifying simplex (counted in the histogram)",
    "IEEE rounding of the node LPs is not modelled; gap: eps (1e-6) in isFeasible, gap_tol in the optimum test",
]
RULE = ("small MILPs with integer data in -5..9, 2-5 variables (6 thorough), every kind of integer subset "
        "(none/some/all), families binary-knapsack (explicit x<=1 rows), bounded general integer, covering "
        "(phase 1), implicit binary, parity-infeasible, relaxation-unbounded; both senses; each instance run "
        "under 6 configurations (default, heuristics off, LNS, warm start feasible/infeasible/wrong length and "
        "adversarial: one clause of _is_feasible violated in an objective-improving direction, "
        "solution_limit 2/5, small max_nodes, max_iter just above the largest single-node pivot count); families "
        "also scaled single-variable bound rows k x_j <= k (k of both signs) on every integer variable, and (thorough) "
        "large-tree knapsacks judged through the certified mirror; 7-10 variable binary problems with heuristics + LNS "
        "(lns_iterations 1/3/5, lns_destroy_frac 0.3/0.5/0.8) judged by the oracle / certified mirror, with "
        "_solve_sub_mip and _lns_improve also called directly; maximise-mixed-sign instances pre-screened with the "
        "mirror for an incumbent whose objective is the negated bound of its node; non-trivial = the default run explored >= 2 nodes; "
        "distinct by canonical (c, A, b, integers, minimize)")

MISSING = []   # Lp.Bnb mirror + refinement (bnb_mirror_refines / bnb_mirror_sound / solveMilp_sound) are proved; the
# rounding / LNS heuristics (heuristics=True) stay outside Lean by design: arbitrary candidates filtered by isFeasible

EPS = 1e-6
GAP_TOL = 1e-6
TOL_OBJ = 1e-7
MAX_BOX = 800


# ---------------------------------------------------------------------------
# generator
# ---------------------------------------------------------------------------

def gen_scaled(rng, n, minimize_hint):
    """every integer variable owns a single-variable row whose coefficient equals its right-hand side
    (k x_j <= k: x_j <= 1 for k > 0, x_j >= 1 for k < 0; k in {1, 2, 3, 0.5, -1, -2, -0.5}); a covering row with a
    fractional root relaxation makes the optimum need x_j >= 2 on the lower-bounded variables; a cap row bounds the
    box.  Only k = 1 rows are binary bounds for `_detect_binary`."""
    n = min(n, 4)
    if rng.random() < 0.5:
        # the relaxation stays inside [0,1] (lower-bounded variables at 1, a cheaper-per-unit upper-bounded variable
        # fractional) while the integer optimum needs a lower-bounded variable at 2: misreading `-x_j <= -1` (or any
        # scaled k x_j <= k) as a binary bound changes the answer
        for _ in range(50):
            nl = rng.randint(1, max(1, n - 1)); nu = n - nl
            if nu < 1:
                continue
            al = [rng.randint(2, 3) for _ in range(nl)]; cl = [rng.randint(4, 6) for _ in range(nl)]
            au = [a + rng.randint(1, 2) for a in (al * n)[:nu]]
            cu = [c0 + rng.randint(1, 2) for c0 in (cl * n)[:nu]]
            if all(cu[t] * al[0] < cl[0] * au[t] for t in range(nu)):
                break
        else:
            nl, nu, al, cl, au, cu = 1, n - 1, [2], [5], [3] * (n - 1), [6] * (n - 1)
        r_ = rng.randint(1, al[0])
        kl = [rng.choice([-1, -1, -2, -0.5]) for _ in range(nl)]
        ku = [rng.choice([1, 1, 2, 0.5]) for _ in range(nu)]
        a = al + au; c = cl + cu; ks = kl + ku
        A = [[ks[j] if t == j else 0 for t in range(n)] for j in range(n)]
        b = list(ks)
        A.insert(rng.randrange(n + 1), [-v for v in a]); b.insert(A.index([-v for v in a]), -(sum(al) + r_))
        A.append([1] * n); b.append(n + 3)
        perm = list(range(n)); rng.shuffle(perm)              # do not keep the L / U variables in a fixed order
        A = [[row[perm[t]] for t in range(n)] for row in A]; c = [c[perm[t]] for t in range(n)]
        return {"family": "scaled", "c": c, "A": A, "b": b, "integers": list(range(n)), "minimize": True}
    ints = list(range(n)) if rng.random() < 0.7 else sorted(rng.sample(range(n), max(1, n - 1)))
    style = rng.choice(["all_neg", "mixed", "mixed", "all_pos_scaled", "all_one"])
    A, b = [], []
    for j in ints:
        if style == "all_neg":
            k = rng.choice([-1, -1, -2, -0.5])
        elif style == "all_pos_scaled":
            k = rng.choice([2, 3, 0.5, 2])
        elif style == "all_one":
            k = 1
        else:
            k = rng.choice([-1, -1, 1, 2, -2, 0.5])
        A.append([k if t == j else 0 for t in range(n)]); b.append(k)
    a = [rng.randint(1, 4) for _ in range(n)]
    lo = sum(a[j] for j in range(n))
    d = lo + rng.randint(1, 2 * n)               # needs some x_j >= 2
    pos = rng.randrange(len(A) + 1)
    A.insert(pos, [-v for v in a]); b.insert(pos, -d)       # a.x >= d
    A.append([1] * n); b.append(rng.randint(n + 2, 2 * n + 4))   # cap
    c = [a[j] + rng.randint(1, 4) for j in range(n)]
    minimize = True
    if not minimize_hint:
        c = [-v for v in c]; minimize = False
    return {"family": "scaled", "c": c, "A": A, "b": b, "integers": ints, "minimize": minimize}


def gen_instance(rng, big):
    n = rng.randint(2, 6 if big else 5)
    fam = rng.choice(["knapsack", "general", "hard", "hard", "covering", "implicit", "parity", "unbounded", "mixed",
                      "scaled", "scaled"])
    if fam == "scaled":
        return gen_scaled(rng, n, minimize_hint=rng.random() < 0.7)
    r = rng.random()
    if r < 0.15:
        ints = list(range(n))
    elif r < 0.22:
        ints = []
    else:
        ints = [j for j in range(n) if rng.random() < 0.6]
    if fam in ("knapsack", "implicit", "parity") and not ints:
        ints = [rng.randrange(n)]
    A, b = [], []
    minimize = rng.random() < 0.5
    c = [rng.randint(-5, 9) for _ in range(n)]
    if fam == "knapsack":
        for _ in range(rng.randint(1, 3)):
            A.append([rng.randint(0, 9) for _ in range(n)])
            b.append(rng.randint(3, 20))
        for j in range(n):
            if j in ints or rng.random() < 0.5:
                A.append([1 if t == j else 0 for t in range(n)]); b.append(1)
        if rng.random() < 0.3 and len(ints) > 1:   # one explicit bound missing: binary detection must not fire
            k = next(i for i, row in enumerate(A) if sum(1 for v in row if v) == 1 and row[ints[0]] == 1)
            A.pop(k); b.pop(k)
            A.append([1] * n); b.append(rng.randint(1, 3))
        if rng.random() < 0.7:
            c = [abs(v) + 1 for v in c]; minimize = False
    elif fam == "hard":
        # correlated multi-row knapsack with general integer bounds: fractional LP optima, real branching
        if len(ints) < 2:
            ints = sorted(rng.sample(range(n), 2))
        k = rng.randint(1, 3)
        W = [[rng.randint(2, 9) for _ in range(n)] for _ in range(k)]
        ub = [rng.randint(1, 3) for _ in range(n)]
        for row in W:
            tot = sum(w * u for w, u in zip(row, ub))
            A.append(list(row)); b.append(rng.randint(max(1, tot // 4), max(2, (2 * tot) // 3)))
        for j in range(n):
            A.append([1 if t == j else 0 for t in range(n)]); b.append(ub[j])
        c = [max(1, W[0][j] + rng.randint(-2, 3)) for j in range(n)]
        minimize = False
        if rng.random() < 0.3:      # as a minimisation of the negated objective
            c = [-v for v in c]; minimize = True
    elif fam in ("general", "mixed"):
        for _ in range(rng.randint(1, 4)):
            A.append([rng.randint(-5, 9) if rng.random() < 0.8 else 0 for _ in range(n)])
            b.append(rng.randint(0, 20))
        for j in range(n):
            if j in ints or rng.random() < 0.7:
                A.append([1 if t == j else 0 for t in range(n)]); b.append(rng.randint(1, 4))
        if fam == "mixed" and rng.random() < 0.5:   # a fractional bound: x_j <= 2.5
            j = rng.randrange(n)
            A.append([2 if t == j else 0 for t in range(n)]); b.append(5)
    elif fam == "covering":
        for _ in range(rng.randint(1, 3)):      # sum a x >= d
            A.append([-rng.randint(0, 6) for _ in range(n)]); b.append(-rng.randint(1, 12))
        A.append([1] * n); b.append(rng.randint(2, 6))
        for j in ints:
            if rng.random() < 0.5:
                A.append([1 if t == j else 0 for t in range(n)]); b.append(rng.randint(1, 3))
        if rng.random() < 0.7:
            c = [abs(v) + 1 for v in c]; minimize = True
    elif fam == "implicit":
        A.append([1] * n); b.append(rng.randint(1, 2))
        for _ in range(rng.randint(0, 2)):
            A.append([rng.randint(-3, 6) for _ in range(n)]); b.append(rng.randint(1, 9))
    elif fam == "parity":
        j = ints[0]
        k = rng.choice([2, 2, 3])
        odd = rng.choice([1, 3, 5]) if k == 2 else rng.choice([1, 2, 4, 5])
        row = [k if t == j else 0 for t in range(n)]
        if rng.random() < 0.5 and n > 1:           # k*x_j + k*x_l = odd  with both integer when possible
            l = rng.choice([t for t in range(n) if t != j])
            row[l] = k
        A.append(row); b.append(odd)
        A.append([-v for v in row]); b.append(-odd)
        A.append([1] * n); b.append(rng.randint(3, 6))
    else:  # unbounded relaxation: a continuous (or integer) variable without an upper bound
        for _ in range(rng.randint(1, 2)):
            row = [rng.randint(-4, 5) for _ in range(n)]
            A.append(row); b.append(rng.randint(0, 10))
        j = rng.randrange(n)
        for row in A:
            row[j] = -abs(row[j])
        c[j] = -abs(c[j]) - 1 if minimize else abs(c[j]) + 1
        for t in ints:
            if t != j:
                A.append([1 if s == t else 0 for s in range(n)]); b.append(rng.randint(1, 3))
    if rng.random() < 0.1:
        A.append([0] * n); b.append(0)
    return {"family": fam, "c": c, "A": A, "b": b, "integers": ints, "minimize": minimize}


def gen_configs(rng):
    """the configurations one instance is run under; warm starts are built inside `impl` from the default
    run's solution (feasible), a shifted copy (infeasible) and a copy of the wrong length"""
    cfgs = [{}, {"heuristics": False}, {"warm": rng.choice(["adv_neg", "adv_neg", "adv_frac", "adv_row"]),
                                       "heuristics": rng.random() < 0.5}]
    pool = [
        {"warm": "adv_neg"}, {"warm": "adv_frac"}, {"warm": "adv_row"},
        {"lns_iterations": rng.choice([1, 3, 10]), "seed": rng.randint(0, 99)},
        {"warm": "feasible"},
        {"warm": "infeasible"},
        {"warm": "wrong_length"},
        {"warm": "feasible", "heuristics": False},
        {"solution_limit": rng.choice([2, 5])},
        {"solution_limit": rng.choice([2, 5]), "heuristics": False},
        {"max_nodes": rng.choice([0, 1, 3]), "heuristics": rng.random() < 0.5},
        {"lns_iterations": rng.choice([2, 5]), "seed": rng.randint(0, 99), "warm": "feasible"},
    ]
    rng.shuffle(pool)
    return cfgs + pool[:3]


def edge_cases():
    mk = lambda c, A, b, ints, mn, cfgs: {"family": "edge", "c": c, "A": A, "b": b, "integers": ints,
                                          "minimize": mn, "configs": cfgs}
    std = [{}, {"heuristics": False}, {"warm": "feasible"}, {"warm": "infeasible"}, {"warm": "wrong_length"},
           {"solution_limit": 3}, {"lns_iterations": 3, "seed": 1}]
    yield mk([10, 20, 15], [[3, 5, 4], [1, 0, 0], [0, 1, 0], [0, 0, 1]], [8, 1, 1, 1], [0, 1, 2], False,
             std + [{"max_nodes": 0, "heuristics": False}])       # feasible, but no node may be explored
    yield mk([1, 1], [[2, 2], [-2, -2]], [3, -3], [0, 1], True, std)         # 2x+2y = 3: integer infeasible
    yield mk([-1, -1], [[2, 2]], [3], [0, 1], True, std)                    # max x+y, 2x+2y <= 3 -> 1
    yield mk([1, 2, 3], [[1, 1, 1]], [1], [0, 1, 2], False, std)             # implicit binary
    yield mk([-1, 0], [[1, -1]], [1], [1], True, std)                       # relaxation unbounded
    yield mk([-5, -4], [[6, 4], [1, 2]], [24, 6], [0, 1], True, std)        # textbook: optimum -20 at (4,0)
    yield mk([1, 1], [[-2, -3], [1, 0], [0, 1]], [-7, 4, 4], [0], True, std)  # mixed, phase 1


# ---------------------------------------------------------------------------
# implementation side
# ---------------------------------------------------------------------------

def _res(r):
    sol = r.solution
    sols = r.solutions
    return {"status": r.status.name, "x": (list(sol) if sol is not None else None), "obj": r.objective,
            "nodes": r.iterations, "sols": ([list(s) for s in sols] if sols else [])}


def adversarial(kind, c, A, b, ints, minimize, x0):
    """An INFEASIBLE start that violates exactly one clause of `_is_feasible` by a clear margin and, among the
    candidates, has the best objective (so that accepting it changes the answer):
    adv_neg  one coordinate (continuous ones first) pushed below 0, rows and integrality still satisfied;
    adv_frac one integer coordinate moved off integrality by 0.25/0.5, rows and x >= 0 still satisfied;
    adv_row  one coordinate moved by an integer step so that some row is violated by >= 0.5, x >= 0 kept."""
    n = len(c)
    sgn = 1 if minimize else -1

    def lhs(x):
        return [sum(r[j] * x[j] for j in range(n)) for r in A]

    def rows_ok(x):
        return all(v <= bi + 1e-9 for v, bi in zip(lhs(x), b))

    def obj(x):
        return sgn * sum(c[j] * x[j] for j in range(n))

    cands = []
    order = [j for j in range(n) if j not in ints] + [j for j in range(n) if j in ints]

    def variants(x, j):
        """x itself and x with ONE other coordinate moved by an integer step (kept >= 0) to repair / improve"""
        yield x
        for k in range(n):
            if k == j:
                continue
            for t in (1.0, 2.0, 3.0, 4.0, -1.0, -2.0, -3.0):
                if x[k] + t >= 0:
                    y = list(x); y[k] = x[k] + t
                    yield y

    if kind == "adv_neg":
        for j in order:
            for d in ((1.0, 2.0, 3.0) if j in ints else (0.5, 1.0, 2.0, 4.0)):
                x = list(x0); x[j] = -d
                cands += [y for y in variants(x, j) if rows_ok(y)]
    elif kind == "adv_frac":
        for j in ints:
            for d in (0.5, -0.5, 0.25, -0.25):
                x = list(x0); x[j] = x0[j] + d
                if x[j] >= 0:
                    cands += [y for y in variants(x, j) if rows_ok(y)]
    elif kind == "adv_row":
        for j in order:
            for step in (1.0, -1.0, 2.0, -2.0, 3.0, 4.0):
                x = list(x0); x[j] = x0[j] + step
                if x[j] >= 0 and any(v > bi + 0.5 for v, bi in zip(lhs(x), b)):
                    cands.append(x)
    if not cands:
        return [v - 1.0 for v in x0]
    return min(cands, key=obj)


def filter_points(c, A, b, ints, minimize, x0, eps):
    """points on which `_is_feasible` itself is compared with the proved mirror: a (near-)feasible point, every
    single-clause violation, and points at eps/2 and 2 eps from each kind of boundary"""
    n = len(c)
    pts = [("base", list(x0))]
    for kind in ("adv_neg", "adv_frac", "adv_row"):
        pts.append((kind, adversarial(kind, c, A, b, ints, minimize, x0)))
    for j in range(n):
        for tag, d in (("in", eps / 2), ("out", 2 * eps)):
            x = list(x0); x[j] = -d
            pts.append((f"neg_{tag}", x))
    for j in ints:
        for tag, d in (("in", eps / 2), ("out", 2 * eps)):
            for sg in (1, -1):
                x = list(x0); x[j] = round(x0[j]) + sg * d
                if x[j] >= 0 or tag == "in":
                    pts.append((f"int_{tag}", x))
    cont = [j for j in range(n) if j not in ints]
    for i, row in enumerate(A):
        for j in cont:
            if row[j] != 0:
                for tag, d in (("in", eps / 2), ("out", 2 * eps)):
                    x = list(x0)
                    t = (b[i] + d - sum(row[k] * x0[k] for k in range(n))) / row[j]
                    x[j] = x0[j] + t
                    if x[j] >= 0:
                        pts.append((f"row_{tag}", x))
                break
    return pts[:40]


def detbin_sets(case):
    """row sets on which `solvor.milp._detect_binary` itself is compared with the mirror `detectBinary`:
    single-variable rows k x_j <= r on the integer variables with (k, r) = (1, 1), scaled (k, k) incl. negative k,
    sign flips, values at eps/2 and 2 eps from each threshold, a tiny second coefficient, a missing / duplicated
    bound – alone or on top of the instance's own rows"""
    import hashlib
    import random as _r
    seed = int(hashlib.sha1(json.dumps([case["c"], case["A"], case["b"], case["integers"]],
                                       default=str).encode()).hexdigest()[:8], 16)
    rng = _r.Random(seed)
    n = len(case["c"])
    ints = list(case["integers"]) or [0]
    e = EPS
    pats = [("one", 1, 1), ("k2", 2, 2), ("k3", 3, 3), ("khalf", 0.5, 0.5), ("kneg1", -1, -1), ("kneg2", -2, -2),
            ("flip_coef", -1, 1), ("flip_rhs", 1, -1), ("rhs_in", 1, 1 + e / 2), ("rhs_out", 1, 1 + 2 * e),
            ("rhs_in_lo", 1, 1 - e / 2), ("rhs_out_lo", 1, 1 - 2 * e), ("coef_in", 1 + e / 2, 1),
            ("coef_out", 1 + 2 * e, 1), ("coef_out_lo", 1 - 2 * e, 1), ("zero", 0, 1)]
    sets = []

    def build(label, choose, extra=None, with_base=False, drop=None, dup=False):
        A = [list(r) for r in case["A"]] if with_base else []
        b = list(case["b"]) if with_base else []
        for j in ints:
            if j == drop:
                continue
            k, r = choose(j)
            row = [0] * n
            row[j] = k
            if extra is not None and n > 1:
                row[(j + 1) % n] = extra
            A.append(row); b.append(r)
            if dup:
                A.append(list(row)); b.append(r)
        if not A:
            A, b = [[0] * n], [0]
        sets.append((label, A, b, ints, n))

    for name, k, r in pats:
        build(name, lambda j, k=k, r=r: (k, r), with_base=rng.random() < 0.4)
    build("missing", lambda j: (1, 1), drop=ints[-1])
    build("dup", lambda j: (1, 1), dup=True)
    build("tiny_in", lambda j: (1, 1), extra=e / 2)
    build("tiny_out", lambda j: (1, 1), extra=2 * e)
    for t in range(4):
        build(f"mixed{t}", lambda j: rng.choice(pats)[1:], with_base=rng.random() < 0.5)
    sets.append(("instance", [list(r) for r in case["A"]], list(case["b"]), list(case["integers"]), n))
    return sets


def measure_node_pivots(case):
    """largest `iterations` of a single `solve_lp` call during the implementation's own default heuristics=False
    run (observed by wrapping the module-level name `solvor.milp.solve_lp` for the duration of that call)"""
    import solvor.milp as mm
    seen = [0]
    orig = mm.solve_lp

    def rec(*a, **k):
        r = orig(*a, **k)
        seen[0] = max(seen[0], int(r.iterations))
        return r
    mm.solve_lp = rec
    try:
        mm.solve_milp(list(case["c"]), [list(r_) for r_ in case["A"]], list(case["b"]), list(case["integers"]),
                      minimize=case["minimize"], heuristics=False)
    except Exception:  # noqa: BLE001 - the measured run's own failures are judged elsewhere
        pass
    finally:
        mm.solve_lp = orig
    return seen[0]


def lns_component_points(case, base_x):
    """`_solve_sub_mip` and `_lns_improve` called directly on sub-problems around the default run's solution (when
    it is 0/1 on the integer variables): whatever they return as an incumbent goes to the proved filter"""
    import hashlib
    import random as _r
    pts = []
    ints = list(case["integers"])
    if base_x is None or len(ints) < 2:
        return pts
    x0 = [float(v) for v in base_x]
    if any(abs(x0[j] - round(x0[j])) > EPS or not (-EPS <= x0[j] <= 1 + EPS) for j in ints):
        return pts
    try:
        from solvor.milp import _lns_improve, _solve_sub_mip
    except ImportError:
        return pts
    seed = int(hashlib.sha1(json.dumps([case["c"], case["A"], case["b"], ints], default=str).encode())
               .hexdigest()[:8], 16)
    rng = _r.Random(seed)
    c, A, b = list(case["c"]), [list(r_) for r_ in case["A"]], list(case["b"])
    for _ in range(6):
        k = rng.randint(2, min(5, len(ints)))
        free = set(rng.sample(ints, k))
        try:
            cand = _solve_sub_mip(tuple(x0), c, A, b, set(ints), free, case["minimize"], EPS, DEFAULT_MAX_ITER)
        except Exception as e:  # noqa: BLE001
            pts.append(("raise:_solve_sub_mip", list(x0), f"{type(e).__name__}: {e}"))
            continue
        if cand is not None:
            pts.append(("incumbent:_solve_sub_mip", [float(v) for v in cand], True))
    for frac in (0.3, 0.5, 0.8):
        try:
            sol, _ = _lns_improve(tuple(x0), c, A, b, set(ints), case["minimize"], EPS, DEFAULT_MAX_ITER,
                                  3, frac, _r.Random(rng.randint(0, 999)))
        except Exception as e:  # noqa: BLE001
            pts.append(("raise:_lns_improve", list(x0), f"{type(e).__name__}: {e}"))
            continue
        if sol is not None:
            pts.append(("incumbent:_lns_improve", [float(v) for v in sol], True))
    return pts


def impl(case):
    warnings.simplefilter("ignore")
    from solvor.milp import solve_milp, _is_feasible, _detect_binary
    c, A, b, ints = case["c"], case["A"], case["b"], case["integers"]
    outs = []
    base_x = None
    k_impl = None
    for k, cfg in enumerate(case["configs"]):
        kw = {key: v for key, v in cfg.items() if key not in ("warm", "max_iter_auto")}
        if "max_iter_auto" in cfg:
            if k_impl is None:
                k_impl = measure_node_pivots(case)
            kw["max_iter"] = max(cfg["max_iter_auto"][0], k_impl) + 2 + cfg["max_iter_auto"][1]
        w = cfg.get("warm")
        if w is not None:
            x0 = list(base_x) if base_x is not None else [0.0] * len(c)
            if w == "infeasible":
                x0 = [v - 1.0 for v in x0]            # some coordinate becomes negative
            elif w == "wrong_length":
                x0 = x0 + [0.0]
            elif w.startswith("adv_"):
                x0 = adversarial(w, c, A, b, ints, case["minimize"], [float(v) for v in x0])
            kw["warm_start"] = x0
        try:
            r = _res(solve_milp(list(c), [list(r_) for r_ in A], list(b), list(ints), minimize=case["minimize"], **kw))
            r["warm_used"] = kw.get("warm_start")
            r["max_iter_used"] = kw.get("max_iter")
            if k == 0 and r["x"] is not None:
                base_x = r["x"]
            outs.append(("ok", r))
        except Exception as e:  # noqa: BLE001
            outs.append(("err", f"{type(e).__name__}: {e}"))
    # the filter itself (the property's anchored mechanism) on points around the default run's solution
    x0 = [float(v) for v in base_x] if base_x is not None else [0.0] * len(c)
    filt = []
    for label, x in filter_points(c, A, b, ints, case["minimize"], x0, EPS):
        try:
            v = bool(_is_feasible(tuple(x), [list(r_) for r_ in A], list(b), set(ints), EPS))
        except Exception as e:  # noqa: BLE001
            v = f"{type(e).__name__}: {e}"
        filt.append((label, x, v))
    filt += lns_component_points(case, base_x)
    det = []
    for label, A2, b2, ints2, n2 in detbin_sets(case):
        try:
            v = bool(_detect_binary([list(r_) for r_ in A2], list(b2), set(ints2), n2, EPS))
        except Exception as e:  # noqa: BLE001
            v = f"{type(e).__name__}: {e}"
        det.append((label, A2, b2, ints2, n2, v))
    return {"runs": outs, "filter": filt, "detbin": det}


DEFAULT_MAX_NODES = 100_000
DEFAULT_MAX_ITER = 10_000


def bnb_requests(case, out):
    """one mirror request per configuration run with heuristics=False (R_trace: full Result equality)"""
    reqs = []
    if out[0] != "ok":
        return reqs
    for k, (cfg, o) in enumerate(zip(case["configs"], out[1])):
        if cfg.get("heuristics", True) is not False or o[0] != "ok":
            continue
        warm = o[1].get("warm_used")
        reqs.append((k, ["bnb", enc_vec(case["c"]), enc_mat(case["A"]), enc_vec(case["b"]),
                         sorted(case["integers"]), bool(case["minimize"]), rat(EPS),
                         int(o[1].get("max_iter_used") or cfg.get("max_iter", DEFAULT_MAX_ITER)),
                         int(cfg.get("max_nodes", DEFAULT_MAX_NODES)), rat(GAP_TOL),
                         int(cfg.get("solution_limit", 1)), (enc_point(warm) if warm is not None else None)]))
    return reqs


def close(a, b, tol=1e-6):
    return abs(core.frac(a) - core.unrat(b)) <= core.frac(tol) * (1 + abs(core.unrat(b)))


def judge_trace(ctx, case, cfg, o, rp):
    """R_trace: the step-by-step mirror `solveMilp` returns the same Result as solve_milp(heuristics=False)."""
    fn = "solve_milp"
    r = o[1]
    st, x, obj, _nodes, sols, near, nodes_ok, _lp_it, neg_tie = rp
    if neg_tie:
        ctx.count("mirror_incumbent_at_negated_bound")
    # per-input discharge of the refinement theorem's hypothesis (every explored node LP certificate-checked)
    ctx.count("refinement_nodes_certified" if nodes_ok else "refinement_nodes_uncertified")
    same = st == r["status"]
    if same:
        if x is None or r["x"] is None:
            same = (x is None) == (r["x"] is None)
        else:
            same = len(x) == len(r["x"]) and all(finite(a) and close(a, b) for a, b in zip(r["x"], x))
    if same and obj is not None and finite(r["obj"]):
        same = close(r["obj"], obj)
    if same:
        same = len(sols) == len(r["sols"]) and all(
            len(a) == len(b) and all(close(u, v) for u, v in zip(a, b)) for a, b in zip(r["sols"], sols))
    # R_prop through the certified mirror: with every node LP certificate-checked (`nodes_ok`), solveMilp_sound makes
    # the mirror's INFEASIBLE / OPTIMAL value the truth for this input, whatever path the implementation took
    cut = "max_nodes" in cfg or cfg.get("solution_limit", 1) > 1
    if nodes_ok and not cut and st in ("OPTIMAL", "INFEASIBLE"):
        ctx.count("certified_by_mirror")
        rp2 = {"case": case, "config": cfg, "impl": {k: r[k] for k in ("status", "x", "obj")},
               "mirror": {"status": st, "obj": (obj and float(core.unrat(obj)))}}
        if st == "INFEASIBLE" and r["status"] in ("OPTIMAL", "FEASIBLE"):
            ctx.fail(fn, "solution_for_infeasible", f"[{cfg_name(cfg)}] {r['status']} although the certified mirror "
                     "proves that no integer-feasible point exists", rp2)
        elif st == "OPTIMAL" and r["status"] == "INFEASIBLE":
            ctx.fail(fn, "false_infeasible", f"[{cfg_name(cfg)}] INFEASIBLE, certified optimum "
                     f"{float(core.unrat(obj))}", rp2)
        elif st == "OPTIMAL" and r["status"] == "OPTIMAL" and finite(r["obj"]):
            sum_c = sum(abs(core.frac(v)) for v in case["c"])
            V = core.unrat(obj)
            tol = 2 * (core.frac(GAP_TOL) * (1 + abs(V)) + core.frac(EPS) * (1 + sum_c) + core.frac(TOL_OBJ))
            sgn = 1 if case["minimize"] else -1
            if sgn * (core.frac(r["obj"]) - V) > tol:
                ctx.fail(fn, "not_optimal", f"[{cfg_name(cfg)}] OPTIMAL with objective {r['obj']}, the certified "
                         f"mirror's optimum is {float(V)}", rp2)
    if same:
        ctx.count("r_trace_agree")
        if _nodes == r["nodes"]:
            ctx.count("r_trace_nodes_agree")
    elif near:
        ctx.count("r_trace_excluded_tie")   # a tie / comparison within 1e-9 of a threshold on the mirror's path
    else:
        ctx.tdiv(fn, {"case": {k: case[k] for k in ("c", "A", "b", "integers", "minimize")}, "config": cfg,
                      "impl": {k: r[k] for k in ("status", "x", "obj", "sols")},
                      "mirror": {"status": st, "x": (x and [float(core.unrat(v)) for v in x]),
                                 "obj": (obj and float(core.unrat(obj))), "n_sols": len(sols)}})


def to_request(case, out, filt=None):
    impls = []
    if out[0] == "ok":
        for o in out[1]:
            if o[0] == "ok":
                r = o[1]
                sols = [enc_point(s) for s in r["sols"]]
                impls.append([r["status"], enc_point(r["x"]), enc_num(r["obj"]), [s for s in sols if s is not None]])
            else:
                impls.append(["ERROR", None, None, []])
    pts = [enc_point(x) for _, x, _ in (filt or [])]
    return ["milp", enc_vec(case["c"]), enc_mat(case["A"]), enc_vec(case["b"]), list(case["integers"]),
            bool(case["minimize"]), rat(EPS), rat(TOL_OBJ), int(case.get("max_box", MAX_BOX)), impls,
            [p_ for p_ in pts if p_ is not None]]


# ---------------------------------------------------------------------------
# comparison
# ---------------------------------------------------------------------------

def cfg_name(cfg):
    return ",".join(f"{k}={v}" for k, v in sorted(cfg.items())) or "default"


CLAUSE = {1: "nonneg", 2: "integrality", 3: "row"}


def judge_filter(ctx, case, filt, verdicts):
    """`solvor.milp._is_feasible` against the proved mirror `isFeasible` (isFeasible_iff)."""
    fn = "_is_feasible"
    pts = [(lab, x, v) for lab, x, v in filt if enc_point(x) is not None]
    for (lab, x, v), (lo, mid, hi, clause) in zip(pts, verdicts):
        ctx.count("filter_points")
        rp = {"case": {k: case[k] for k in ("c", "A", "b", "integers", "minimize")}, "point": x, "label": lab,
              "impl": v, "mirror": [lo, mid, hi, clause]}
        if lab.startswith("incumbent:"):
            # a point an LNS component returned as an incumbent: it must pass the proved filter
            ctx.count("heuristic_incumbents_checked")
            if lo == mid == hi and not mid:
                ctx.fail(lab.split(":")[1], "returns_infeasible_incumbent:" + CLAUSE.get(clause, "?"),
                         f"{lab.split(':')[1]} returned {x} as an incumbent; it violates the {CLAUSE.get(clause)} "
                         "clause of the proved isFeasible", rp)
            continue
        if not isinstance(v, bool):
            ctx.fail(fn, "raises:" + str(v).split(":", 1)[0], f"_is_feasible raised on {x}: {v}", rp)
            continue
        if not (lo == mid == hi):
            ctx.count("filter_boundary_skipped")     # within 0.1 % of eps of a boundary: rounding decides
            continue
        if v == mid:
            ctx.count("filter_agree:" + ("accept" if v else "reject"))
        elif v:
            ctx.fail(fn, "is_feasible_accepts_infeasible:" + CLAUSE.get(clause, "?"),
                     f"_is_feasible accepted {x} [{lab}] although it violates the {CLAUSE.get(clause)} clause "
                     f"by more than eps", rp)
        else:
            ctx.fail(fn, "rejects_feasible", f"_is_feasible rejected {x} [{lab}] which satisfies every clause "
                     "within eps", rp)


def judge_detbin(ctx, case, det, verdicts):
    """`solvor.milp._detect_binary` against the mirror `detectBinary` (the function binary_tightening_sound is about)"""
    fn = "_detect_binary"
    for (label, A2, b2, ints2, n2, v), (lo, mid, hi) in zip(det, verdicts):
        ctx.count("detbin_sets")
        rp = {"case": case, "rows": {"A": A2, "b": b2, "integers": ints2, "n": n2}, "label": label, "impl": v,
              "mirror": [lo, mid, hi]}
        if not isinstance(v, bool):
            ctx.fail(fn, "raises:" + str(v).split(":", 1)[0], f"_detect_binary raised on [{label}]: {v}", rp)
        elif not (lo == mid == hi):
            ctx.count("detbin_boundary_skipped")
        elif v == mid:
            ctx.count("detbin_agree:" + ("binary" if v else "not_binary"))
        elif v:
            ctx.fail(fn, "detect_binary_accepts:" + label.rstrip("0123456789"),
                     f"_detect_binary reads rows [{label}] {A2} <= {b2} as explicit x_j <= 1 bounds of {ints2}; they are "
                     "not (mirror detectBinary, for which binary_tightening_sound is proved, rejects them)", rp)
        else:
            ctx.fail(fn, "detect_binary_rejects:" + label.rstrip("0123456789"),
                     f"_detect_binary rejects rows [{label}] that are explicit x_j <= 1 bounds of {ints2}", rp)


def judge(ctx, case, out, reply, cert=None):
    """`cert` = (status, objective) of the mirror's plain heuristics=False run when every node LP of it passed
    nodeCheck (solveMilp_sound makes it the truth for this input); used when the exhaustive oracle's box is too big"""
    fn = "solve_milp"
    rep = {"case": case, "impl": out, "model": reply}
    if out[0] != "ok":
        ctx.fail(fn, "raises:" + err_kind(out), f"harness worker failed/timed out: {out[1]}", rep)
        return
    relax, oracle, checks, _filt = reply
    r_verdict, r_ok = relax
    kind, val, _pt, box = oracle
    if kind == "FAIL" or not r_ok:
        raise core.Infra(f"oracle produced no valid certificate for {case}")
    if kind in ("TOOBIG", "NOBOX") and cert is not None and cert[0] in ("OPTIMAL", "INFEASIBLE"):
        kind, val = cert[0], cert[1]
        oracle = [kind, val, None, "certified mirror (solveMilp_sound)"]
        ctx.count("oracle_by_certified_mirror")
    ctx.count("oracle:" + kind)
    ctx.count("family:" + case["family"])
    ctx.count("relaxation:" + r_verdict)
    ctx.count("ints:" + ("none" if not case["integers"] else "all" if len(case["integers"]) == len(case["c"]) else "some"))
    sgn = 1 if case["minimize"] else -1
    V = core.unrat(val) if val is not None else None
    sum_c = sum(abs(core.frac(v)) for v in case["c"])
    full = []  # (cfg, status, obj) of runs without cut-offs, for the cross-configuration clause
    for cfg, o, ck in zip(case["configs"], out[1], checks):
        name = cfg_name(cfg)
        for k in cfg:
            ctx.count("cfg:" + k + ("=" + str(cfg[k]) if k in ("warm", "heuristics") else ""))
        rp = {"case": case, "config": cfg, "impl": o, "oracle": oracle, "relaxation": relax}
        if o[0] != "ok":
            ctx.fail(fn, "raises:" + o[1].split(":", 1)[0], f"[{name}] raised: {o[1]}", rp)
            continue
        r = o[1]
        st = r["status"]
        ctx.count("status:" + st)
        cut = "max_nodes" in cfg
        limit = cfg.get("solution_limit", 1) > 1
        feas, obj_ok, sols_ok = ck
        if st in ("OPTIMAL", "FEASIBLE"):
            ctx.cov["cert_checked_impl"] = ctx.cov.get("cert_checked_impl", 0) + 1
            if r["x"] is None or feas is None:
                ctx.fail(fn, "ok_without_point", f"[{name}] {st} without a finite solution", rp)
                continue
            if not feas:
                ctx.fail(fn, "infeasible_point", f"[{name}] returned point is not integer-feasible (isFeasible, eps {EPS})", rp)
            if not obj_ok:
                ctx.fail(fn, "objective_mismatch", f"[{name}] |c.x - objective| > {TOL_OBJ}", rp)
        if not all(sols_ok):
            ctx.fail(fn, "infeasible_in_solutions", f"[{name}] an entry of Result.solutions is not integer-feasible", rp)
        if st == "UNBOUNDED":
            if r_verdict != "UNBOUNDED":
                ctx.fail(fn, "false_unbounded", f"[{name}] UNBOUNDED but the relaxation is certified {r_verdict}", rp)
            continue
        if st == "MAX_ITER" and cut:
            continue   # node limit reached without an incumbent: no verdict claimed
        if st not in ("OPTIMAL", "FEASIBLE", "INFEASIBLE"):
            ctx.fail(fn, "bad_status", f"[{name}] unexpected status {st}", rp)
            continue
        obj = core.frac(r["obj"]) if finite(r["obj"]) else None
        if kind == "OPTIMAL":
            tol = core.frac(GAP_TOL) * (1 + abs(V)) + core.frac(EPS) * (1 + sum_c) + core.frac(TOL_OBJ)
            if st == "INFEASIBLE":
                klass = "false_infeasible:max_nodes" if cut else "false_infeasible"
                ctx.fail(fn, klass, f"[{name}] INFEASIBLE but the certified oracle has an integer-feasible point "
                         f"(optimum {float(V)})", rp)
            elif obj is not None:
                if sgn * (obj - V) < -tol:
                    ctx.fail(fn, "better_than_optimum", f"[{name}] objective {r['obj']} beats the certified optimum "
                             f"{float(V)}", rp)
                if st == "OPTIMAL" and sgn * (obj - V) > tol:
                    ctx.fail(fn, "not_optimal", f"[{name}] OPTIMAL with objective {r['obj']}, certified optimum "
                             f"{float(V)}", rp)
        elif kind == "INFEASIBLE":
            if st != "INFEASIBLE":
                ctx.fail(fn, "solution_for_infeasible", f"[{name}] {st} although no integer-feasible point exists", rp)
        elif kind == "UNBOUNDED":
            # the MILP is unbounded, hence so is its relaxation: solve_milp must have said UNBOUNDED
            ctx.fail(fn, "missed_unbounded", f"[{name}] {st} on a certified unbounded MILP", rp)
        if not cut and not limit:
            full.append((name, st, obj))
    # same verdict / value under every configuration (covers NOBOX / TOOBIG instances too)
    if full:
        n0, s0, o0 = full[0]
        for name, st, obj in full[1:]:
            if st != s0:
                ctx.fail(fn, "config_dependent_verdict", f"status {s0} [{n0}] vs {st} [{name}]",
                         {"case": case, "impl": out, "oracle": oracle})
            elif st == "OPTIMAL" and obj is not None and o0 is not None:
                tol = core.frac(GAP_TOL) * (1 + abs(o0)) + core.frac(EPS) * (1 + sum_c) + core.frac(TOL_OBJ)
                if abs(obj - o0) > 2 * tol:
                    ctx.fail(fn, "config_dependent_value", f"OPTIMAL {float(o0)} [{n0}] vs {float(obj)} [{name}]",
                             {"case": case, "impl": out, "oracle": oracle})
    ctx.cov["cert_checked_model"] = ctx.cov.get("cert_checked_model", 0) + 1
    if kind in ("NOBOX", "TOOBIG"):
        ctx.cov["excluded_region_hits"] = ctx.cov.get("excluded_region_hits", 0) + 1
    base = out[1][0]
    nodes = base[1]["nodes"] if base[0] == "ok" else 0
    canon = [case["c"], case["A"], case["b"], case["integers"], case["minimize"]]
    ctx.case(canon, nodes >= 2, {"case": {k: case[k] for k in ("c", "A", "b", "integers", "minimize")},
                                 "default_run": base, "oracle": [kind, (str(V) if V is not None else None), box]})


def run_cases(ctx, cases, shrink_mode=False):
    """Runs the implementation (worker pool, per-case wall-clock limit) and the model (driver processes with a
    timeout; batches that time out are retried in small pieces, then dropped with a note) on `cases` and judges them.
    Returns the list of (function, class, case) that failed.  `shrink_mode`: candidates of the shrinker – 5 s per
    candidate for the implementation and for the model, small mirror node cap, small oracle box."""
    lim = LIMITS[getattr(ctx, "tier", "quick")]
    pool_t = CANDIDATE_SECONDS if shrink_mode else lim["pool"]
    node_cap = 2000 if shrink_mode else lim["mirror_nodes"]
    raw = run_pool(impl, cases, timeout=pool_t)
    outs = [("ok", o[1]["runs"]) if o[0] == "ok" else o for o in raw]
    filts = [o[1]["filter"] if o[0] == "ok" else [] for o in raw]
    dets = [o[1]["detbin"] if o[0] == "ok" else [] for o in raw]
    reqs, owner = [], []
    for ci, (c, o) in enumerate(zip(cases, outs)):
        rq = to_request(c, o, filts[ci])
        if shrink_mode:
            rq[8] = 500            # oracle box limit
        reqs.append(rq); owner.append((ci, None))
        if dets[ci] and not shrink_mode:
            reqs.append(["detbin", rat(EPS), [[enc_mat(A2), enc_vec(b2), list(i2), n2]
                                              for _, A2, b2, i2, n2, _ in dets[ci]]])
            owner.append((ci, "detbin"))
        for k, rq in bnb_requests(c, o):
            rq[8] = min(rq[8], node_cap)      # mirror max_nodes: the mirror's cost stays bounded
            reqs.append(rq); owner.append((ci, k))
    if shrink_mode:
        parts = {}
        for i, (ci, _) in enumerate(owner):
            parts.setdefault(ci, []).append(i)
        replies, dropped = safe_run(reqs, CANDIDATE_SECONDS, parts=list(parts.values()), retry=False)
    else:
        replies, dropped = safe_run(reqs, lim["drv"])
        note_dropped(ctx, dropped, "C04")
    failed = []
    orig_fail = ctx.fail
    lost = {ci for (ci, k), rp in zip(owner, replies) if rp is None and k is None}
    # the mirror's plain heuristics=False run as a second, certified oracle (solveMilp_sound)
    certs = {}
    for (ci, k), rp in zip(owner, replies):
        if rp is None or k in (None, "detbin") or rp[0] == "error":
            continue
        cfg = cases[ci]["configs"][k]
        if cfg == {"heuristics": False} and rp[6] and not (rp[3] >= node_cap):
            certs[ci] = (rp[0], rp[2])
    for (ci, k), rp in zip(owner, replies):
        c, o = cases[ci], outs[ci]
        if rp is None or ci in lost:
            continue                           # no model answer within the time limit: no verdict on this case
        if rp and rp[0] == "error":
            if shrink_mode:
                continue
            raise core.Infra(f"model rejected request: {rp} for {c}")

        def rec(function, klass, what, replay, no_input=False, _c=c):
            failed.append((function, klass, _c))
            return orig_fail(function, klass, what, replay, no_input)
        ctx.fail = rec
        try:
            if k is None:
                judge(ctx, c, o, rp, certs.get(ci))
                judge_filter(ctx, c, filts[ci], rp[3])
            elif k == "detbin":
                judge_detbin(ctx, c, dets[ci], rp)
            elif rp[3] >= node_cap and int(c["configs"][k].get("max_nodes", DEFAULT_MAX_NODES)) > node_cap:
                ctx.count("mirror_node_cap_reached")     # the mirror was cut off: no R_trace on this run
            else:
                judge_trace(ctx, c, c["configs"][k], o[1][k], rp)
        finally:
            ctx.fail = orig_fail
    return failed


def milp_candidates(case):
    """drop configurations (the default run stays: warm starts are derived from it), then rows/columns/numbers"""
    import copy
    cfgs = case["configs"]
    if len(cfgs) > 2:
        for k in range(1, len(cfgs)):
            c2 = copy.deepcopy(case)
            del c2["configs"][k]
            yield f"drop config {k}", c2
    yield from lp_candidates(case, int_key="integers")


def fails_batch(target, tier):
    def run(cands):
        rc = RecCtx(tier)
        try:
            failed = run_cases(rc, cands, shrink_mode=True)
        except Exception:  # noqa: BLE001 - a batch that cannot be evaluated keeps nothing
            failed = []
        return [any(f == target[0] and k == target[1] and c is cand for f, k, c in failed) for cand in cands]
    return run


def shrink_failures(ctx, failed, limit=2):
    """minimise the first failing input of at most `limit` distinct (function, class) pairs within the run's
    shrink budget (LIMITS[tier]['shrink_total'] seconds in all)"""
    deadline = time.time() + LIMITS[ctx.tier]["shrink_total"]
    seen = set()
    for function, klass, case in failed:
        if (function, klass) in seen or len(seen) >= limit or time.time() > deadline:
            continue
        seen.add((function, klass))
        small, hist = shrink(case, milp_candidates, fails_batch((function, klass), ctx.tier), max_rounds=60,
                             max_seconds=LIMITS[ctx.tier]["shrink_total"] / 2, deadline=deadline)
        write_min(ctx, "C04", function, klass, small, hist)


def gen_lns_instance(rng):
    """7-10 binary variables with explicit x_j <= 1 rows (knapsack / covering like): heuristics ON with LNS, where
    `_solve_sub_mip` gets >= 2 unfixed integer variables per pass; judged by R_prop only (the heuristics are not
    mirrored): the exhaustive oracle up to 2^7, beyond that the certified mirror of the heuristics=False run"""
    n = rng.randint(7, 10)
    k = rng.randint(1, 3)
    A, b = [], []
    if rng.random() < 0.7:
        W = [[rng.randint(2, 9) for _ in range(n)] for _ in range(k)]
        for row in W:
            A.append(list(row)); b.append(rng.randint(sum(row) // 3, (2 * sum(row)) // 3))
        c = [max(1, W[0][j] + rng.randint(-2, 3)) for j in range(n)]
        minimize = False
    else:
        W = [[rng.randint(0, 6) for _ in range(n)] for _ in range(k)]
        for row in W:
            A.append([-v for v in row]); b.append(-rng.randint(max(1, sum(row) // 4), max(2, sum(row) // 2)))
        c = [rng.randint(1, 9) for _ in range(n)]
        minimize = True
    for j in range(n):
        A.append([1 if t == j else 0 for t in range(n)]); b.append(1)
    cfgs = [{}, {"heuristics": False}]
    for _ in range(4):
        cfgs.append({"lns_iterations": rng.choice([1, 3, 5]), "lns_destroy_frac": rng.choice([0.3, 0.5, 0.8]),
                     "seed": rng.randint(0, 999)})
    if rng.random() < 0.5:
        cfgs.append({"lns_iterations": 3, "lns_destroy_frac": 0.5, "seed": rng.randint(0, 999), "warm": "feasible"})
    return {"family": "lns", "c": c, "A": A, "b": b, "integers": list(range(n)), "minimize": minimize,
            "configs": cfgs, "max_box": 130}


def gen_signslip_candidate(rng):
    """maximise a MIXED-SIGN objective over 2-3 bounded variables with small mixed-sign rows: objective values of both
    signs are reachable at different nodes"""
    n = rng.choice([2, 2, 3])
    c = [rng.randint(-4, 4) for _ in range(n)]
    if not (any(v > 0 for v in c) and any(v < 0 for v in c)):
        c[0] = -rng.randint(1, 3); c[1] = rng.randint(1, 4)
    A, b = [], []
    for _ in range(rng.randint(1, 3)):
        A.append([rng.randint(-3, 3) for _ in range(n)]); b.append(rng.randint(-3, 4))
    for j in range(n):
        A.append([1 if t == j else 0 for t in range(n)]); b.append(rng.randint(1, 3))
    ints = list(range(n)) if rng.random() < 0.8 else sorted(rng.sample(range(n), n - 1))
    return {"family": "signslip", "c": c, "A": A, "b": b, "integers": ints, "minimize": False}


def gen_signslip_cases(ctx, tries, want):
    """targeted at the early `gap < gap_tol` exit: candidates are pre-screened with the Bnb mirror (cheap) and kept
    when a new incumbent's objective is non-zero and equals the NEGATED bound of its node (monitor `negTie`) – where
    forgetting to convert the sign-adjusted bound back reads the gap as closed"""
    cands = [gen_signslip_candidate(ctx.rng) for _ in range(tries)]
    reqs = [["bnb", enc_vec(c["c"]), enc_mat(c["A"]), enc_vec(c["b"]), sorted(c["integers"]), False, rat(EPS),
             DEFAULT_MAX_ITER, 2000, rat(GAP_TOL), 1, None] for c in cands]
    replies, dropped = safe_run(reqs, LIMITS[ctx.tier]["drv"])
    note_dropped(ctx, dropped, "C04 sign-slip pre-screen")
    keep = []
    for c, rp in zip(cands, replies):
        if rp is None or rp[0] == "error":
            continue
        if rp[8]:
            c["configs"] = [{}, {"heuristics": False}, {"lns_iterations": 3, "seed": 1}, {"warm": "feasible"}]
            keep.append(c)
    return keep[:want]


def gen_big_knapsack(rng):
    """large-tree 0/1 knapsack (strongly correlated): thousands of node LPs, > 10000 simplex pivots in total with the
    default max_iter; too big for the exhaustive oracle, judged through the certified mirror"""
    n = 16
    w = [rng.randint(20, 60) for _ in range(n)]
    c = [v + 10 for v in w]
    A = [list(w)] + [[1 if t == j else 0 for t in range(n)] for j in range(n)]
    b = [sum(w) // 2 + rng.randint(0, 3)] + [1] * n
    return {"family": "big_knapsack", "c": c, "A": A, "b": b, "integers": list(range(n)), "minimize": False,
            "configs": [{"heuristics": False}, {"heuristics": False, "max_iter": 3000}, {}]}


def add_max_iter_configs(ctx, cases):
    """sweep `max_iter`: the mirror measures the largest pivot count of a single node LP of its default
    heuristics=False run, the worker measures the same on the implementation's own run (the two paths can differ at
    ties); the configuration gets the larger of the two + 2 (phase 1 and phase 2 each need one extra pass to notice
    optimality) + a small margin, so the unchanged code still solves every node LP while any budget shared across
    nodes runs dry after a few of them"""
    reqs = [["bnb", enc_vec(c["c"]), enc_mat(c["A"]), enc_vec(c["b"]), sorted(c["integers"]), bool(c["minimize"]),
             rat(EPS), DEFAULT_MAX_ITER, DEFAULT_MAX_NODES, rat(GAP_TOL), 1, None] for c in cases]
    for rq in reqs:
        rq[8] = LIMITS[ctx.tier]["mirror_nodes"]
    replies, dropped = safe_run(reqs, LIMITS[ctx.tier]["drv"])
    note_dropped(ctx, dropped, "C04 max_iter pre-pass")
    for c, rp in zip(cases, replies):
        if rp is None:
            continue
        if rp and rp[0] == "error":
            raise core.Infra(f"model rejected request: {rp} for {c}")
        nodes, lp_it = rp[3], rp[7]
        if nodes >= 3 and ctx.rng.random() < 0.6:
            c["configs"].append({"max_iter_auto": [lp_it, ctx.rng.choice([0, 1, 3])], "heuristics": False})
            if ctx.rng.random() < 0.3:
                c["configs"].append({"max_iter_auto": [lp_it, ctx.rng.choice([0, 2])], "heuristics": False,
                                     "warm": "feasible"})


def run(ctx, budget):
    ctx.cov["rule"] = RULE
    ctx.cov["missing_theorems"] = MISSING
    cases = list(edge_cases()) + [c["case"] for c in core.load_corpus("C04")]
    n = 500 * budget
    fresh = []
    for i in range(n):
        inst = gen_instance(ctx.rng, big=(ctx.tier == "thorough" and i % 3 == 0))
        inst["configs"] = gen_configs(ctx.rng)
        fresh.append(inst)
    add_max_iter_configs(ctx, fresh)
    cases += fresh
    cases += [gen_lns_instance(ctx.rng) for _ in range(60 * budget)]
    cases += gen_signslip_cases(ctx, tries=(40000 if budget == 1 else 10000 * budget), want=60 * budget)
    if ctx.tier == "thorough":
        for t in range(3):       # spread over the request list so that they land in different driver processes
            cases.insert((t * len(cases)) // 3, gen_big_knapsack(ctx.rng))
    # slices: after the first slice with a confirmed failure (and its shrink) the rest of the generated cases is not
    # run, so that a violating run ends quickly; a clean run goes through all slices
    k = LIMITS[ctx.tier]["slices"]
    size = (len(cases) + k - 1) // k
    ctx.rng.shuffle(cases)          # every slice sees every family
    for t in range(k):
        part = cases[t * size:(t + 1) * size]
        if not part:
            continue
        failed = run_cases(ctx, part)
        if failed:
            if not getattr(ctx, "seed_shift", 0):
                shrink_failures(ctx, failed)
            if t + 1 < k:
                ctx.notes.append(f"stopped after slice {t + 1}/{k}: a failure was confirmed, the remaining "
                                 f"{len(cases) - (t + 1) * size} generated cases were not run")
            break


def replay(ctx, body):
    ctx.cov["rule"] = RULE
    failed = run_cases(ctx, [body["case"]])
    if failed and not body.get("minimised"):
        shrink_failures(ctx, failed)
