"""Shared helpers for the Flow checks (C08, C09): label styles, ordered-graph cases, index maps."""
from __future__ import annotations


def label_maker(rng, n):
    """n distinct node labels: ints, shifted ints, strings or a mix (never 0/1 vs False/True clashes)."""
    style = rng.choice(["int", "int", "shift", "str", "mixed", "word"])
    if style == "int":
        labs = list(range(n))
    elif style == "shift":
        off = rng.choice([1, 7, 100, -3])
        labs = [i + off for i in range(n)]
    elif style == "str":
        labs = [f"n{i}" for i in range(n)]
    elif style == "word":
        words = ["s", "t", "a", "b", "c", "d", "e", "f", "g", "h", "u", "v", "w", "x", "y", "z"]
        rng.shuffle(words)
        labs = words[:n] if n <= len(words) else [f"n{i}" for i in range(n)]
    else:
        labs = [(f"k{i}" if rng.random() < 0.5 else i + 20) for i in range(n)]
    if rng.random() < 0.5:
        rng.shuffle(labs)
    return labs


def graph_dict(case_graph):
    """ordered [[u, [[v, cap, ...], ...]], ...] -> dict preserving order (tuples as the API documents)."""
    g = {}
    for u, lst in case_graph:
        g.setdefault(u, [])
        g[u].extend(tuple(a) for a in lst)
    return g


def index_map(case_graph, extra=()):
    """labels in order of first appearance -> index"""
    idx = {}
    for x in extra:
        idx.setdefault(x, len(idx))
    for u, lst in case_graph:
        idx.setdefault(u, len(idx))
        for a in lst:
            idx.setdefault(a[0], len(idx))
    return idx


def arcs_in_order(case_graph, idx, with_cost=False):
    """arcs in the order `for u in graph: for v, cap, ... in graph[u]` (dict semantics: a key that
    occurs twice in the ordered list keeps its first position, lists concatenated)."""
    g = graph_dict(case_graph)
    out = []
    for u, lst in g.items():
        for a in lst:
            if with_cost:
                out.append([idx[u], idx[a[0]], int(a[1]), int(a[2])])
            else:
                out.append([idx[u], idx[a[0]], int(a[1])])
    return out


def integral(x):
    """int value of an integral int/float, else None"""
    if isinstance(x, bool):
        return None
    if isinstance(x, int):
        return x
    if isinstance(x, float) and x == x and x not in (float("inf"), float("-inf")) and x == int(x):
        return int(x)
    return None
