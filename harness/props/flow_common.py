"""Shared helpers for the Flow checks (C08, C09): label styles, ordered-graph cases, index maps."""
from __future__ import annotations


def label_maker(rng, n):
    """n distinct node labels: ints, shifted ints, strings or a mix (never 0/1 vs False/True clashes)."""
    style = rng.choice(["int", "int", "shift", "str", "mixed", "word"])
    if style == "int":
        labs = list(range(n))
    elif style == "shift":
        off = rng.choice([1, 7, 100, -3])
        labs = [i + off for i in range(n)]
    elif style == "str":
        labs = [f"n{i}" for i in range(n)]
    elif style == "word":
        words = ["s", "t", "a", "b", "c", "d", "e", "f", "g", "h", "u", "v", "w", "x", "y", "z"]
        rng.shuffle(words)
        labs = words[:n] if n <= len(words) else [f"n{i}" for i in range(n)]
    else:
        labs = [(f"k{i}" if rng.random() < 0.5 else i + 20) for i in range(n)]
    if rng.random() < 0.5:
        rng.shuffle(labs)
    return labs


def graph_dict(case_graph):
    """ordered [[u, [[v, cap, ...], ...]], ...] -> dict preserving order (tuples as the API documents)."""
    g = {}
    for u, lst in case_graph:
        g.setdefault(u, [])
        g[u].extend(tuple(a) for a in lst)
    return g


def index_map(case_graph, extra=()):
    """labels in order of first appearance -> index"""
    idx = {}
    for x in extra:
        idx.setdefault(x, len(idx))
    for u, lst in case_graph:
        idx.setdefault(u, len(idx))
        for a in lst:
            idx.setdefault(a[0], len(idx))
    return idx


def arcs_in_order(case_graph, idx, with_cost=False):
    """arcs in the order `for u in graph: for v, cap, ... in graph[u]` (dict semantics: a key that
    occurs twice in the ordered list keeps its first position, lists concatenated)."""
    g = graph_dict(case_graph)
    out = []
    for u, lst in g.items():
        for a in lst:
            if with_cost:
                out.append([idx[u], idx[a[0]], int(a[1]), int(a[2])])
            else:
                out.append([idx[u], idx[a[0]], int(a[1])])
    return out


def integral(x):
    """int value of an integral int/float, else None"""
    if isinstance(x, bool):
        return None
    if isinstance(x, int):
        return x
    if isinstance(x, float) and x == x and x not in (float("inf"), float("-inf")) and x == int(x):
        return int(x)
    return None


# ---------------------------------------------------------------------------
# collecting R_prop failures so that they can be shrunk before they are reported
# ---------------------------------------------------------------------------

class Collector:
    """ctx look-alike handed to the judges: failed clauses are collected; counters, cases and R_trace divergences
    go straight to the real context (or nowhere when `ctx` is None, which is how shrink candidates are evaluated)."""

    def __init__(self, ctx):
        self.ctx = ctx
        self.fails = []

    def fail(self, function, klass, what, rep):
        self.fails.append((function, klass, what, rep))
        return True

    def count(self, key, n=1):
        if self.ctx is not None:
            self.ctx.count(key, n)

    def case(self, *a, **kw):
        if self.ctx is not None:
            self.ctx.case(*a, **kw)

    def tdiv(self, *a, **kw):
        if self.ctx is not None:
            self.ctx.tdiv(*a, **kw)


def shrink(case, key, candidates, evaluate, deadline):
    """Greedy structural shrinking: every single-step reduction of the current case is evaluated in one batch and
    the first one on which the same (function, class) still fails is kept; candidates the harness itself objects
    to (Infra: e.g. a cost change that creates a negative cycle) are skipped."""
    import time
    from core import Infra
    history = []
    while time.time() < deadline:
        cands = list(candidates(case))
        if not cands:
            break
        try:
            res = evaluate([c for _, c in cands])
        except Infra:
            res = []
            for _, c in cands:
                try:
                    res.append(evaluate([c])[0])
                except Infra:
                    res.append([])
        for (how, c), fails in zip(cands, res):
            if any((f[0], f[1]) == key for f in fails):
                case = c
                history.append(how)
                break
        else:
            break
    return case, history


def report(ctx, cases, results, shrink_one, max_shrinks=3):
    """ctx.fail for every collected failure; the first few failures that are not known findings are shrunk first
    (the replay then holds the small case, the original one and the shrink history)."""
    shrunk = 0
    for case, fails in zip(cases, results):
        if not fails:
            continue
        out, seen = [], set()
        unknown = [f for f in fails if ctx.known_match(f[0], f[1]) is None]
        if shrink_one is not None and unknown and shrunk < max_shrinks and len(ctx.violations) < 5:
            shrunk += 1
            small_fails, history, original = shrink_one(case, unknown[0])
            if history:
                for fn, klass, what, rep in small_fails:
                    if (fn, klass) not in seen:
                        seen.add((fn, klass))
                        out.append((fn, klass, what, dict(rep, original_case=original, shrink_history=history)))
        for fn, klass, what, rep in fails:   # clauses that fail on the original case only
            if (fn, klass) not in seen:
                seen.add((fn, klass))
                out.append((fn, klass, what, rep))
        for fn, klass, what, rep in out:
            ctx.fail(fn, klass, what, rep)
