"""Shared helpers for the Flow checks (C08, C09): label styles, ordered-graph cases, index maps."""
from __future__ import annotations


ODD_LABELS = [None, 0, "", (), frozenset(), -1, 0.5, (1, 2), ("a",), (None,), "None", 7, (0, "k"), frozenset([3]),
              ((),), -2, 2.5, "0"]   # pairwise different as dict keys (no 0/False/0.0 or 1/True/1.0 clashes)


def enc(x):
    """JSON-able form of a node label (cases are written to replay files)"""
    if isinstance(x, tuple):
        return {"tuple": [enc(e) for e in x]}
    if isinstance(x, frozenset):
        return {"frozenset": sorted((enc(e) for e in x), key=repr)}
    return x


def dec(x):
    """the node label itself (None, numbers, strings, tuples, frozensets)"""
    if isinstance(x, dict):
        (k, v), = x.items()
        return tuple(dec(e) for e in v) if k == "tuple" else frozenset(dec(e) for e in v)
    if isinstance(x, list):       # a tuple that went through JSON unencoded
        return tuple(dec(e) for e in x)
    return x


def label_maker(rng, n):
    """n distinct node labels in their JSON-able form (`dec` gives the label): ints, shifted ints, strings, a mix,
    or odd hashables (None, 0, '', (), frozenset(), -1, 0.5, tuples ...); never 0/1 vs False/True clashes."""
    style = rng.choice(["int", "int", "shift", "str", "mixed", "word", "odd"])
    if style == "int":
        labs = list(range(n))
    elif style == "shift":
        off = rng.choice([1, 7, 100, -3])
        labs = [i + off for i in range(n)]
    elif style == "str":
        labs = [f"n{i}" for i in range(n)]
    elif style == "word":
        words = ["s", "t", "a", "b", "c", "d", "e", "f", "g", "h", "u", "v", "w", "x", "y", "z"]
        rng.shuffle(words)
        labs = words[:n] if n <= len(words) else [f"n{i}" for i in range(n)]
    elif style == "odd":
        pool = list(ODD_LABELS)
        rng.shuffle(pool)
        labs = pool[:n] + [f"x{i}" for i in range(max(0, n - len(pool)))]
    else:
        labs = [(f"k{i}" if rng.random() < 0.5 else i + 20) for i in range(n)]
    if style not in ("odd",) and n and rng.random() < 0.08:     # None among ordinary labels
        labs[rng.randrange(n)] = None
    if rng.random() < 0.5:
        rng.shuffle(labs)
    return [enc(x) for x in labs]


def graph_dict(case_graph):
    """ordered [[u, [[v, cap, ...], ...]], ...] -> dict preserving order (tuples as the API documents)."""
    g = {}
    for u, lst in case_graph:
        u = dec(u)
        g.setdefault(u, [])
        g[u].extend((dec(a[0]),) + tuple(a[1:]) for a in lst)
    return g


def index_map(case_graph, extra=()):
    """labels in order of first appearance -> index"""
    idx = {}
    for x in extra:
        idx.setdefault(dec(x), len(idx))
    for u, lst in case_graph:
        idx.setdefault(dec(u), len(idx))
        for a in lst:
            idx.setdefault(dec(a[0]), len(idx))
    return idx


def arcs_in_order(case_graph, idx, with_cost=False):
    """arcs in the order `for u in graph: for v, cap, ... in graph[u]` (dict semantics: a key that
    occurs twice in the ordered list keeps its first position, lists concatenated)."""
    g = graph_dict(case_graph)
    out = []
    for u, lst in g.items():
        for a in lst:
            if with_cost:
                out.append([idx[u], idx[a[0]], int(a[1]), int(a[2])])
            else:
                out.append([idx[u], idx[a[0]], int(a[1])])
    return out


def integral(x):
    """int value of an integral int/float, else None"""
    if isinstance(x, bool):
        return None
    if isinstance(x, int):
        return x
    if isinstance(x, float) and x == x and x not in (float("inf"), float("-inf")) and x == int(x):
        return int(x)
    return None


# ---------------------------------------------------------------------------
# collecting R_prop failures so that they can be shrunk before they are reported
# ---------------------------------------------------------------------------

class Collector:
    """ctx look-alike handed to the judges: failed clauses are collected; counters, cases and R_trace divergences
    go straight to the real context (or nowhere when `ctx` is None, which is how shrink candidates are evaluated)."""

    def __init__(self, ctx):
        self.ctx = ctx
        self.fails = []

    def fail(self, function, klass, what, rep):
        self.fails.append((function, klass, what, rep))
        return True

    def count(self, key, n=1):
        if self.ctx is not None:
            self.ctx.count(key, n)

    def case(self, *a, **kw):
        if self.ctx is not None:
            self.ctx.case(*a, **kw)

    def tdiv(self, *a, **kw):
        if self.ctx is not None:
            self.ctx.tdiv(*a, **kw)


def shrink(case, key, candidates, evaluate, deadline):
    """Greedy structural shrinking: every single-step reduction of the current case is evaluated in one batch and
    the first one on which the same (function, class) still fails is kept; candidates the harness itself objects
    to (Infra: e.g. a cost change that creates a negative cycle) are skipped."""
    import time
    from core import Infra
    history = []
    while time.time() < deadline:
        cands = list(candidates(case))
        if not cands:
            break
        try:
            res = evaluate([c for _, c in cands])
        except Infra:
            res = []
            for _, c in cands:
                try:
                    res.append(evaluate([c])[0])
                except Infra:
                    res.append([])
        for (how, c), fails in zip(cands, res):
            if any((f[0], f[1]) == key for f in fails):
                case = c
                history.append(how)
                break
        else:
            break
    return case, history


def report(ctx, cases, results, shrink_one, max_shrinks=3):
    """ctx.fail for every collected failure; the first few failures that are not known findings are shrunk first
    (the replay then holds the small case, the original one and the shrink history)."""
    shrunk = 0
    for case, fails in zip(cases, results):
        if not fails:
            continue
        out, seen = [], set()
        unknown = [f for f in fails if ctx.known_match(f[0], f[1]) is None]
        if shrink_one is not None and unknown and shrunk < max_shrinks and len(ctx.violations) < 5:
            shrunk += 1
            small_fails, history, original = shrink_one(case, unknown[0])
            if history:
                for fn, klass, what, rep in small_fails:
                    if (fn, klass) not in seen:
                        seen.add((fn, klass))
                        out.append((fn, klass, what, dict(rep, original_case=original, shrink_history=history)))
        for fn, klass, what, rep in fails:   # clauses that fail on the original case only
            if (fn, klass) not in seen:
                seen.add((fn, klass))
                out.append((fn, klass, what, rep))
        for fn, klass, what, rep in out:
            ctx.fail(fn, klass, what, rep)
