"""C12 — Rust and Python back-ends observably equivalent.

Every generated valid input of the nine accelerated functions is run with backend='python',
backend='rust' and the default, against an extension rebuilt from the working tree's rust/ on this
run (harness/rustbuild.py).  Each output goes through the verified checker of Solvor/Backend
(evaluated in Lean); by the `obs_unique_*` theorems two accepted outputs have equal observables.
"""
from __future__ import annotations

import json
import sys
from fractions import Fraction

import core
import rustbuild
from core import Driver
from pool import err_kind, run_pool

AREAS = ["Backend"]
LEVEL = "proof"
ASSUMPTIONS = [
    "Rust kernels and pyo3 conversions are compared by input/output behaviour only (DESIGN §3); the Lean "
    "theorems are about the spec-level checkers (uniqueness of the observables) and the adapter models",
    "weights are dyadic rationals k/4 (also as Python ints), so every sum of at most 2^40 of them is exact in "
    "binary64 and distances/total weights must agree exactly; PageRank is compared as exact rationals of the "
    "returned doubles against the bound 10*tol/(1-d)",
    "inexact-double inputs (`fp` cases: weights 1e-12..1e-8, 1e8 mixed with 1e-8, decimal fractions whose cycle sums "
    "nearly cancel, tiny negative self loops): python's own float arithmetic may legitimately disagree with exact "
    "arithmetic about the sign of a cycle or the last bit of a distance, so there the exact-distance checker is not "
    "applied; kept are back-end equivalence (same status; distances/objective bit-identical, since both back-ends do "
    "the same IEEE additions and comparisons - for Dijkstra the least left-folded path sum is unique by monotonicity "
    "of rounded addition) and the exact clauses that do not depend on rounding (finite entries = reachable pairs, "
    "returned paths are walks, INFEASIBLE = unreachable) via the verified checkers",
    "certificates (tree levels, potentials, negative cycles) are produced by untrusted Lean code in "
    "Solvor/Backend/Certs.lean and accepted only through the verified checkers",
]
SCALE = 4
BACKENDS = ("python", "rust", None)
RULE = ("per function: random multigraphs with n<=8 nodes (n=0 where the function accepts it), duplicate and "
        "anti-parallel edges of different weights, self loops, isolated nodes, directed/undirected (floyd_warshall), "
        "with/without target, negative weights and negative cycles (bellman_ford, floyd_warshall, kruskal weights), "
        "allow_forest, PageRank damping/tol/max_iter; each run with backend='python','rust',None; "
        "non-trivial = the edge list has a duplicate or anti-parallel pair; distinct by (function, input, options); "
        "presentation styles (outer list/tuple, one shared tuple object for equal edges, int/float weights mixed; "
        "edges as lists recorded as outside the contract), histories of 2-4 related calls in one process "
        "(same twice, edits keeping n and the edge count, narrow/wide, interleaved entry points; varying back-end "
        "order; failures that pass alone get :after_previous_call), a few 200-500 node instances (60-120 for "
        "floyd_warshall) with checkDist/checkFw/checkTopo where they scale, 30 % inexact-double inputs")

FUNCS = ["floyd_warshall", "bellman_ford", "dijkstra_edges", "bfs_edges", "dfs_edges", "kruskal",
         "pagerank_edges", "strongly_connected_components_edges", "topological_sort_edges"]
WEIGHTED = {"floyd_warshall", "bellman_ford", "dijkstra_edges", "kruskal"}

_PKG: str | None = None      # scratch package directory (set in the parent before the pool forks)
_LOADED = False


# ---------------------------------------------------------------------------
# generator
# ---------------------------------------------------------------------------

def gen_edges(rng, n, weighted, neg, maxm):
    """Multigraph edge list: [u, v] or [u, v, wq] (weight = wq / SCALE)."""
    if n == 0:
        return []
    m = rng.choice([0, 1, 2, 3, 4, 5, 6, 8, 10, maxm]) if rng.random() < 0.8 else rng.randint(0, maxm)
    m = min(m, maxm)
    dens_nodes = list(range(n))
    if n >= 3 and rng.random() < 0.4:  # isolated nodes / several weak components
        k = rng.randint(1, n - 1)
        dens_nodes = rng.sample(dens_nodes, k)

    def w():
        r = rng.random()
        if not weighted:
            return None
        if r < 0.15:
            base = 0
        elif r < 0.6:
            base = rng.randint(1, 6) * SCALE
        else:
            base = rng.randint(1, 40)
        if neg and rng.random() < neg:
            base = -rng.randint(1, 12)
        return base

    es = []
    while len(es) < m:
        r = rng.random()
        if es and r < 0.22:          # duplicate of an existing pair, (usually) different weight
            u, v = rng.choice(es)[:2]
        elif es and r < 0.40:        # anti-parallel to an existing edge
            v, u = rng.choice(es)[:2]
        elif r < 0.47:               # self loop
            u = v = rng.choice(dens_nodes)
        else:
            u, v = rng.choice(dens_nodes), rng.choice(dens_nodes)
        e = [u, v] if not weighted else [u, v, w()]
        if weighted and es and rng.random() < 0.1:
            e[2] = rng.choice(es)[2]  # equal weights (ties)
        es.append(e)
    if rng.random() < 0.3:
        rng.shuffle(es)
    return es


FP_FUNCS = ("floyd_warshall", "bellman_ford", "dijkstra_edges")
FP_SHARE = 0.3   # fixed share of inexact-double inputs, both tiers
_DECIMAL_CYCLES = [(-0.1, -0.2, 0.3), (0.1, 0.2, -0.3), (0.1, 0.7, -0.8), (-0.1, -0.7, 0.8), (0.3, 0.6, -0.9),
                   (-0.3, -0.6, 0.9), (1.1, 2.2, -3.3), (-1.1, -2.2, 3.3), (0.1, -0.1, 0.0), (0.15, 0.15, -0.3)]


def gen_fp_edges(rng, n, fn):
    """Edge list [u, v, w] with w an arbitrary double: tiny magnitudes, mixed magnitudes, decimal fractions whose
    cycle sums nearly cancel (tiny negative / positive / zero in binary64), tiny negative self loops."""
    nonneg = fn == "dijkstra_edges"
    style = rng.choice(["tiny", "mixed", "cancel", "selfloop", "cancel", "tiny"])
    if nonneg and style in ("cancel", "selfloop"):
        style = rng.choice(["tiny", "mixed"])

    def tiny():
        w = rng.randint(1, 9) * 10.0 ** -rng.randint(8, 12)
        return w if nonneg or rng.random() < 0.6 else -w

    def ordinary():
        return rng.choice([0.0, 0.1, 0.25, 0.5, 1.0, 2.0, 3.7, 10.0]) if rng.random() < 0.8 else rng.randint(1, 40) / 4

    def mixed():
        r = rng.random()
        if r < 0.35:
            w = rng.randint(1, 9) * 1e8
        elif r < 0.7:
            w = rng.randint(1, 9) * 1e-8
        else:
            w = ordinary()
        return w if nonneg or rng.random() < 0.75 else -w

    m = rng.choice([1, 2, 3, 4, 6, 8, 12])
    draw = {"tiny": tiny, "mixed": mixed, "cancel": ordinary, "selfloop": ordinary}[style]
    es = []
    for _ in range(m):
        r = rng.random()
        if es and r < 0.2:
            u, v = rng.choice(es)[:2]
        elif es and r < 0.35:
            v, u = rng.choice(es)[:2]
        else:
            u, v = rng.randrange(n), rng.randrange(n)
        es.append([u, v, draw()])
    if style == "cancel":
        for _ in range(rng.choice([1, 1, 2])):
            k = rng.choice([1, 2, 3]) if n >= 3 else rng.choice([1, 2][:max(1, n)])
            nodes = rng.sample(range(n), min(k, n))
            if rng.random() < 0.6:
                ws = list(rng.choice(_DECIMAL_CYCLES))
            else:  # x, y, -(x+y) with the sum taken in decimal
                x, y = rng.randint(1, 99) / 100, rng.randint(1, 99) / 100
                ws = [x, y, -round(x + y, 2)]
                if rng.random() < 0.5:
                    ws = [-w for w in ws]
            rng.shuffle(ws)
            if len(nodes) == 3:
                cyc = [(nodes[0], nodes[1]), (nodes[1], nodes[2]), (nodes[2], nodes[0])]
            elif len(nodes) == 2:   # two edges one way (the kernel keeps the min) is useless: go there, back, and a loop
                cyc = [(nodes[0], nodes[1]), (nodes[1], nodes[0]), (nodes[0], nodes[0])]
                ws = [ws[0] + ws[1], ws[2], 0.0] if rng.random() < 0.5 else ws
            else:
                cyc = [(nodes[0], nodes[0])]
                ws = [rng.choice([ws[0] + ws[1] + ws[2], (ws[0] + ws[1]) + ws[2], ws[0] + (ws[1] + ws[2])])]
            es += [[a, b, w] for (a, b), w in zip(cyc, ws)]
    if style == "selfloop" or (not nonneg and rng.random() < 0.15):
        u = rng.randrange(n)
        w = -rng.choice([1e-12, 1e-10, 5e-11, 1e-9, 2.5e-13, 1e-15])
        es.append([u, u, w] if rng.random() < 0.6 or n == 1 else [u, (u + 1) % n, w])
    if rng.random() < 0.5:
        rng.shuffle(es)
    return es


def gen_case(rng, fn, big):
    nmax = 8
    case = {"fn": fn}
    if fn in ("pagerank_edges", "strongly_connected_components_edges", "topological_sort_edges"):
        n = rng.choice([0, 1, 2, 3, 4, 5, 6, 7, 8]) if rng.random() < 0.9 else rng.randint(0, nmax)
    else:
        n = rng.choice([1, 2, 3, 4, 5, 6, 7, 8])
    case["n"] = n
    weighted = fn in WEIGHTED
    neg = 0.0
    if fn in ("bellman_ford", "floyd_warshall"):
        neg = rng.choice([0.0, 0.0, 0.1, 0.25, 0.5])
    if fn == "kruskal":
        neg = rng.choice([0.0, 0.0, 0.2])
    maxm = 10 if fn == "kruskal" else 16
    if fn == "kruskal" and big:
        maxm = 12
    es = gen_edges(rng, n, weighted, neg, maxm)
    if fn == "topological_sort_edges" and n and rng.random() < 0.65:
        perm = list(range(n))
        rng.shuffle(perm)
        es = [[perm[min(a, b)], perm[max(a, b)]] for a, b in es if a != b]
    case["edges"] = es
    case["int_weights"] = weighted and rng.random() < 0.3
    if fn in FP_FUNCS and rng.random() < FP_SHARE:
        case["edges"] = gen_fp_edges(rng, n, fn)
        case["fp"] = True
        case["int_weights"] = False
    if fn == "floyd_warshall":
        case["directed"] = rng.random() < 0.45
    if fn in ("bellman_ford", "dijkstra_edges", "bfs_edges", "dfs_edges"):
        case["s"] = rng.randrange(n)
        case["t"] = rng.randrange(n) if rng.random() < 0.55 else None
    if fn == "kruskal":
        case["allow_forest"] = rng.random() < 0.5
    if fn == "pagerank_edges":
        r = rng.random()
        case["damping"] = rng.choice([0.85, 0.85, 0.5, 0.9, 0.3, 0.7])
        case["tol"] = rng.choice([1e-6, 1e-6, 1e-4, 1e-8, 1e-3, 1e-9])
        if r < 0.3:
            case["max_iter"] = 100
        elif r < 0.6:
            case["max_iter"] = rng.choice([1, 2, 3, 5, 8, 12, 20, 30, 50, 80, 150, 400, 1000])
        else:  # at / next to the iteration where the max-norm criterion first holds (steers generation only)
            k = _pr_iters(n, es, case["damping"], case["tol"])
            case["max_iter"] = max(1, k + rng.choice([0, 0, 0, 1, 2, -1]))
        if rng.random() < 0.25:
            case["defaults"] = True  # call without damping/tol/max_iter keywords
            for k in ("damping", "tol", "max_iter"):
                case.pop(k)
    return case


STYLES = ["list", "list", "list", "tuple", "alias", "mixnum", "alias_tuple"]   # fixed shares, all inside the contract
ORDERS = [["python", "rust", None], ["rust", "python", None], [None, "python", "rust"], ["rust", None, "python"]]


def add_presentation(rng, case):
    """How the (same) input is handed over: outer list / tuple, one shared tuple object for equal edges,
    int and float weights mixed.  `inner_lists` (edges as lists) is outside the annotated contract
    `list[tuple[...]]` and is only recorded, never gating."""
    case["style"] = rng.choice(STYLES) if rng.random() > 0.04 else "inner_lists"
    case["order"] = rng.choice(ORDERS)
    return case


def gen_history(rng):
    """2-4 related inputs run consecutively in ONE worker call (every back-end on each, in varying order):
    state kept in the extension module or the adapters between calls shows up as a wrong later answer."""
    kind = rng.choice(["same_twice", "edit", "edit", "edit", "narrow_wide", "wide_narrow", "interleave", "interleave"])
    fn = rng.choice(FUNCS)
    a = gen_case(rng, fn, False)
    group = [a]
    if kind == "same_twice":
        group.append(json.loads(json.dumps(a)))
    elif kind == "edit":
        for _ in range(rng.choice([1, 2, 3])):
            b = json.loads(json.dumps(group[-1]))
            es = b["edges"]
            r = rng.random()
            if es and r < 0.3:
                # same n, same number of edges, same s/t - but (almost surely) another answer: every edge reversed,
                # nodes relabelled, or every weight changed
                op = rng.choice(["reverse", "relabel", "reweight"])
                if op == "reweight" and len(es[0]) == 3 and not b.get("fp"):
                    for e in es:
                        e[2] = e[2] + rng.choice([4, 8, 12, 20])
                elif op == "relabel":
                    perm = list(range(b["n"]))
                    rng.shuffle(perm)
                    for e in es:
                        e[0], e[1] = perm[e[0]], perm[e[1]]
                else:
                    for e in es:
                        e[0], e[1] = e[1], e[0]
                r = 2.0
            if r > 1.0:
                pass
            elif es and r < 0.45 and len(es[0]) == 3 and not b.get("fp"):
                e = rng.choice(es)
                e[2] = e[2] + rng.choice([-8, -4, 4, 8, 12]) if fn != "dijkstra_edges" else e[2] + rng.choice([4, 8, 12])
            elif es and r < 0.7:     # same length, one edge redirected
                e = rng.choice(es)
                e[1] = rng.randrange(b["n"])
            elif es and r < 0.85:
                es.pop(rng.randrange(len(es)))
            elif b["n"]:
                e = [rng.randrange(b["n"]), rng.randrange(b["n"])]
                if es and len(es[0]) == 3:
                    e.append(abs(rng.choice(es)[2]) if not b.get("fp") else abs(rng.choice(es)[2]))
                elif fn in WEIGHTED:
                    e.append(4)
                es.append(e)
            if fn == "topological_sort_edges" and rng.random() < 0.5 and len(es) > 1:
                es.reverse()
            for k in ("s", "t"):
                if b.get(k) is not None and rng.random() < 0.15:
                    b[k] = rng.randrange(b["n"])
            group.append(b)
    elif kind in ("narrow_wide", "wide_narrow"):
        b = gen_case(rng, fn, False)
        group.append(b)
        group.sort(key=lambda c: (c["n"], len(c["edges"])), reverse=(kind == "wide_narrow"))
        if rng.random() < 0.5:
            group.append(json.loads(json.dumps(group[0])))
    else:  # interleave the entry points of the area on the same edge list
        fam = rng.choice([["bfs_edges", "dfs_edges"], ["dijkstra_edges", "bellman_ford", "floyd_warshall"],
                          ["strongly_connected_components_edges", "topological_sort_edges", "pagerank_edges"],
                          ["kruskal", "floyd_warshall"]])
        bn = rng.randint(1, 8)
        base = {"n": bn, "edges": gen_edges(rng, bn, fam[0] in WEIGHTED, 0.0, 12)}
        group = []
        for f in rng.sample(fam, len(fam)) + [rng.choice(fam)]:
            c = gen_case(rng, f, False)
            c["n"], c["edges"] = base["n"], json.loads(json.dumps(base["edges"]))
            c.pop("fp", None)
            c["int_weights"] = False
            if f == "pagerank_edges":
                c.update({"damping": 0.85, "tol": 1e-6, "max_iter": 100})
                c.pop("defaults", None)
            for k in ("s", "t"):
                if c.get(k) is not None:
                    c[k] = c[k] % c["n"]
            group.append(c)
    for i, c in enumerate(group):
        add_presentation(rng, c)
        c["hist"] = [kind, i]
    return group


def gen_large(rng, fn):
    """A few instances 200-500 nodes (Floyd-Warshall 60-120): chains, stars, sparse random graphs, many ties."""
    n = rng.choice([60, 90, 120]) if fn == "floyd_warshall" else rng.choice([200, 300, 400, 500])
    shape = rng.choice(["chain", "star", "sparse", "sparse", "ties"])
    weighted = fn in WEIGHTED
    perm = list(range(n))
    rng.shuffle(perm)
    pairs = []
    if shape == "chain":
        pairs = [(perm[i], perm[i + 1]) for i in range(n - 1)]
        pairs += [(perm[rng.randrange(n)], perm[rng.randrange(n)]) for _ in range(n // 10)]
    elif shape == "star":
        c = perm[0]
        pairs = [(c, v) if rng.random() < 0.5 else (v, c) for v in perm[1:]]
        pairs += [(v, c) for v in perm[1:n // 4]]
    else:
        m = rng.choice([2, 3]) * n
        pairs = [(rng.randrange(n), rng.randrange(n)) for _ in range(m)]
        pairs += [(perm[i], perm[i + 1]) for i in range(0, n - 1, 2)]
    if fn == "topological_sort_edges" and rng.random() < 0.8:
        pos = {v: i for i, v in enumerate(perm)}
        pairs = [(u, v) if pos[u] < pos[v] else (v, u) for u, v in pairs if u != v]
    es = []
    for u, v in pairs:
        if not weighted:
            es.append([u, v])
            continue
        w = 4 if shape == "ties" else rng.randint(1, 60)
        if fn in ("bellman_ford", "floyd_warshall") and rng.random() < 0.1:
            # negative only "forwards" in a fixed order and small: no negative cycles
            pos_u, pos_v = perm.index(u), perm.index(v)
            if pos_u < pos_v:
                w = -rng.randint(1, 3)
        es.append([u, v, w])
    case = {"fn": fn, "n": n, "edges": es, "int_weights": rng.random() < 0.3, "large": shape}
    if fn == "floyd_warshall":
        case["directed"] = rng.random() < 0.5
        if not case["directed"]:
            case["edges"] = [[u, v, abs(w)] for u, v, w in es]
    if fn in ("bellman_ford", "dijkstra_edges"):
        case["s"], case["t"] = perm[0], None
    if fn in ("bfs_edges", "dfs_edges"):
        case["s"], case["t"] = perm[0], (perm[-1] if rng.random() < 0.5 else None)
    if fn == "kruskal":
        case["allow_forest"] = rng.random() < 0.5
    if fn == "pagerank_edges":
        case.update({"damping": 0.85, "tol": rng.choice([1e-6, 1e-8]), "max_iter": rng.choice([100, 400])})
    return add_presentation(rng, case)


def _pr_iters(n, es, d, tol, cap=3000):
    """Float PageRank iteration count until max |change| < tol (used to pick max_iter, never to judge)."""
    if n == 0:
        return 1
    out = [0] * n
    for u, _ in es:
        out[u] += 1
    x = [1.0 / n] * n
    for it in range(1, cap + 1):
        dang = sum(x[u] for u in range(n) if out[u] == 0)
        y = [(1.0 - d) / n + d * dang / n] * n
        for u, v in es:
            y[v] += d * x[u] / out[u]
        diff = max(abs(a - b) for a, b in zip(x, y))
        x = y
        if diff < tol:
            return it
    return cap


def edge_cases():
    # (the defect witnesses of DESIGN §4 C12 live in corpus/C12/)
    # plain sanity cases
    yield {"fn": "floyd_warshall", "n": 3, "edges": [[0, 1, 4], [1, 2, -8], [2, 0, 2]], "directed": True,
           "int_weights": False}
    yield {"fn": "bellman_ford", "n": 3, "edges": [[0, 1, 16], [0, 2, 20], [1, 2, -12]], "s": 0, "t": 2,
           "int_weights": False}
    yield {"fn": "bellman_ford", "n": 3, "edges": [[0, 1, 4], [1, 2, 4], [2, 0, -12]], "s": 0, "t": None,
           "int_weights": False}
    yield {"fn": "dijkstra_edges", "n": 3, "edges": [[0, 1, 4], [1, 2, 8], [0, 2, 20]], "s": 0, "t": 2,
           "int_weights": False}
    yield {"fn": "kruskal", "n": 3, "edges": [[0, 1, 4], [1, 2, 8], [0, 2, 12]], "allow_forest": False,
           "int_weights": False}
    yield {"fn": "kruskal", "n": 3, "edges": [[0, 1, 4]], "allow_forest": True, "int_weights": False}
    yield {"fn": "pagerank_edges", "n": 3, "edges": [[0, 1], [1, 2], [2, 0]], "defaults": True, "int_weights": False}
    yield {"fn": "pagerank_edges", "n": 0, "edges": [], "damping": 0.85, "tol": 1e-6, "max_iter": 100,
           "int_weights": False}
    yield {"fn": "strongly_connected_components_edges", "n": 4, "edges": [[0, 1], [1, 2], [2, 0], [2, 3]],
           "int_weights": False}
    yield {"fn": "topological_sort_edges", "n": 3, "edges": [[0, 1], [1, 2], [0, 2]], "int_weights": False}
    yield {"fn": "topological_sort_edges", "n": 3, "edges": [[0, 1], [1, 2], [2, 0]], "int_weights": False}


# ---------------------------------------------------------------------------
# implementation side (worker processes; solvor is imported from the scratch package only)
# ---------------------------------------------------------------------------

def _load():
    global _LOADED
    if _LOADED:
        return
    for k in [k for k in sys.modules if k == "solvor" or k.startswith("solvor.")]:
        del sys.modules[k]
    sys.path.insert(0, _PKG)
    import solvor
    import solvor.rust as r
    if not solvor.__file__.startswith(_PKG) or not r.get_rust_module().__file__.startswith(_PKG):
        raise RuntimeError("solvor was not imported from the scratch package")
    try:  # a call that never returns may also allocate without bound: cap the worker's address space
        import resource
        resource.setrlimit(resource.RLIMIT_AS, (6 << 30, 6 << 30))
    except Exception:
        pass
    _LOADED = True


def _q(x):
    """float/int -> scaled exact integer, inf -> None."""
    if isinstance(x, float) and x in (float("inf"), float("-inf")):
        return None if x > 0 else "-inf"
    f = Fraction(x) * SCALE
    if f.denominator != 1:
        raise ValueError(f"InexactValue {x!r}")
    return int(f)


def _h(x):
    """double -> bit-exact text (inf -> None); -0.0 and 0.0 are the same distance."""
    x = float(x)
    if x in (float("inf"), float("-inf")):
        return None if x > 0 else "-inf"
    return (x + 0.0).hex()


def _weights(case):
    """The edge list as handed to the library, in the case's presentation style."""
    style = case.get("style", "list")
    es = []
    for i, e in enumerate(case["edges"]):
        if len(e) == 2:
            es.append((e[0], e[1]))
        elif case.get("fp"):
            es.append((e[0], e[1], float(e[2])))
        else:
            wq = e[2]
            as_int = case.get("int_weights") or (style == "mixnum" and i % 2 == 0)
            w = wq // SCALE if (as_int and wq % SCALE == 0) else wq / SCALE
            es.append((e[0], e[1], w))
    if style in ("alias", "alias_tuple"):   # equal edges are ONE tuple object at several positions
        pool_ = {}
        es = [pool_.setdefault((e, tuple(type(x) for x in e)), e) for e in es]
    if style == "inner_lists":
        return [list(e) for e in es]
    if style in ("tuple", "alias_tuple"):
        return tuple(es)
    return es


def _call(case, backend):
    fn = case["fn"]
    n = case["n"]
    es = _weights(case)
    kw = {} if backend == "omit" else {"backend": backend}
    Q = _h if case.get("fp") else _q
    if fn == "floyd_warshall":
        from solvor.floyd_warshall import floyd_warshall
        r = floyd_warshall(n, es, directed=case["directed"], **kw)
        sol = None if r.solution is None else [[Q(x) for x in row] for row in r.solution]
        obj = None
    elif fn == "bellman_ford":
        from solvor.bellman_ford import bellman_ford
        r = bellman_ford(case["s"], es, n, target=case["t"], **kw)
        sol, obj = _sssp(case, r)
    elif fn == "dijkstra_edges":
        from solvor.dijkstra import dijkstra_edges
        r = dijkstra_edges(n, es, case["s"], target=case["t"], **kw)
        sol, obj = _sssp(case, r)
    elif fn in ("bfs_edges", "dfs_edges"):
        import importlib
        r = getattr(importlib.import_module("solvor.bfs"), fn)(n, es, case["s"], target=case["t"], **kw)
        if r.solution is None:
            sol = None
        else:
            if not isinstance(r.solution, (list, tuple)):
                raise TypeError(f"solution is a {type(r.solution).__name__}")
            sol = [int(v) for v in r.solution]
        obj = None if case["t"] is None else _q(r.objective)
        if obj is not None and obj != "-inf":
            obj //= SCALE
    elif fn == "kruskal":
        from solvor.mst import kruskal
        r = kruskal(n, es, allow_forest=case["allow_forest"], **kw)
        sol = None if r.solution is None else [[int(u), int(v), _q(w)] for u, v, w in r.solution]
        obj = _q(r.objective)
    elif fn == "pagerank_edges":
        from solvor.pagerank import pagerank_edges
        alt = []
        if case.get("defaults"):
            import inspect
            r = pagerank_edges(n, es, **kw)
            tol0 = inspect.signature(getattr(pagerank_edges, "__wrapped__", pagerank_edges)).parameters["tol"].default
            for f in (1 - 1e-6, 1 + 1e-6):
                alt.append(pagerank_edges(n, es, tol=tol0 * f, **kw).status.name)
        else:
            r = pagerank_edges(n, es, damping=case["damping"], max_iter=case["max_iter"], tol=case["tol"], **kw)
            for f in (1 - 1e-6, 1 + 1e-6):  # statuses under a slightly perturbed tolerance (rounding guard)
                alt.append(pagerank_edges(n, es, damping=case["damping"], max_iter=case["max_iter"],
                                          tol=case["tol"] * f, **kw).status.name)
        if sorted(r.solution.keys()) != list(range(n)):
            raise KeyError(f"score keys {sorted(r.solution.keys())}")
        sol = [core.rat(float(r.solution[i])) for i in range(n)]
        return {"status": r.status.name, "sol": sol, "obj": None, "alt": alt, "objraw": repr(float(r.objective))}
    elif fn == "strongly_connected_components_edges":
        from solvor.scc import strongly_connected_components_edges
        r = strongly_connected_components_edges(n, es, **kw)
        sol = [[int(v) for v in c] for c in r.solution]
        obj = int(r.objective)
    elif fn == "topological_sort_edges":
        from solvor.scc import topological_sort_edges
        r = topological_sort_edges(n, es, **kw)
        sol = None if r.solution is None else [int(v) for v in r.solution]
        obj = None
    else:
        raise ValueError(fn)
    return {"status": r.status.name, "sol": sol, "obj": obj, "objraw": repr(float(r.objective))}


def _sssp(case, r):
    Q = _h if case.get("fp") else _q
    if case["t"] is None:
        if r.solution is None:
            return None, None
        d = [None] * case["n"]
        for k, v in r.solution.items():
            d[int(k)] = Q(v)
        return d, None
    sol = None if r.solution is None else [int(v) for v in r.solution]
    return sol, Q(r.objective)


def impl_one(task):
    """One back-end alone (used to find out which back-ends fail to return when a whole case hung)."""
    case, b = task
    _load()
    return _call(case, b)


def impl_group(group):
    """A history: the cases of the group one after the other in this one process."""
    return [impl(c) for c in group]


def impl(case):
    _load()
    out = {}
    for b in case.get("order") or BACKENDS:
        try:
            out[str(b)] = ["ok", _call(case, b)]
        except BaseException as e:  # noqa: BLE001 - pyo3 panics derive from BaseException
            out[str(b)] = ["err", f"{type(e).__name__}: {e}"[:300]]
    try:  # the keyword left out altogether must behave like None
        out["omit"] = ["ok", _call(case, "omit")]
    except BaseException as e:  # noqa: BLE001
        out["omit"] = ["err", f"{type(e).__name__}: {e}"[:300]]
    if case["fn"] == "pagerank_edges":
        import inspect
        from solvor.pagerank import pagerank_edges
        sig = inspect.signature(getattr(pagerank_edges, "__wrapped__", pagerank_edges))
        out["pr_defaults"] = [sig.parameters[k].default for k in ("damping", "tol", "max_iter")]
    if case["fn"] in ("bfs_edges", "dfs_edges") and case["t"] is None and case.get("style") != "inner_lists":
        import solvor._solvor_rust as rs
        k = rs.bfs if case["fn"] == "bfs_edges" else rs.dfs
        out["raw_order"] = [int(v) for v in k(case["n"], _weights(case), case["s"], None)["visited_order"]]
    return out


# ---------------------------------------------------------------------------
# model side
# ---------------------------------------------------------------------------

def _wes(case):
    if case.get("fp"):   # only reachability / walk clauses are checked exactly: weights do not matter
        return [[e[0], e[1], 1] for e in case["edges"]]
    return [[e[0], e[1], (e[2] if len(e) == 3 else 1)] for e in case["edges"]]


SKIP = "SKIP"   # fp case with status UNBOUNDED: nothing the exact checkers can say


def encode_fp(case, o):
    fn, st, sol = case["fn"], o["status"], o["sol"]
    if st == "UNBOUNDED":
        return SKIP
    if fn == "floyd_warshall":
        return [[0 if x is None else 1 for x in row] for row in sol]
    if case["t"] is None:
        return [i for i, x in enumerate(sol) if x is not None]
    return None if st == "INFEASIBLE" else sol


LARGE_EXACT = ("floyd_warshall", "bellman_ford", "dijkstra_edges", "topological_sort_edges")


def encode_large(case, o):
    """Large inputs: the verified checkers that scale (distance vectors / matrices with harness-made level
    certificates, topological orders); everything else is compared between back-ends only."""
    fn, st, sol = case["fn"], o["status"], o["sol"]
    if fn in LARGE_EXACT and st == "OPTIMAL" and sol is not None:
        return sol
    if fn in LARGE_EXACT:
        return SKIP
    # equivalence only: the key still has to tell different outputs apart
    return ["EQ", st, (sorted(sorted(c) for c in sol) if fn.startswith("strongly") else sol), o["obj"]]


def py_levels(n, es, s, d):
    """Untrusted certificate for checkDist: BFS depth in the subgraph of tight edges."""
    adj = [[] for _ in range(n)]
    for u, v, w in es:
        if d[u] is not None and d[v] is not None and d[u] + w == d[v]:
            adj[u].append(v)
    lvl = [0] * n
    seen = [False] * n
    seen[s] = True
    q = [s]
    for u in q:
        for v in adj[u]:
            if not seen[v]:
                seen[v] = True
                lvl[v] = lvl[u] + 1
                q.append(v)
    return lvl


def _as_sublist(es, F):
    """Reorder the returned MST edges into input order (the checker wants a sublist of the input)."""
    used, idx = set(), []
    for f in F:
        hit = next((i for i, e in enumerate(es) if i not in used and e == f), None)
        if hit is None:
            return F
        used.add(hit)
        idx.append(hit)
    return [es[i] for i in sorted(idx)]


def encode_out(case, o):
    """Implementation output (canonical dict) -> protocol value for the verified checker."""
    fn, st, sol, obj = case["fn"], o["status"], o["sol"], o["obj"]
    if case.get("fp"):
        return encode_fp(case, o)
    if case.get("large"):
        return encode_large(case, o)
    if fn == "floyd_warshall":
        return None if st == "UNBOUNDED" else sol
    if fn in ("bellman_ford", "dijkstra_edges"):
        if case["t"] is None:
            return None if st == "UNBOUNDED" else sol
        if st == "UNBOUNDED":
            return ["unbounded"]
        if st == "INFEASIBLE":
            return ["infeasible"]
        return ["found", sol, obj]
    if fn == "bfs_edges":
        if case["t"] is None:
            return sol
        return ["infeasible"] if st == "INFEASIBLE" else ["found", sol, obj]
    if fn == "dfs_edges":
        if case["t"] is None:
            return sol
        return None if st == "INFEASIBLE" else sol
    if fn == "kruskal":
        F = None if sol is None else _as_sublist(_wes(case), sol)
        return [st, F, obj]
    if fn == "pagerank_edges":
        return sol
    if fn == "strongly_connected_components_edges":
        return sorted(sorted(c) for c in sol)
    if fn == "topological_sort_edges":
        return None if st == "INFEASIBLE" else sol
    raise ValueError(fn)


def well_formed(case, o):
    """Shape conditions the protocol encoding relies on (status/solution consistency)."""
    fn, st, sol, obj = case["fn"], o["status"], o["sol"], o["obj"]
    t = case.get("t")
    if fn == "floyd_warshall":
        return (st == "UNBOUNDED" and sol is None) or (st == "OPTIMAL" and sol is not None)
    if fn in ("bellman_ford", "dijkstra_edges"):
        if st == "UNBOUNDED":
            return fn == "bellman_ford" and sol is None
        if t is None:
            return st == "OPTIMAL" and sol is not None
        return (st == "INFEASIBLE" and sol is None and obj is None) or \
               (st == "OPTIMAL" and sol is not None and isinstance(obj, str if case.get("fp") else int))
    if fn in ("bfs_edges", "dfs_edges"):
        if t is None:
            return st == "OPTIMAL" and sol is not None
        return (st == "INFEASIBLE" and sol is None and obj is None) or \
               (st in ("OPTIMAL", "FEASIBLE") and sol is not None and obj == len(sol) - 1)
    if fn == "kruskal":
        return (st == "INFEASIBLE" and sol is None and obj is None) or \
               (st in ("OPTIMAL", "FEASIBLE") and sol is not None and isinstance(obj, int))
    if fn == "pagerank_edges":
        return st in ("OPTIMAL", "MAX_ITER") and sol is not None
    if fn == "strongly_connected_components_edges":
        return st == "OPTIMAL" and sol is not None and obj == len(sol)
    if fn == "topological_sort_edges":
        return (st == "INFEASIBLE" and sol is None) or (st == "OPTIMAL" and sol is not None)
    return False


def pagerank_fixed(case, damping):
    """Exact PageRank vector (Gaussian elimination over Fractions) for the double `damping` as given."""
    n = case["n"]
    if n == 0:
        return []
    d = Fraction(damping)
    out = [0] * n
    for u, _ in case["edges"]:
        out[u] += 1
    # x = base + d * (P x + dangling/n)
    A = [[Fraction(int(i == j)) for j in range(n)] for i in range(n)]
    for u, v in case["edges"]:
        A[v][u] -= d / out[u]
    for u in range(n):
        if out[u] == 0:
            for v in range(n):
                A[v][u] -= d / n
    b = [(1 - d) / n for _ in range(n)]
    for c in range(n):
        p = next(r for r in range(c, n) if A[r][c] != 0)
        A[c], A[p] = A[p], A[c]
        b[c], b[p] = b[p], b[c]
        inv = 1 / A[c][c]
        A[c] = [a * inv for a in A[c]]
        b[c] *= inv
        for r in range(n):
            if r != c and A[r][c] != 0:
                f = A[r][c]
                A[r] = [a - f * a2 for a, a2 in zip(A[r], A[c])]
                b[r] -= f * b[c]
    return b


def to_request(case, outs, out=None):
    """outs: list of distinct well-formed outputs; out: the raw pool outcome (PageRank defaults)."""
    fn, n, es = case["fn"], case["n"], _wes(case)
    enc = [encode_out(case, o) for o in outs]
    if case.get("style") == "inner_lists":
        return None
    if case.get("large"):
        if fn == "pagerank_edges":
            if len(outs) < 2:
                return None
            d, tol = Fraction(case["damping"]), Fraction(case["tol"])
            return ["within", outs[0]["sol"], outs[1]["sol"], core.rat((n + 1) * tol / (1 - d))]
        if fn not in LARGE_EXACT:
            return None
        if fn == "topological_sort_edges":
            return ["topoc", n, es, [[] if e == SKIP else e for e in enc]]
        if fn == "floyd_warshall":
            prob = es if case["directed"] else es + [[v, u, w] for u, v, w in es]
            return ["fwc", n, es, bool(case["directed"]), [[] if e == SKIP else e for e in enc],
                    [[] if e == SKIP else [py_levels(n, prob, i, e[i]) for i in range(n)] for e in enc]]
        return ["distc", n, es, case["s"], [[] if e == SKIP else e for e in enc],
                [[] if e == SKIP else py_levels(n, es, case["s"], e) for e in enc]]
    if case.get("fp"):
        if fn == "floyd_warshall":
            return ["support", n, es, bool(case["directed"]), [None if e == SKIP else e for e in enc]]
        if case["t"] is None:
            return ["reach", n, es, case["s"], [[] if e == SKIP else e for e in enc]]
        return ["anypath", n, es, case["s"], case["t"], [None if e == SKIP else e for e in enc]]
    if fn == "floyd_warshall":
        return ["fw", n, es, bool(case["directed"]), enc]
    if fn in ("bellman_ford", "dijkstra_edges"):
        if case["t"] is None:
            return ["dist", n, es, case["s"], enc]
        return ["pair", n, es, case["s"], case["t"], enc]
    if fn == "bfs_edges":
        if case["t"] is None:
            return ["reach", n, es, case["s"], enc]
        return ["pair", n, es, case["s"], case["t"], enc]
    if fn == "dfs_edges":
        if case["t"] is None:
            return ["reach", n, es, case["s"], enc]
        return ["anypath", n, es, case["s"], case["t"], enc]
    if fn == "kruskal":
        return ["mst", n, es, bool(case["allow_forest"]), enc]
    if fn == "pagerank_edges":
        damping, tol = case.get("damping"), case.get("tol")
        if case.get("defaults"):  # the python function's own defaults, read from its signature in the worker
            damping, tol = (out[1]["pr_defaults"][:2] if out and out[0] == "ok" else (0.85, 1e-6))
        return ["pagerank", n, es, core.rat(damping), core.rat(tol),
                [core.rat(x) for x in pagerank_fixed(case, damping)], enc]
    if fn == "strongly_connected_components_edges":
        return ["scc", n, es, enc]
    if fn == "topological_sort_edges":
        return ["topo", n, es, enc]
    raise ValueError(fn)


# ---------------------------------------------------------------------------
# comparison
# ---------------------------------------------------------------------------

def multigraph_features(case):
    es = case["edges"]
    pairs = [(e[0], e[1]) for e in es]
    dup = len(set(pairs)) < len(pairs)
    anti = any((v, u) in set(pairs) for u, v in pairs if u != v)
    # undirected pair carrying two different weights (parallel or anti-parallel)
    diffw = False
    if es and len(es[0]) == 3:
        seen = {}
        for u, v, w in es:
            k = (min(u, v), max(u, v))
            if k in seen and seen[k] != w:
                diffw = True
            seen.setdefault(k, w)
    return dup, anti, diffw


def prepare(case, out):
    """-> (distinct well-formed outputs, index per backend or None)."""
    outs, idx = [], {}
    if out[0] != "ok":
        return outs, idx
    for b in ("python", "rust", "None", "omit"):
        r = out[1].get(b)
        if not r or r[0] != "ok" or not well_formed(case, r[1]):
            idx[b] = None
            continue
        key = json.dumps(encode_out(case, r[1]), sort_keys=True)
        hit = next((i for i, (k, _) in enumerate(outs) if k == key), None)
        if hit is None:
            outs.append((key, r[1]))
            hit = len(outs) - 1
        idx[b] = hit
    return [o for _, o in outs], idx


def verdicts(case, reply, k):
    """Verified-checker verdict for distinct output k -> (accepted, extra)."""
    fn = case["fn"]
    if case.get("large"):
        return (reply[0][k] if fn in LARGE_EXACT else True), {}
    if case.get("fp"):
        if fn == "floyd_warshall":
            return reply[0][k], {}
        if case["t"] is None:
            return reply[1][k][0], {"same_set": reply[1][k][1]}
        return reply[1][k], {}
    if fn == "floyd_warshall":
        return reply[1][k], {"solves_first_weight_problem": reply[2][k]}
    if fn in ("bellman_ford", "dijkstra_edges"):
        return (reply[1][k], {}) if case["t"] is None else (reply[2][k], {})
    if fn == "bfs_edges":
        if case["t"] is None:
            return reply[1][k][0], {"same_set": reply[1][k][1]}
        return reply[2][k], {}
    if fn == "dfs_edges":
        if case["t"] is None:
            return reply[1][k][0], {"same_set": reply[1][k][1]}
        return reply[1][k], {}
    if fn == "kruskal":
        return reply[2][k], {}
    if fn == "pagerank_edges":
        return True, {}  # handled separately (tolerance relation, not a unique value)
    return reply[1][k], {}


_REPORTED: set = set()


def _fail(ctx, fn, klass, what, rep):
    """Every failure is counted; one replay per (function, class) and run is written, so that each
    distinct defect gets a VIOLATION line before core's cap on written replays is reached."""
    if isinstance(ctx, Probe):       # buffered: counted and de-duplicated when it is finally reported
        return ctx.fail(fn, klass, what, rep)
    ctx.count(f"fail:{fn}:{klass}")
    key = (id(ctx), fn, klass)
    if key in _REPORTED:
        return True
    _REPORTED.add(key)
    return ctx.fail(fn, klass, what, rep)


def judge(ctx, case, out, outs, idx, reply):
    fn = case["fn"]
    rep = {"case": case, "impl": out, "model": reply}
    dup, anti, diffw = multigraph_features(case)
    mode = fn + (":target" if case.get("t") is not None else "") + \
        (":undirected" if case.get("directed") is False else "") + (":fp" if case.get("fp") else "")
    ctx.count("fn:" + mode)
    ctx.count("style:" + case.get("style", "list"))
    if case.get("hist"):
        ctx.count(f"hist:{case['hist'][0]}:call{case['hist'][1]}")
    if case.get("large"):
        ctx.count(f"large:{fn}:{case['large']}:n{case['n']}")
    if not case["edges"]:
        ctx.count("empty_edge_list")
    elif case["n"] > 1 + max(max(e[0], e[1]) for e in case["edges"]):
        ctx.count("n_nodes_gt_largest_endpoint")
    if case.get("style") == "inner_lists":
        # outside the annotated contract list[tuple[...]]: recorded, never gating
        if out[0] == "ok":
            kinds = {b: (out[1][b][0] if out[1][b][0] == "ok" else out[1][b][1].split(":", 1)[0])
                     for b in ("python", "rust")}
            ctx.count(f"outside_contract:inner_lists:python={kinds['python']}:rust={kinds['rust']}")
        else:
            ctx.count(f"outside_contract:inner_lists:{out[0]}")
        ctx.case([fn, case], False, None)
        return
    if out[0] == "hung":
        kinds = out[1]
        noreturn = {"Timeout", "MemoryError", "WorkerDied"}
        if all(kd in noreturn for kd in kinds.values()):
            # every back-end fails to return on this input: the same (bad) behaviour, nothing C12 distinguishes
            ctx.count(f"all_backends_do_not_return:{mode}")
            if not any("do not return" in n for n in ctx.notes):
                ctx.notes.append("not a C12 failure, reported for C11: inputs on which python, rust and default all "
                                 f"do not return (first: {json.dumps(case)})")
        else:
            _fail(ctx, fn, "termination_differs", f"back-ends differ in returning at all: {kinds}", rep)
        ctx.case([fn, case], dup or anti, None)
        return
    if out[0] != "ok":
        _fail(ctx, fn, "raises:" + err_kind(out), f"worker failed: {out[1]}", rep)
        return
    res = out[1]
    ok_all = True
    for b in ("python", "rust", "None", "omit"):
        r = res[b]
        if r[0] != "ok":
            _fail(ctx, fn, f"raises:{r[1].split(':', 1)[0]}:{b}", f"backend={b} raised on a valid input: {r[1]}", rep)
            ok_all = False
        elif idx.get(b) is None:
            _fail(ctx, fn, f"malformed_result:{b}", f"backend={b}: status/solution/objective inconsistent: {r[1]}", rep)
            ok_all = False
    if not ok_all:
        ctx.case([fn, case], dup or anti, None)
        return
    py, rs, df, om = (res[b][1] for b in ("python", "rust", "None", "omit"))
    ctx.count(f"status:{fn}:{py['status']}")
    # --- default back-end: must be indistinguishable from an explicit choice -------------------
    for name, o in (("None", df), ("omit", om)):
        if o != rs and o != py:
            _fail(ctx, fn, f"default_differs:{name}", f"backend={name} gives neither the rust nor the python result", rep)
    ctx.count("default_equals_rust" if df == rs else "default_equals_python_only")
    # --- statuses ------------------------------------------------------------------------------
    if py["status"] != rs["status"]:
        klass = "status_differs"
        if fn == "dfs_edges" and (py["status"], rs["status"]) == ("FEASIBLE", "OPTIMAL"):
            klass = "status_differs:dfs_found_feasible_vs_optimal"
        robust = True
        if fn == "floyd_warshall" and not case["directed"] and diffw and not case.get("fp"):
            klass = "status_differs:undirected_multigraph"  # same defect as dist_wrong:undirected_multigraph
        if fn == "pagerank_edges":
            # a difference that disappears under a 1e-6 relative change of tol is a rounding straddle of the
            # convergence test, not a difference in meaning
            robust = bool(py.get("alt")) and all(a != b for a, b in zip(py["alt"], rs["alt"]))
            if (py["status"], rs["status"]) == ("OPTIMAL", "MAX_ITER"):
                klass = "status_differs:pagerank_convergence_norm"
        if robust:
            _fail(ctx, fn, klass, f"status python={py['status']} rust={rs['status']}", rep)
        else:
            ctx.count("pagerank_status_straddle_ignored")
    # --- verified checker on every output ------------------------------------------------------
    if fn == "pagerank_edges" and case.get("large"):
        ctx.count("large_equivalence_only")
        if reply is not None and not reply[0]:
            _fail(ctx, fn, "scores_differ", "python and rust scores differ by more than (n+1)*tol/(1-d)", rep)
    elif fn == "pagerank_edges":
        fixed_ok, bound, near_fixed, pair = reply
        if not fixed_ok:
            raise core.Infra(f"exact PageRank vector rejected by isPrFixed: {case}")
        ctx.count("pagerank_fixed_point_verified")
        for b in ("python", "rust", "None"):
            o = res[b][1]
            if o["status"] == "OPTIMAL" and not near_fixed[idx[b]]:
                _fail(ctx, fn, f"scores_off_fixed_point:{b}", f"backend={b}: OPTIMAL scores farther than 10*tol/(1-d) "
                         "from the exact PageRank vector", rep)
        if not pair[idx["python"]][idx["rust"]]:
            _fail(ctx, fn, "scores_differ", "python and rust scores differ by more than 10*tol/(1-d)", rep)
    else:
        acc = {}
        for b in ("python", "rust", "None"):
            if case.get("fp") and encode_out(case, res[b][1]) == SKIP:
                acc[b] = True   # UNBOUNDED on an inexact-double input: only the back-end comparison applies
                ctx.count("fp_unbounded_not_exact_checked")
                continue
            if case.get("large") and (fn not in LARGE_EXACT or encode_out(case, res[b][1]) == SKIP):
                acc[b] = True   # the exact checker does not scale here: back-end comparison only
                ctx.count("large_equivalence_only")
                continue
            acc[b], extra = verdicts(case, reply, idx[b])
            ctx.count(f"checker:{b}:{'accept' if acc[b] else 'reject'}")
            if acc[b]:
                continue
            o = res[b][1]
            klass = f"output_rejected:{b}"
            what = f"backend={b}: output rejected by the verified checker: {o}"
            if case.get("fp"):
                klass = f"fp_support_or_path_rejected:{b}"
            if fn in ("bfs_edges", "dfs_edges") and case["t"] is None and extra.get("same_set"):
                klass = f"reach_list_not_sorted:{b}"
                what = (f"backend={b} returns the reachable nodes as {o['sol']}; the documented value "
                        f"(python back-end) is the sorted list {reply[0]}")
            elif fn == "floyd_warshall" and not case["directed"] and diffw and b != "python":
                klass = f"dist_wrong:undirected_multigraph:{b}"
                what = (f"backend={b}: undirected distances are not the shortest distances of the multigraph "
                        f"(first weight per pair kept: {extra.get('solves_first_weight_problem')})")
            if b == "None" and res["None"][1] == res["rust"][1]:
                continue  # same output as rust: already reported
            _fail(ctx, fn, klass, what, rep)
        # direct cross-check of the compared observables (implied by obs_unique_* when both are accepted)
        if acc["python"] and acc["rust"]:
            same = observable(case, py) == observable(case, rs)
            ctx.count("r_prop_agree" if same else "r_prop_disagree")
            if not same:
                _fail(ctx, fn, "observable_differs", f"both outputs accepted but observables differ: "
                         f"{observable(case, py)} vs {observable(case, rs)}", rep)
    # --- not gating: Result.objective where it is a diagnostic, not part of the answer -----------------
    if py.get("objraw") != rs.get("objraw") and py["status"] == rs["status"]:
        ctx.count(f"objective_field_differs_not_gating:{fn}")
    # --- R_trace: mirrors of the Rust traversal kernels ------------------------------------------
    if "raw_order" in res and reply is not None and not case.get("large"):
        mirror = reply[2] if fn == "bfs_edges" else reply[3]
        if res["raw_order"] != mirror:
            ctx.tdiv(fn, {"case": case, "rust_visited_order": res["raw_order"], "mirror": mirror})
        else:
            ctx.count("r_trace_agree")
    ctx.case([fn, {k: v for k, v in case.items()}], dup or anti,
             None if case.get("large") else {"case": case, "python": py, "rust": rs, "default": df})


def observable(case, o):
    fn = case["fn"]
    if case.get("large") and fn == "pagerank_edges":
        return [o["status"]]
    if case.get("fp"):   # status + bit-exact distances / objective (paths may differ)
        if case.get("t") is not None:
            return [o["status"], o["sol"] is not None, o["obj"]]
        return [o["status"], o["sol"]]
    if fn == "kruskal":
        return [o["status"], o["obj"]]
    if fn == "dfs_edges" and case["t"] is not None:
        return [o["sol"] is not None]
    if fn in ("bellman_ford", "dijkstra_edges", "bfs_edges") and case["t"] is not None:
        return [o["sol"] is not None, o["obj"]]
    if fn == "strongly_connected_components_edges":
        return [sorted(sorted(c) for c in o["sol"]), o["obj"]]
    if fn == "topological_sort_edges":
        return [o["sol"] is not None]
    return o["sol"]


class Probe:
    """Stands in for ctx while a later call of a history (or its solo re-run) is judged: counts and cases go
    through (or are dropped for the solo re-run), failures are buffered."""

    def __init__(self, ctx, passthrough=True):
        self.ctx, self.passthrough, self.fails = ctx, passthrough, []
        self.notes = ctx.notes if passthrough else []

    def count(self, k, n=1):
        if self.passthrough:
            self.ctx.count(k, n)

    def case(self, *a, **kw):
        if self.passthrough:
            self.ctx.case(*a, **kw)

    def tdiv(self, *a, **kw):
        if self.passthrough:
            self.ctx.tdiv(*a, **kw)

    def fail(self, fn, klass, what, rep):
        self.fails.append((fn, klass, what, rep))
        return True


def _execute(groups):
    """Run the groups in the worker pool -> flat list of (case, outcome) in order."""
    small = [g for g in groups if not any(c.get("large") for c in g)]
    big = [g for g in groups if any(c.get("large") for c in g)]
    res = {}
    for part, limit in ((small, 8.0), (big, 240.0)):
        for g, o in zip(part, run_pool(impl_group, part, timeout=limit)):
            res[id(g)] = o
    flat = []
    hung = []
    for g in groups:
        o = res[id(g)]
        if o[0] == "ok":
            flat += [(c, ("ok", oc)) for c, oc in zip(g, o[1])]
        else:
            for c in g:
                hung.append(len(flat))
                flat.append((c, o))
    if hung:
        # which back-ends fail to return?  (each alone, short limit; a history is split into its calls)
        sub = run_pool(impl_one, [(flat[i][0], b) for i in hung for b in BACKENDS], timeout=4.0)
        again = []
        for k, i in enumerate(hung):
            kinds = [err_kind(r) for r in sub[3 * k:3 * k + 3]]
            if all(kd == "ok" for kd in kinds):
                again.append(i)      # load spike, or a member of a hung history: run the case once more, alone
            else:
                flat[i] = (flat[i][0], ("hung", dict(zip(("python", "rust", "None"), kinds))))
        if again:
            for i, o in zip(again, run_pool(impl, [flat[i][0] for i in again], timeout=240.0, procs=4)):
                flat[i] = (flat[i][0], o)
    return flat


def _model(flat):
    prepared = [prepare(c, o) for c, o in flat]
    reqs = [to_request(c, p[0], o) for (c, o), p in zip(flat, prepared)]
    live = [r for r in reqs if r is not None]
    answers = iter(Driver("Backend").run(live, chunks=16))
    replies = [None if r is None else next(answers) for r in reqs]
    for (c, _), rp in zip(flat, replies):
        if rp and rp[0] == "error":
            raise core.Infra(f"model rejected request: {rp} for {c}")
    return prepared, replies


def run_cases(ctx, groups):
    global _PKG
    info = rustbuild.build()
    _PKG = info["pkg"]
    ctx.cov["rust_build"] = {k: info.get(k) for k in ("mode", "build_cmd", "build_s", "rust_src_hash", "module",
                                                       "default_backend", "fallback_reason", "repo")}
    if info["mode"] != "cargo-offline":
        ctx.notes.append("Rust extension NOT rebuilt from the working tree: " + info.get("fallback_reason", ""))
    if info.get("default_backend") != "rust":
        raise core.Infra("default back-end is not rust although the extension was built")
    flat = _execute(groups)
    prepared, replies = _model(flat)
    prev = {}   # id(case) -> the calls made before it in its history
    for g in groups:
        for k, c in enumerate(g):
            prev[id(c)] = g[:k]
    pending = []
    for (c, o), p, rp in zip(flat, prepared, replies):
        probe = Probe(ctx)
        judge(probe, c, o, p[0], p[1], rp)
        if not probe.fails:
            continue
        if len(pending) < 24 and not c.get("large"):
            pending.append((c, probe.fails))     # worker processes are reused: any case has a call history
        else:
            for f in probe.fails:
                _fail(ctx, *f)
    if pending:
        # the same inputs alone, each in a fresh process: does the failure need the previous calls?
        solo_groups = [[c] for c, _ in pending]
        solo = []
        for g in solo_groups:   # one pool per case => a freshly forked worker per case
            solo += _execute([g])
        sp, sr = _model(solo)
        for (c, fails), (c2, o2), p2, r2 in zip(pending, solo, sp, sr):
            probe = Probe(ctx, passthrough=False)
            judge(probe, c2, o2, p2[0], p2[1], r2)
            alone = {(f[0], f[1]) for f in probe.fails}
            for fn, klass, what, rep in fails:
                if (fn, klass) in alone:
                    _fail(ctx, fn, klass, what, rep)
                else:
                    rep = dict(rep, case=dict(c, history=prev[id(c)]),
                               note="previous calls in the same worker process other than `history` may matter")
                    _fail(ctx, fn, klass + ":after_previous_call",
                          what + " (the same input alone in a fresh process passes)", rep)
    h = ctx.cov["histogram"]
    ctx.cov["cert_checked_impl"] = sum(v for k, v in h.items() if k.startswith("checker:") and k.endswith(":accept"))
    ctx.cov["r_prop_agree"] = h.get("r_prop_agree", 0)
    ctx.cov["r_trace_agree"] = h.get("r_trace_agree", 0)
    if any(k.startswith("objective_field_differs_not_gating") for k in h) and \
            not any("Result.objective" in n for n in ctx.notes):
        ctx.notes.append("not gating: Result.objective differs between back-ends where it is a diagnostic rather than "
                         "part of the answer (topological_sort_edges: python len(order) vs rust 0; pagerank_edges: "
                         "python last max_diff vs rust 0.0); iterations/evaluations are not compared either")


def run(ctx, budget):
    ctx.cov["rule"] = RULE
    groups = [[c] for c in edge_cases()] + [[c["case"]] for c in core.load_corpus("C12")]
    quick = ctx.tier == "quick"
    per_fn = (450 if quick else 1500) * budget
    for i in range(per_fn):
        for fn in FUNCS:
            groups.append([add_presentation(ctx.rng, gen_case(ctx.rng, fn, big=(not quick and i % 3 == 0)))])
    for _ in range((700 if quick else 1500) * budget):    # histories: fixed share of the calls
        groups.append(gen_history(ctx.rng))
    for _ in range(2 * budget if quick else budget):       # a few large instances per function
        for fn in FUNCS:
            groups.append([gen_large(ctx.rng, fn)])
    run_cases(ctx, groups)


def replay(ctx, body):
    ctx.cov["rule"] = RULE
    case = dict(body["case"])
    history = case.pop("history", None) or []
    run_cases(ctx, [list(history) + [case]])
