"""C15 — cut vertices, bridges, k-cores, PageRank, Louvain (solvor/articulation.py, kcore.py,
pagerank.py, community.py) against the executable definitions and mirrors of Solvor/Net."""
from __future__ import annotations

from fractions import Fraction

import core
from core import Driver, fbits, rat, unrat
from pool import err_kind, run_pool

AREAS = ["Net"]
LEVEL = "proof"
ASSUMPTIONS = [
    "Python dict/set as insertion-ordered association lists. kcore_decomposition's unspecified choices (which "
    "element set.pop() returns, the order `for w in adj[v]` walks the set) are an oracle parameter of the mirror and "
    "kcore_peeling_correct holds for every admissible oracle; the driver runs the first-element oracle",
    "the low-link DFS mirror (articulation_points / bridges, mirroring the repaired code that walks the symmetrised "
    "adjacency) is proved correct for every input (lowlink_correct); the recursion of the Python code is modelled "
    "with fuel n+1 (proved sufficient), Python's recursion limit is not modelled",
    "PageRank/Louvain theorems are about the Rat instantiation of the one model text; the Float instantiation "
    "(CPython 3.12 compensated sum modelled by pySumF) is tied by bit-equality of the returned scores and by "
    "equality of the returned partition; IEEE rounding itself is outside the theorems",
    "PageRank residual clause: a converged run (status OPTIMAL) must satisfy the damped equation with uniform "
    "dangling redistribution within damping*n*tol + 1e-9 at every node (pagerank_residual_bound: the bound implied "
    "by the stopping rule max|new-old| < tol and the L1 contraction); after MAX_ITER only non-negativity and the "
    "sum are required; max_iter >= 1 (max_iter=0 raises UnboundLocalError, outside the property's quantifier)",
    "modularity of an edgeless graph: the formula divides by m = 0; both the code (0.0) and modularityDef (Lean's "
    "x/0 = 0) give 0",
    "node labels are distinct non-negative integers (the theorems assume G.nodes.Nodup); `v < w` on labels is the "
    "integer order",
]
RULE = ("graphs with <= 9 nodes (<= 12 in every third thorough case): random sparse/dense, unions of paths, cycles, "
        "cliques and stars joined by bridges or shared vertices; every undirected edge listed from one side, the "
        "other, or both; self loops, duplicate neighbours, neighbours outside the node set, isolated nodes, shuffled "
        "node and neighbour order, non-contiguous labels; damping in (0,1), resolution > 0, tol and max_iter varied "
        "or left at their defaults; non-trivial = at least one cut vertex or at least two distinct core numbers; "
        "distinct by canonical (nodes, neighbour lists, parameters)")
EPS = Fraction(1, 10**9)
LV_FUEL = 2000


# ---------------------------------------------------------------------------
# generator
# ---------------------------------------------------------------------------

def _structure(rng, n):
    """undirected edge set on positions 0..n-1"""
    edges = set()
    kind = rng.random()
    if n < 2:
        return edges
    if kind < 0.35:
        p = rng.choice([0.1, 0.2, 0.3, 0.45, 0.7])
        for i in range(n):
            for j in range(i + 1, n):
                if rng.random() < p:
                    edges.add((i, j))
    elif kind < 0.55:  # random tree / forest plus a few chords
        for i in range(1, n):
            if rng.random() < 0.85:
                edges.add((rng.randrange(i), i))
        for _ in range(rng.choice([0, 0, 1, 2, 3])):
            i, j = rng.sample(range(n), 2)
            edges.add((min(i, j), max(i, j)))
    else:  # blocks (path / cycle / clique / star) glued by bridges, shared vertices or left apart
        pos = 0
        prev_block = None
        while pos < n:
            size = min(n - pos, rng.choice([1, 2, 3, 3, 4, 4, 5]))
            blk = list(range(pos, pos + size))
            shape = rng.choice(["path", "cycle", "clique", "star"])
            if shape in ("path", "cycle"):
                for a, b in zip(blk, blk[1:]):
                    edges.add((a, b))
                if shape == "cycle" and size >= 3:
                    edges.add((blk[0], blk[-1]))
            elif shape == "clique":
                for a in blk:
                    for b in blk:
                        if a < b:
                            edges.add((a, b))
            else:
                for b in blk[1:]:
                    edges.add((blk[0], b))
            if prev_block is not None:
                glue = rng.random()
                if glue < 0.4:  # bridge
                    edges.add((rng.choice(prev_block), rng.choice(blk)))
                elif glue < 0.65:  # two links (no bridge between the blocks)
                    for _ in range(2):
                        edges.add((rng.choice(prev_block), rng.choice(blk)))
                elif glue < 0.8 and size >= 2:  # shared vertex: tie one vertex of prev to two of blk
                    a = rng.choice(prev_block)
                    for b in rng.sample(blk, 2):
                        edges.add((a, b))
            prev_block = blk
            pos += size
    return {(min(a, b), max(a, b)) for a, b in edges if a != b}


def gen_case(rng, big: bool):
    hi = 12 if big else 9
    n = rng.choice([2, 3, 4, 4, 5, 5, 6, 6, 7, 7, 8, 8, hi, hi, hi]) if rng.random() < 0.93 else rng.randint(0, hi)
    style = rng.random()
    if style < 0.5:
        labels = list(range(n))
    elif style < 0.8:
        labels = rng.sample(range(2 * n + 3), n)
    else:
        labels = [3 * i + 1 for i in range(n)]
    rng.shuffle(labels)
    edges = _structure(rng, n)
    lists = [[] for _ in range(n)]
    asym_p = rng.choice([0.0, 0.0, 0.2, 0.5, 1.0])
    for a, b in sorted(edges):
        if rng.random() < asym_p:
            if rng.random() < 0.5:
                lists[a].append(b)
            else:
                lists[b].append(a)
        else:
            lists[a].append(b)
            lists[b].append(a)
    for i in range(n):
        if rng.random() < 0.15:
            lists[i].append(i)  # self loop
        if lists[i] and rng.random() < 0.2:
            lists[i].append(rng.choice(lists[i]))  # duplicate neighbour
        rng.shuffle(lists[i])
    nbrs = [[labels[j] for j in l] for l in lists]
    outside = [x for x in range(3 * n + 5) if x not in labels]
    for i in range(n):
        if rng.random() < 0.08:
            nbrs[i].insert(rng.randint(0, len(nbrs[i])), rng.choice(outside))
    params = {}
    if rng.random() < 0.6:
        params["damping"] = rng.choice([0.85, 0.5, 0.1, 0.99, 0.3, 0.01, round(rng.uniform(0.01, 0.99), 3),
                                        rng.uniform(0.001, 0.999)])
    if rng.random() < 0.5:
        params["tol"] = rng.choice([1e-6, 1e-3, 1e-9, 1e-12, 0.1, 1e-15, 0.0, 2.5e-7])
    if rng.random() < 0.4:
        params["max_iter"] = rng.choice([1, 2, 3, 5, 20, 100, 1000, 5000])
    if rng.random() < 0.6:
        params["resolution"] = rng.choice([1.0, 0.5, 2.0, 0.1, 5.0, 0.999, round(rng.uniform(0.05, 3.0), 2),
                                           rng.uniform(0.01, 4.0)])
    return {"nodes": labels, "nbrs": nbrs, "k": rng.choice([0, 1, 1, 2, 2, 3, 4, 6]), "params": params}


def edge_cases():
    def c(nodes, nbrs, k=1, **params):
        return {"nodes": nodes, "nbrs": nbrs, "k": k, "params": params}
    yield c([], [])
    yield c([5], [[5]])
    yield c([0, 1], [[1], []])                                   # one edge listed from one side
    yield c([0, 1, 2], [[1], [0, 2], [1]], k=1)                  # chain
    yield c([0, 1, 2], [[1, 2], [0, 2], [0, 1]], k=2)            # triangle
    yield c([1, 3, 2, 4, 0], [[1, 4, 0], [], [4, 1], [2], [2]])  # DESIGN §4 C15 witness (asymmetric)
    yield c([0, 1, 2, 3, 4, 5], [[1, 2], [0, 2], [0, 1, 3], [2, 4, 5], [3, 5], [3, 4]], k=2)  # two triangles + bridge
    yield c([0, 1, 2, 3], [[], [], [], []], k=0)                 # no edges
    yield c([0, 1, 2, 3], [[1, 1, 0], [0], [3, 9], [2, 2]], k=1, damping=0.5, resolution=2.0)
    yield c([2, 0, 1], [[0], [1], [2]], damping=0.99, tol=1e-12, max_iter=5000)  # directed 3-cycle
    yield c([0, 1, 2, 3], [[1], [2], [3], []], damping=0.85, max_iter=1)         # dangling sink, MAX_ITER


# ---------------------------------------------------------------------------
# implementation side (runs in a worker process)
# ---------------------------------------------------------------------------

def impl(case, only=None):
    from solvor.articulation import articulation_points, bridges
    from solvor.community import louvain
    from solvor.kcore import kcore, kcore_decomposition
    from solvor.pagerank import pagerank

    nodes = list(case["nodes"])
    adj = {v: list(l) for v, l in zip(nodes, case["nbrs"])}
    p = case["params"]

    def nb(v):
        return list(adj[v])

    def guard(f):
        if only is not None and f.__name__ != only:
            return ("ok", None)
        try:
            return ("ok", f())
        except Exception as e:  # noqa: BLE001 - the error kind is an observable
            return ("err", f"{type(e).__name__}: {e}"[:300])

    out = {}
    def f_ap():
        return sorted(articulation_points(list(nodes), nb).solution)

    def f_br():
        return [list(e) for e in bridges(list(nodes), nb).solution]

    def f_kd():
        return [[v, c] for v, c in kcore_decomposition(list(nodes), nb).solution.items()]

    def f_ks():
        return sorted(kcore(list(nodes), nb, case["k"]).solution)
    f_ap.__name__, f_br.__name__, f_kd.__name__, f_ks.__name__ = FNS[:4]
    out["articulation_points"] = guard(f_ap)
    out["bridges"] = guard(f_br)
    out["kcore_decomposition"] = guard(f_kd)
    out["kcore"] = guard(f_ks)

    def pr():
        kw = {k: p[k] for k in ("damping", "tol", "max_iter") if k in p}
        r = pagerank(list(nodes), nb, **kw)
        keys = list(r.solution.keys())
        return {"status": r.status.name, "keys": keys,
                "bits": [fbits(float(r.solution[v])) for v in keys],
                "rats": [rat(r.solution[v]) for v in keys]}
    pr.__name__ = "pagerank"
    out["pagerank"] = guard(pr)

    def lv():
        kw = {"resolution": p["resolution"]} if "resolution" in p else {}
        r = louvain(list(nodes), nb, **kw)
        return {"comms": [sorted(c) for c in r.solution], "modularity": rat(r.objective)}
    lv.__name__ = "louvain"
    out["louvain"] = guard(lv)
    out["unchanged"] = adj == {v: list(l) for v, l in zip(case["nodes"], case["nbrs"])}
    return out


FNS = ["articulation_points", "bridges", "kcore_decomposition", "kcore", "pagerank", "louvain"]


def impl_single(arg):
    case, fn = arg
    return impl(case, only=fn)[fn]


def _scalar(p, key):
    return None if key not in p else [rat(p[key]), fbits(float(p[key]))]


def to_request(case, out):
    p = case["params"]
    ipr = ilv = None
    if out[0] == "ok":
        o = out[1]
        if o["pagerank"][0] == "ok" and o["pagerank"][1]["keys"] == case["nodes"]:
            ipr = [o["pagerank"][1]["status"], o["pagerank"][1]["rats"]]
        if o["louvain"][0] == "ok":
            ilv = [o["louvain"][1]["comms"], o["louvain"][1]["modularity"]]
    return ["case", case["nodes"], case["nbrs"], case["k"], _scalar(p, "damping"), _scalar(p, "tol"),
            p.get("max_iter"), _scalar(p, "resolution"), LV_FUEL, rat(EPS), ipr, ilv]


# ---------------------------------------------------------------------------
# comparison
# ---------------------------------------------------------------------------

def features(case):
    nodes, nbrs = case["nodes"], case["nbrs"]
    ns = set(nodes)
    adj = dict(zip(nodes, nbrs))
    asym = any(w in ns and w != v and v not in adj[w] for v in nodes for w in adj[v])
    return {"asymmetric": asym,
            "self_loop": any(v in adj[v] for v in nodes),
            "dup_nbr": any(len(set(l)) != len(l) for l in nbrs),
            "outside_nbr": any(w not in ns for l in nbrs for w in l),
            "isolated": any(not [w for w in adj[v] if w in ns and w != v] and
                            not any(v in adj[u] for u in nodes if u != v) for v in nodes)}


def judge(ctx, case, out, reply):
    rep = {"case": case, "impl": out, "model": reply}
    feat = features(case)
    tag = ":asymmetric" if feat["asymmetric"] else ""
    for f, on in feat.items():
        if on:
            ctx.count("input:" + f)
    ctx.count(f"n={len(case['nodes'])}")
    for key in ("damping", "tol", "max_iter", "resolution"):
        ctx.count(f"{key}:" + ("given" if key in case["params"] else "default"))
    if out[0] != "ok":
        ctx.fail("articulation_points", "raises:" + err_kind(out), f"worker failed: {out[1]}", rep)
        return
    o = out[1]
    defs, mirror, pr, prv, lv, lvv = reply
    ncomp, d_ap, d_br, d_core, d_kset = defs
    m_ap, m_br, m_core, m_kset = mirror
    nodes = case["nodes"]
    if not o["unchanged"]:
        ctx.fail("articulation_points", "input_modified", "a neighbour list was modified", rep)

    def got(fn):
        r = o[fn]
        if r[0] != "ok":
            ctx.fail(fn, "raises:" + r[1].split(":", 1)[0] + tag, f"{fn} raised on a graph in the quantifier: {r[1]}", rep)
            return None
        return r[1]

    # --- cut vertices ------------------------------------------------------------------------
    ap = got("articulation_points")
    if ap is not None:
        if ap != sorted(d_ap):
            ctx.fail("articulation_points", "cut_vertices_wrong" + tag,
                     f"returned {ap}; removal increases the component count exactly for {sorted(d_ap)}", rep)
        elif sorted(m_ap) != ap:
            ctx.tdiv("articulation_points", {"case": case, "impl": ap, "mirror": m_ap})
        else:
            ctx.count("cert:cut_vertices")
    # --- bridges -----------------------------------------------------------------------------
    br = got("bridges")
    if br is not None:
        if sorted(map(tuple, br)) != sorted(map(tuple, d_br)):
            ctx.fail("bridges", "bridges_wrong" + tag,
                     f"returned {br}; removal increases the component count exactly for {sorted(d_br)}", rep)
        elif br != m_br:
            ctx.tdiv("bridges", {"case": case, "impl": br, "mirror": m_br})
        else:
            ctx.count("cert:bridges")
    # --- core numbers --------------------------------------------------------------------------
    kd = got("kcore_decomposition")
    want = sorted(zip(nodes, d_core))
    if kd is not None:
        if sorted(map(tuple, kd)) != want:
            ctx.fail("kcore_decomposition", "core_numbers_wrong" + tag,
                     f"returned {sorted(map(tuple, kd))}; repeated deletion gives {want}", rep)
        elif sorted(map(tuple, m_core)) != want:
            ctx.tdiv("kcore_decomposition", {"case": case, "impl": kd, "mirror": m_core})
        else:
            ctx.count("cert:core_numbers")
    ks = got("kcore")
    if ks is not None:
        if ks != sorted(d_kset):
            ctx.fail("kcore", "kcore_set_wrong" + tag, f"kcore(k={case['k']}) returned {ks}; nodes with core number "
                     f">= k are {sorted(d_kset)}", rep)
        elif sorted(m_kset) != ks:
            ctx.tdiv("kcore", {"case": case, "impl": ks, "mirror": m_kset})
    # --- PageRank ------------------------------------------------------------------------------
    p = got("pagerank")
    if p is not None:
        ctx.count("pagerank:" + p["status"])
        if p["keys"] != nodes:
            ctx.fail("pagerank", "keys_not_nodes", f"scores are keyed by {p['keys']}, nodes are {nodes}", rep)
        elif p["status"] not in ("OPTIMAL", "MAX_ITER"):
            ctx.fail("pagerank", "bad_status", f"unexpected status {p['status']}", rep)
        elif nodes:
            ok, nonneg, total, resid, bound = prv
            if not ok:
                if not nonneg:
                    ctx.fail("pagerank", "negative_score", "a score is negative", rep)
                elif abs(unrat(total) - 1) > EPS:
                    ctx.fail("pagerank", "sum_not_one", f"scores sum to {float(unrat(total))!r}", rep)
                else:
                    ctx.fail("pagerank", "residual_exceeds_tolerance", f"status {p['status']}: residual "
                             f"{float(unrat(resid)):.3e} of the damped PageRank equation exceeds {float(unrat(bound)):.3e}", rep)
            else:
                ctx.count("cert:pagerank")
                if (p["status"], p["bits"]) != (pr[0], pr[2]):
                    ctx.tdiv("pagerank", {"case": case, "impl": [p["status"], p["bits"]], "mirror": [pr[0], pr[2]]})
                else:
                    ctx.count("r_trace:pagerank_bit_equal")
    # --- Louvain -------------------------------------------------------------------------------
    l = got("louvain")
    if l is not None:
        part_ok, md, mod_ok = lvv
        if not part_ok:
            ctx.fail("louvain", "not_a_partition", f"communities {l['comms']} are not a partition of {nodes}", rep)
        elif not mod_ok:
            ctx.fail("louvain", "modularity_misreported", f"reported modularity {float(unrat(l['modularity']))!r}, the "
                     f"formula gives {float(unrat(md))!r} for the returned partition", rep)
        else:
            ctx.count("cert:louvain")
            if lv is None:
                ctx.count("louvain_mirror_out_of_fuel")
            elif sorted(map(sorted, lv[0])) != sorted(l["comms"]):
                ctx.tdiv("louvain", {"case": case, "impl": l["comms"], "mirror": lv[0]})
            else:
                ctx.count("r_trace:louvain_partition_equal")
    ctx.cov["cert_checked_impl"] = sum(v for k, v in ctx.cov["histogram"].items() if k.startswith("cert:"))
    ctx.cov["r_trace_agree"] = sum(v for k, v in ctx.cov["histogram"].items() if k.startswith("r_trace:"))
    ctx.cov["missing_theorems"] = []
    ctx.count(f"components={min(ncomp, 4)}{'+' if ncomp >= 4 else ''}")
    ctx.count(f"cut_vertices={min(len(d_ap), 3)}")
    ctx.count(f"bridges={min(len(d_br), 3)}")
    ctx.count(f"core_levels={len(set(d_core))}")
    nontrivial = len(d_ap) >= 1 or len(set(d_core)) >= 2
    canon = [nodes, case["nbrs"], case["k"], sorted(case["params"].items())]
    ctx.case(canon, nontrivial, {"case": case, "cut_vertices": d_ap, "bridges": d_br, "core": d_core,
                                 "impl_ap": o["articulation_points"], "impl_bridges": o["bridges"]})


class Probe:
    """Stands in for ctx while judging: records the failed clauses instead of reporting them."""

    def __init__(self, real=None):
        self.real = real
        self.fails = []
        self.cov = real.cov if real is not None else {"histogram": {}}

    def fail(self, function, klass, what, replay):
        self.fails.append((function, klass, what, replay))

    def tdiv(self, function, detail):
        if self.real is not None:
            self.real.tdiv(function, detail)

    def count(self, key, n=1):
        if self.real is not None:
            self.real.count(key, n)

    def case(self, canon, nontrivial, sample=None):
        if self.real is not None:
            self.real.case(canon, nontrivial, sample)


def evaluate(cases):
    outs = run_pool(impl, cases, timeout=30.0)
    reqs = [to_request(c, o) for c, o in zip(cases, outs)]
    replies = Driver("Net").run(reqs, chunks=16)
    for c, rp in zip(cases, replies):
        if rp and rp[0] == "error":
            raise core.Infra(f"model rejected request: {rp} for {c}")
    return outs, replies


def shrink_candidates(case):
    """One-step structural reductions: drop a node, drop a neighbour entry, drop a parameter."""
    nodes, nbrs = case["nodes"], case["nbrs"]
    for i in range(len(nodes)):
        gone = nodes[i]
        yield {**case, "nodes": nodes[:i] + nodes[i + 1:],
               "nbrs": [[x for x in l if x != gone] for j, l in enumerate(nbrs) if j != i]}
    for i, l in enumerate(nbrs):
        for j in range(len(l)):
            yield {**case, "nbrs": [l[:j] + l[j + 1:] if q == i else list(m) for q, m in enumerate(nbrs)]}
    for key in list(case["params"]):
        yield {**case, "params": {a: b for a, b in case["params"].items() if a != key}}
    if case["k"] > 0:
        yield {**case, "k": case["k"] - 1}


def shrink(case, function, klass, max_rounds=40):
    """Greedy delta debugging: keep a reduction only if the same (function, class) still fails."""
    history = []
    best = None
    for _ in range(max_rounds):
        cands = list(shrink_candidates(case))
        if not cands:
            break
        outs, replies = evaluate(cands)
        found = None
        for c, o, rp in zip(cands, outs, replies):
            if o[0] != "ok":
                continue
            pr = Probe()
            judge(pr, c, o, rp)
            hit = [f for f in pr.fails if f[0] == function and f[1] == klass]
            if hit:
                found = (c, hit[0])
                break
        if found is None:
            break
        case, best = found
        history.append({"nodes": len(case["nodes"]), "entries": sum(len(l) for l in case["nbrs"])})
    return case, best, history


SHRINK_LIMIT = 6  # violations shrunk per run (each costs a few driver round trips)


def run_cases(ctx, cases, do_shrink=True):
    outs, replies = evaluate(cases)
    shrunk = 0
    for c, o, rp in zip(cases, outs, replies):
        if o[0] == "timeout":
            # attribute the timeout: run the functions one by one
            for fn, r in zip(FNS, run_pool(impl_single, [(c, fn) for fn in FNS], timeout=30.0)):
                if r[0] == "timeout":
                    ctx.fail(fn, "timeout", f"no answer within {r[1]} s on a graph with {len(c['nodes'])} nodes",
                             {"case": c, "impl": r, "model": rp})
            continue
        pr = Probe(ctx)
        judge(pr, c, o, rp)
        for function, klass, what, rep in pr.fails:
            if do_shrink and shrunk < SHRINK_LIMIT and ctx.known_match(function, klass) is None \
                    and len(ctx.violations) < 20:
                shrunk += 1
                small, hit, history = shrink(c, function, klass)
                if hit is not None:
                    what, rep = hit[2], {**hit[3], "original_case": c, "shrink_history": history}
            ctx.fail(function, klass, what, rep)


def run(ctx, budget):
    ctx.cov["rule"] = RULE
    cases = list(edge_cases()) + [c["case"] for c in core.load_corpus("C15")]
    n = 2500 * budget
    cases += [gen_case(ctx.rng, big=(ctx.tier == "thorough" and i % 3 == 0)) for i in range(n)]
    run_cases(ctx, cases)


def replay(ctx, body):
    ctx.cov["rule"] = RULE
    run_cases(ctx, [body["case"]], do_shrink=False)
