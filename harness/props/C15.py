"""C15 — cut vertices, bridges, k-cores, PageRank, Louvain (solvor/articulation.py, kcore.py,
pagerank.py, community.py) against the executable definitions and mirrors of Solvor/Net."""
from __future__ import annotations

from fractions import Fraction

import core
from core import Driver, fbits, rat, unrat
from pool import err_kind, run_pool

AREAS = ["Net"]
LEVEL = "proof"
ASSUMPTIONS = [
    "Python dict/set as insertion-ordered association lists. kcore_decomposition's unspecified choices (which "
    "element set.pop() returns, the order `for w in adj[v]` walks the set) are an oracle parameter of the mirror and "
    "kcore_peeling_correct holds for every admissible oracle; the driver runs the first-element oracle",
    "the low-link DFS mirror (articulation_points / bridges, mirroring the repaired code that walks the symmetrised "
    "adjacency) is proved correct for every input (lowlink_correct); the recursion of the Python code is modelled "
    "with fuel n+1 (proved sufficient), Python's recursion limit is not modelled",
    "PageRank/Louvain theorems are about the Rat instantiation of the one model text; the Float instantiation "
    "(CPython 3.12 compensated sum modelled by pySumF) is tied by bit-equality of the returned scores and by "
    "equality of the returned partition; IEEE rounding itself is outside the theorems",
    "PageRank residual clause: a converged run (status OPTIMAL) must satisfy the damped equation with uniform "
    "dangling redistribution within damping*n*tol + 1e-9 at every node (pagerank_residual_bound: the bound implied "
    "by the stopping rule max|new-old| < tol and the L1 contraction); after MAX_ITER only non-negativity and the "
    "sum are required; max_iter >= 1 (max_iter=0 raises UnboundLocalError, outside the property's quantifier)",
    "modularity of an edgeless graph: the formula divides by m = 0; both the code (0.0) and modularityDef (Lean's "
    "x/0 = 0) give 0",
    "a neighbour function may return any Iterable (one-shot iterators included) and may answer differently after "
    "the caller edits the graph: each call must answer for the graph as presented at that call (class "
    "stale_result_after_edit = wrong after an edit although a fresh neighbour function on the same graph is right); "
    "for set/frozenset answers the iteration order is CPython's, so bridge order and the Louvain partition are not "
    "compared with the mirror there (R_prop only)",
    "node labels are distinct non-negative integers (the theorems assume G.nodes.Nodup); `v < w` on labels is the "
    "integer order",
]
RULE = ("graphs with <= 9 nodes (<= 12 in every third thorough case): random sparse/dense, unions of paths, cycles, "
        "cliques and stars joined by bridges or shared vertices; every undirected edge listed from one side, the "
        "other, or both; self loops, duplicate neighbours, neighbours outside the node set, isolated nodes, shuffled "
        "node and neighbour order, non-contiguous labels; damping in (0,1), resolution > 0, tol and max_iter varied "
        "or left at their defaults; every graph is presented through a neighbour function returning a fresh iterable "
        "of a random style per case or per node (list, tuple, set, frozenset, dict keys view, generator, iter, map, "
        "filter); the labels 0,1,2,… Lean sees are represented towards the implementation by an order-preserving "
        "injection chosen per case (identity, ints >= 1000, ints >= 2**61-1, negatives, pools with colliding hashes "
        "such as -1/-2 and 0/2**61-1, tuples, strings), every occurrence a freshly created equal object; one case in seven is a multi-step history: one mutable adjacency dict behind ONE neighbour function "
        "object, 2-4 edits (add/remove entries, add/remove nodes) interleaved with calls of the entry points in varying "
        "orders, every call judged against the graph as it is at that call; non-trivial = at least one cut vertex or "
        "at least two distinct core numbers (in some call of a history); distinct by canonical (nodes, neighbour "
        "lists, styles, steps, parameters)")
EPS = Fraction(1, 10**9)
LV_FUEL = 2000


# ---------------------------------------------------------------------------
# generator
# ---------------------------------------------------------------------------

def _structure(rng, n):
    """undirected edge set on positions 0..n-1"""
    edges = set()
    kind = rng.random()
    if n < 2:
        return edges
    if kind < 0.35:
        p = rng.choice([0.1, 0.2, 0.3, 0.45, 0.7])
        for i in range(n):
            for j in range(i + 1, n):
                if rng.random() < p:
                    edges.add((i, j))
    elif kind < 0.55:  # random tree / forest plus a few chords
        for i in range(1, n):
            if rng.random() < 0.85:
                edges.add((rng.randrange(i), i))
        for _ in range(rng.choice([0, 0, 1, 2, 3])):
            i, j = rng.sample(range(n), 2)
            edges.add((min(i, j), max(i, j)))
    else:  # blocks (path / cycle / clique / star) glued by bridges, shared vertices or left apart
        pos = 0
        prev_block = None
        while pos < n:
            size = min(n - pos, rng.choice([1, 2, 3, 3, 4, 4, 5]))
            blk = list(range(pos, pos + size))
            shape = rng.choice(["path", "cycle", "clique", "star"])
            if shape in ("path", "cycle"):
                for a, b in zip(blk, blk[1:]):
                    edges.add((a, b))
                if shape == "cycle" and size >= 3:
                    edges.add((blk[0], blk[-1]))
            elif shape == "clique":
                for a in blk:
                    for b in blk:
                        if a < b:
                            edges.add((a, b))
            else:
                for b in blk[1:]:
                    edges.add((blk[0], b))
            if prev_block is not None:
                glue = rng.random()
                if glue < 0.4:  # bridge
                    edges.add((rng.choice(prev_block), rng.choice(blk)))
                elif glue < 0.65:  # two links (no bridge between the blocks)
                    for _ in range(2):
                        edges.add((rng.choice(prev_block), rng.choice(blk)))
                elif glue < 0.8 and size >= 2:  # shared vertex: tie one vertex of prev to two of blk
                    a = rng.choice(prev_block)
                    for b in rng.sample(blk, 2):
                        edges.add((a, b))
            prev_block = blk
            pos += size
    return {(min(a, b), max(a, b)) for a, b in edges if a != b}


def gen_case(rng, big: bool):
    hi = 12 if big else 9
    n = rng.choice([2, 3, 4, 4, 5, 5, 6, 6, 7, 7, 8, 8, hi, hi, hi]) if rng.random() < 0.93 else rng.randint(0, hi)
    style = rng.random()
    if style < 0.5:
        labels = list(range(n))
    elif style < 0.8:
        labels = rng.sample(range(2 * n + 3), n)
    else:
        labels = [3 * i + 1 for i in range(n)]
    rng.shuffle(labels)
    edges = _structure(rng, n)
    lists = [[] for _ in range(n)]
    asym_p = rng.choice([0.0, 0.0, 0.2, 0.5, 1.0])
    for a, b in sorted(edges):
        if rng.random() < asym_p:
            if rng.random() < 0.5:
                lists[a].append(b)
            else:
                lists[b].append(a)
        else:
            lists[a].append(b)
            lists[b].append(a)
    for i in range(n):
        if rng.random() < 0.15:
            lists[i].append(i)  # self loop
        if lists[i] and rng.random() < 0.2:
            lists[i].append(rng.choice(lists[i]))  # duplicate neighbour
        rng.shuffle(lists[i])
    nbrs = [[labels[j] for j in l] for l in lists]
    outside = [x for x in range(3 * n + 5) if x not in labels]
    for i in range(n):
        if rng.random() < 0.08:
            nbrs[i].insert(rng.randint(0, len(nbrs[i])), rng.choice(outside))
    params = {}
    if rng.random() < 0.6:
        params["damping"] = rng.choice([0.85, 0.5, 0.1, 0.99, 0.3, 0.01, round(rng.uniform(0.01, 0.99), 3),
                                        rng.uniform(0.001, 0.999)])
    if rng.random() < 0.5:
        params["tol"] = rng.choice([1e-6, 1e-3, 1e-9, 1e-12, 0.1, 1e-15, 0.0, 2.5e-7])
    if rng.random() < 0.4:
        params["max_iter"] = rng.choice([1, 2, 3, 5, 20, 100, 1000, 5000])
    if rng.random() < 0.6:
        params["resolution"] = rng.choice([1.0, 0.5, 2.0, 0.1, 5.0, 0.999, round(rng.uniform(0.05, 3.0), 2),
                                           rng.uniform(0.01, 4.0)])
    if rng.random() < 0.7:
        styles = [rng.choice(STYLES)] * n
    else:
        styles = [rng.choice(STYLES) for _ in range(n)]
    return {"nodes": labels, "nbrs": nbrs, "k": rng.choice([0, 1, 1, 2, 2, 3, 4, 6]), "params": params,
            "styles": styles, "labels": rng.choice(LABELS)}


# how a neighbour function may hand over its answer: every `Iterable` is legal, a fresh one per call
STYLES = ["list", "list", "tuple", "set", "frozenset", "dictkeys", "genfunc", "iter", "map", "filter"]
UNORDERED = {"set", "frozenset"}

# how the canonical labels 0, 1, 2, … (what Lean sees) are REPRESENTED towards the implementation: an order-preserving
# injection into ints beyond the small-int cache / with colliding hashes (hash(-1) == hash(-2), hash(2**61-1) == 0,
# hash(2**61) == 1 …), tuples and strings; equal labels are re-created on every use, never the same object
POOLS = {
    "poolA": [-2, -1, 0, 1, 2, 3, 4, 5, 6, 7, 8, 9, 10],
    "poolB": [-1, 0, 2**61 - 1, 2**61, 2**61 + 1, 2**62, 2**63, 2**64, 2**65],
    "poolC": [-2, -1, 0, 2**61 - 1, 2**61, 2**61 + 1, 2**61 + 2, 2 * (2**61 - 1), 2**63],
}
LABELS = ["ident", "ident", "ident", "big", "huge", "neg", "poolA", "poolB", "poolC", "tuple", "str"]


def relabel(kind, x):
    if kind == "big":
        return 1000 + 7 * x
    if kind == "huge":
        return 2**61 - 1 + x
    if kind == "neg":
        return x - 2
    if kind in POOLS:
        pool = POOLS[kind]
        return pool[x] if x < len(pool) else pool[-1] + (x - len(pool) + 1)
    if kind == "tuple":
        return (x // 4, x % 4)
    if kind == "str":
        return f"v{x:04d}"
    return x


def fresh(a):
    """An equal but newly created object (ints outside CPython's small-int cache, tuples, strings)."""
    if isinstance(a, int):
        return int(str(a))
    if isinstance(a, tuple):
        return tuple(list(a))
    if isinstance(a, str):
        return "".join(list(a))
    return a


def present(style, lst):
    """A fresh iterable of the given style over the entries of `lst` (what a user's neighbour function returns)."""
    if style == "tuple":
        return tuple(lst)
    if style == "set":
        return set(lst)
    if style == "frozenset":
        return frozenset(lst)
    if style == "dictkeys":
        return dict.fromkeys(lst).keys()
    if style == "genfunc":
        def g():
            yield from lst
        return g()
    if style == "iter":
        return iter(list(lst))
    if style == "map":
        return map(lambda x: x, lst)
    if style == "filter":
        return filter(lambda x: True, lst)
    return list(lst)


def effective(case):
    """The neighbour lists as the functions see them when they walk the returned iterable once."""
    st = case.get("styles") or ["list"] * len(case["nodes"])
    return [list(present(y, l)) for y, l in zip(st, case["nbrs"])]


CALLS = ["articulation_points", "bridges", "kcore_decomposition", "kcore", "pagerank", "louvain"]


def gen_history(rng):
    """One mutable adjacency dict, ONE neighbour function object, edits interleaved with calls."""
    while True:
        base = gen_case(rng, big=False)
        if 3 <= len(base["nodes"]) <= 8:
            break
    nodes = list(base["nodes"])
    adj = {v: list(l) for v, l in zip(nodes, base["nbrs"])}
    steps = []

    def calls():
        r = rng.random()
        if r < 0.35:
            fns = ["articulation_points", "bridges"]
        elif r < 0.6:
            fns = ["bridges", "articulation_points"]
        else:
            fns = []
        fns += rng.sample(CALLS, rng.choice([0, 1, 1, 2]))
        if not fns:
            fns = [rng.choice(CALLS)]
        if rng.random() < 0.3:
            rng.shuffle(fns)
        return [["call", f] for f in fns]

    steps += calls()
    fresh = max(nodes + [0]) + 1
    for _ in range(rng.randint(2, 4)):
        ops = []
        for _ in range(rng.choice([1, 1, 2, 3])):
            r = rng.random()
            entries = [(u, w) for u in nodes for w in adj[u]]
            if r < 0.4 and len(nodes) >= 2:
                u, w = rng.sample(nodes, 2)
                ops.append(["add", u, w])
                adj[u].append(w)
                if rng.random() < 0.6:
                    ops.append(["add", w, u])
                    adj[w].append(u)
            elif r < 0.78 and entries:
                u, w = rng.choice(entries)
                ops.append(["del", u, w])
                adj[u].remove(w)
                if w in adj and u in adj[w] and rng.random() < 0.7:
                    ops.append(["del", w, u])
                    adj[w].remove(u)
            elif r < 0.9:
                x = fresh
                fresh += 1
                nb = rng.sample(nodes, min(len(nodes), rng.choice([0, 1, 2])))
                pos = rng.randint(0, len(nodes))
                ops.append(["addnode", x, nb, pos, rng.choice(STYLES)])
                nodes.insert(pos, x)
                adj[x] = list(nb)
            elif len(nodes) > 2:
                x = rng.choice(nodes)
                ops.append(["delnode", x])
                nodes.remove(x)
                del adj[x]
        if ops:
            steps.append(["edit", ops])
            steps += calls()
    return {**base, "kind": "history", "steps": steps}




def edge_cases():
    def c(nodes, nbrs, k=1, styles=None, labels="ident", **params):
        return {"nodes": nodes, "nbrs": nbrs, "k": k, "params": params, "styles": styles or ["list"] * len(nodes),
                "labels": labels}
    yield c([], [])
    yield c([5], [[5]])
    yield c([0, 1], [[1], []])                                   # one edge listed from one side
    yield c([0, 1, 2], [[1], [0, 2], [1]], k=1)                  # chain
    yield c([0, 1, 2], [[1, 2], [0, 2], [0, 1]], k=2)            # triangle
    yield c([1, 3, 2, 4, 0], [[1, 4, 0], [], [4, 1], [2], [2]])  # DESIGN §4 C15 witness (asymmetric)
    yield c([0, 1, 2, 3, 4, 5], [[1, 2], [0, 2], [0, 1, 3], [2, 4, 5], [3, 5], [3, 4]], k=2)  # two triangles + bridge
    yield c([0, 1, 2, 3], [[], [], [], []], k=0)                 # no edges
    yield c([0, 1, 2, 3], [[1, 1, 0], [0], [3, 9], [2, 2]], k=1, damping=0.5, resolution=2.0)
    yield c([2, 0, 1], [[0], [1], [2]], damping=0.99, tol=1e-12, max_iter=5000)  # directed 3-cycle
    yield c([0, 1, 2, 3], [[1], [2], [3], []], damping=0.85, max_iter=1)         # dangling sink, MAX_ITER
    # one-shot iterables: generator function / iter / map (a second walk over the same object sees nothing)
    for sty in ("genfunc", "iter", "map", "filter", "set", "dictkeys", "tuple"):
        yield c([0, 1, 2, 3], [[1, 2], [2], [0, 3, 3], []], k=1, styles=[sty] * 4)
    # label representations: equal-but-not-identical objects, colliding hashes, order different from hash order
    for lab in LABELS[3:]:
        yield c([0, 1, 2, 3], [[1], [0, 2], [1, 3], [2]], k=1, labels=lab)                      # path: 3 bridges
        yield c([2, 0, 3, 1], [[0, 1, 3], [1, 2], [2], [0, 2]], k=2, labels=lab, resolution=0.3)  # triangle + pendant
        yield c([0, 1, 2, 3, 4, 5], [[1, 2], [0, 2], [0, 1, 3], [2, 4, 5], [3, 5], [3, 4]], k=2, labels=lab)
    # history: a chain closed into a ring, same node list, same neighbour function object
    chain = [[1], [0, 2], [1, 3], [2, 4], [3, 5], [4]]
    yield {**c([0, 1, 2, 3, 4, 5], chain), "kind": "history",
           "steps": [["call", "articulation_points"], ["call", "bridges"], ["edit", [["add", 5, 0], ["add", 0, 5]]],
                     ["call", "articulation_points"], ["call", "bridges"], ["call", "kcore_decomposition"],
                     ["edit", [["del", 2, 3], ["del", 3, 2]]], ["call", "bridges"], ["call", "articulation_points"],
                     ["call", "pagerank"], ["call", "louvain"]]}


# ---------------------------------------------------------------------------
# implementation side (runs in a worker process)
# ---------------------------------------------------------------------------

FNS = ["articulation_points", "bridges", "kcore_decomposition", "kcore", "pagerank", "louvain"]


def call_fn(fn, nodes, nb, case, back=None):
    """Call one of the five entry points and canonicalise what it returns (labels mapped back to canonical ints)."""
    from solvor.articulation import articulation_points, bridges
    from solvor.community import louvain
    from solvor.kcore import kcore, kcore_decomposition
    from solvor.pagerank import pagerank
    p = case["params"]
    lab = case.get("labels", "ident")
    B = back if back is not None else (lambda a: a)
    actual = [fresh(relabel(lab, x)) for x in nodes]
    try:
        if fn == "articulation_points":
            return ("ok", sorted(B(x) for x in articulation_points(actual, nb).solution))
        if fn == "bridges":
            return ("ok", [[B(a), B(b)] for a, b in bridges(actual, nb).solution])
        if fn == "kcore_decomposition":
            return ("ok", [[B(v), c] for v, c in kcore_decomposition(actual, nb).solution.items()])
        if fn == "kcore":
            return ("ok", sorted(B(x) for x in kcore(actual, nb, case["k"]).solution))
        if fn == "pagerank":
            kw = {k: p[k] for k in ("damping", "tol", "max_iter") if k in p}
            r = pagerank(actual, nb, **kw)
            keys = list(r.solution.keys())
            return ("ok", {"status": r.status.name, "keys": [B(v) for v in keys],
                           "bits": [fbits(float(r.solution[v])) for v in keys],
                           "rats": [rat(r.solution[v]) for v in keys]})
        if fn == "louvain":
            kw = {"resolution": p["resolution"]} if "resolution" in p else {}
            r = louvain(actual, nb, **kw)
            return ("ok", {"comms": [sorted(B(x) for x in c) for c in r.solution], "modularity": rat(r.objective)})
        raise ValueError(fn)
    except Exception as e:  # noqa: BLE001 - the error kind is an observable
        return ("err", f"{type(e).__name__}: {e}"[:300])


def impl(case, only=None):
    nodes = list(case["nodes"])
    adj = {v: list(l) for v, l in zip(nodes, case["nbrs"])}
    styles = dict(zip(nodes, case.get("styles") or ["list"] * len(nodes)))

    lab = case.get("labels", "ident")
    inverse = {relabel(lab, x): x for x in range(0, 300)}

    def back(a):
        return inverse[a]

    def nb(a):  # ONE function object per case; a fresh iterable of freshly created labels on every call
        v = inverse[a]
        return present(styles.get(v, "list"), [fresh(relabel(lab, w)) for w in adj.get(v, [])])

    if case.get("kind") == "history":
        done, edited = [], False
        for step in case["steps"]:
            if step[0] == "edit":
                edited = True
                for op in step[1]:
                    if op[0] == "add" and op[1] in adj:
                        adj[op[1]].append(op[2])
                    elif op[0] == "del" and op[1] in adj and op[2] in adj[op[1]]:
                        adj[op[1]].remove(op[2])
                    elif op[0] == "addnode" and op[1] not in adj:
                        nodes.insert(min(op[3], len(nodes)), op[1])
                        adj[op[1]] = [x for x in op[2]]
                        styles[op[1]] = op[4]
                    elif op[0] == "delnode" and op[1] in adj and len(nodes) > 1:
                        nodes.remove(op[1])
                        del adj[op[1]]
            else:
                snap = {"nodes": list(nodes), "nbrs": [list(adj[v]) for v in nodes],
                        "styles": [styles.get(v, "list") for v in nodes]}
                done.append({"fn": step[1], "res": call_fn(step[1], nodes, nb, case, back), "snap": snap,
                             "after_edit": edited})
        return {"steps": done}
    out = {}
    for fn in FNS:
        out[fn] = ("ok", None) if only is not None and fn != only else call_fn(fn, nodes, nb, case, back)
    out["unchanged"] = adj == {v: list(l) for v, l in zip(case["nodes"], case["nbrs"])}
    return out


def impl_single(arg):
    case, fn = arg
    return impl(case, only=fn)[fn]


def _scalar(p, key):
    return None if key not in p else [rat(p[key]), fbits(float(p[key]))]


def to_request(seen, out):
    """`seen` = the graph as the functions see it (effective neighbour lists)."""
    p = seen["params"]
    ipr = ilv = None
    if out[0] == "ok":
        o = out[1]
        if o["pagerank"][0] == "ok" and o["pagerank"][1] is not None and o["pagerank"][1]["keys"] == seen["nodes"]:
            ipr = [o["pagerank"][1]["status"], o["pagerank"][1]["rats"]]
        if o["louvain"][0] == "ok" and o["louvain"][1] is not None:
            ilv = [o["louvain"][1]["comms"], o["louvain"][1]["modularity"]]
    return ["case", seen["nodes"], seen["nbrs"], seen["k"], _scalar(p, "damping"), _scalar(p, "tol"),
            p.get("max_iter"), _scalar(p, "resolution"), LV_FUEL, rat(EPS), ipr, ilv]


def views(case, out):
    """Split a case into the graphs that were actually presented to a call: [(seen, out-like, meta)]."""
    if case.get("kind") == "history":
        if out[0] != "ok":
            return []
        items = []
        for i, st in enumerate(out[1]["steps"]):
            sn = st["snap"]
            seen = {"nodes": sn["nodes"], "nbrs": effective(sn), "styles": sn["styles"], "k": case["k"],
                    "params": case["params"], "raw": sn["nbrs"], "labels": case.get("labels", "ident")}
            o = {fn: ("ok", None) for fn in FNS}
            o[st["fn"]] = tuple(st["res"])
            items.append((seen, ("ok", o), {"hist": True, "after_edit": st["after_edit"], "step": i, "fn": st["fn"]}))
        return items
    seen = {**case, "nbrs": effective(case), "raw": case["nbrs"]}
    return [(seen, out, None)]


# ---------------------------------------------------------------------------
# comparison
# ---------------------------------------------------------------------------

def features(case):
    nodes, nbrs = case["nodes"], case["nbrs"]
    ns = set(nodes)
    adj = dict(zip(nodes, nbrs))
    asym = any(w in ns and w != v and v not in adj[w] for v in nodes for w in adj[v])
    return {"asymmetric": asym,
            "self_loop": any(v in adj[v] for v in nodes),
            "dup_nbr": any(len(set(l)) != len(l) for l in nbrs),
            "outside_nbr": any(w not in ns for l in nbrs for w in l),
            "isolated": any(not [w for w in adj[v] if w in ns and w != v] and
                            not any(v in adj[u] for u in nodes if u != v) for v in nodes)}


def judge(ctx, case, out, reply, orig=None, meta=None):
    """R_prop / R_trace for one presented graph `case` (effective lists). Returns the non-triviality flag."""
    rep = {"case": orig if orig is not None else case, "impl": out, "model": reply}
    if meta:
        rep["call"] = meta
        rep["graph_at_call"] = {"nodes": case["nodes"], "nbrs": case.get("raw", case["nbrs"]),
                                "styles": case.get("styles")}
    feat = features(case)
    tag = ":asymmetric" if feat["asymmetric"] else ""
    styles = case.get("styles") or []
    ordered = not (set(styles) & UNORDERED)
    for f, on in feat.items():
        if on:
            ctx.count("input:" + f)
    for y in set(styles):
        ctx.count("style:" + y)
    ctx.count("labels:" + (orig or case).get("labels", "ident"))
    if any(y in ("genfunc", "iter", "map", "filter") for y in styles):
        ctx.count("input:one_shot_iterable")
    ctx.count(f"n={len(case['nodes'])}")
    if not meta:
        for key in ("damping", "tol", "max_iter", "resolution"):
            ctx.count(f"{key}:" + ("given" if key in case["params"] else "default"))
    if out[0] != "ok":
        ctx.fail("articulation_points", "raises:" + err_kind(out), f"worker failed: {out[1]}", rep)
        return None
    o = out[1]
    defs, mirror, pr, prv, lv, lvv = reply
    ncomp, d_ap, d_br, d_core, d_kset = defs
    m_ap, m_br, m_core, m_kset = mirror
    nodes = case["nodes"]
    if not o.get("unchanged", True):
        ctx.fail("articulation_points", "input_modified", "a neighbour list was modified", rep)

    def got(fn):
        r = o[fn]
        if r[0] != "ok":
            ctx.fail(fn, "raises:" + r[1].split(":", 1)[0] + tag, f"{fn} raised on a graph in the quantifier: {r[1]}", rep)
            return None
        return r[1]  # None = not called in this view

    # --- cut vertices ------------------------------------------------------------------------
    ap = got("articulation_points")
    if ap is not None:
        if ap != sorted(d_ap):
            ctx.fail("articulation_points", "cut_vertices_wrong" + tag,
                     f"returned {ap}; removal increases the component count exactly for {sorted(d_ap)}", rep)
        elif sorted(m_ap) != ap:
            ctx.tdiv("articulation_points", {"case": rep["case"], "impl": ap, "mirror": m_ap})
        else:
            ctx.count("cert:cut_vertices")
    # --- bridges -----------------------------------------------------------------------------
    br = got("bridges")
    if br is not None:
        if sorted(map(tuple, br)) != sorted(map(tuple, d_br)):
            ctx.fail("bridges", "bridges_wrong" + tag,
                     f"returned {br}; removal increases the component count exactly for {sorted(d_br)}", rep)
        elif ordered and br != m_br:
            ctx.tdiv("bridges", {"case": rep["case"], "impl": br, "mirror": m_br})
        else:
            ctx.count("cert:bridges")
    # --- core numbers --------------------------------------------------------------------------
    kd = got("kcore_decomposition")
    want = sorted(zip(nodes, d_core))
    if kd is not None:
        if sorted(map(tuple, kd)) != want:
            ctx.fail("kcore_decomposition", "core_numbers_wrong" + tag,
                     f"returned {sorted(map(tuple, kd))}; repeated deletion gives {want}", rep)
        elif sorted(map(tuple, m_core)) != want:
            ctx.tdiv("kcore_decomposition", {"case": rep["case"], "impl": kd, "mirror": m_core})
        else:
            ctx.count("cert:core_numbers")
    ks = got("kcore")
    if ks is not None:
        if ks != sorted(d_kset):
            ctx.fail("kcore", "kcore_set_wrong" + tag, f"kcore(k={case['k']}) returned {ks}; nodes with core number "
                     f">= k are {sorted(d_kset)}", rep)
        elif sorted(m_kset) != ks:
            ctx.tdiv("kcore", {"case": rep["case"], "impl": ks, "mirror": m_kset})
    # --- PageRank ------------------------------------------------------------------------------
    p = got("pagerank")
    if p is not None:
        ctx.count("pagerank:" + p["status"])
        if p["keys"] != nodes:
            ctx.fail("pagerank", "keys_not_nodes", f"scores are keyed by {p['keys']}, nodes are {nodes}", rep)
        elif p["status"] not in ("OPTIMAL", "MAX_ITER"):
            ctx.fail("pagerank", "bad_status", f"unexpected status {p['status']}", rep)
        elif nodes:
            ok, nonneg, total, resid, bound = prv
            if not ok:
                if not nonneg:
                    ctx.fail("pagerank", "negative_score", "a score is negative", rep)
                elif abs(unrat(total) - 1) > EPS:
                    ctx.fail("pagerank", "sum_not_one", f"scores sum to {float(unrat(total))!r}", rep)
                else:
                    ctx.fail("pagerank", "residual_exceeds_tolerance", f"status {p['status']}: residual "
                             f"{float(unrat(resid)):.3e} of the damped PageRank equation exceeds {float(unrat(bound)):.3e}", rep)
            else:
                ctx.count("cert:pagerank")
                if (p["status"], p["bits"]) != (pr[0], pr[2]):
                    ctx.tdiv("pagerank", {"case": rep["case"], "impl": [p["status"], p["bits"]], "mirror": [pr[0], pr[2]]})
                else:
                    ctx.count("r_trace:pagerank_bit_equal")
    # --- Louvain -------------------------------------------------------------------------------
    l = got("louvain")
    if l is not None:
        part_ok, md, mod_ok = lvv
        if not part_ok:
            ctx.fail("louvain", "not_a_partition", f"communities {l['comms']} are not a partition of {nodes}", rep)
        elif not mod_ok:
            ctx.fail("louvain", "modularity_misreported", f"reported modularity {float(unrat(l['modularity']))!r}, the "
                     f"formula gives {float(unrat(md))!r} for the returned partition", rep)
        else:
            ctx.count("cert:louvain")
            if lv is None:
                ctx.count("louvain_mirror_out_of_fuel")
            elif not ordered:
                ctx.count("r_trace:louvain_skipped_unordered_iterable")
            elif sorted(map(sorted, lv[0])) != sorted(l["comms"]):
                ctx.tdiv("louvain", {"case": rep["case"], "impl": l["comms"], "mirror": lv[0]})
            else:
                ctx.count("r_trace:louvain_partition_equal")
    ctx.cov["cert_checked_impl"] = sum(v for k, v in ctx.cov["histogram"].items() if k.startswith("cert:"))
    ctx.cov["r_trace_agree"] = sum(v for k, v in ctx.cov["histogram"].items() if k.startswith("r_trace:p") or
                                   k.startswith("r_trace:louvain_partition"))
    ctx.cov["missing_theorems"] = []
    nontrivial = len(d_ap) >= 1 or len(set(d_core)) >= 2
    if not meta:
        ctx.count(f"components={min(ncomp, 4)}{'+' if ncomp >= 4 else ''}")
        ctx.count(f"cut_vertices={min(len(d_ap), 3)}")
        ctx.count(f"bridges={min(len(d_br), 3)}")
        ctx.count(f"core_levels={len(set(d_core))}")
        canon = [nodes, case.get("raw", case["nbrs"]), styles, case.get("labels", "ident"), case["k"],
                 sorted(case["params"].items())]
        ctx.case(canon, nontrivial, {"case": rep["case"], "cut_vertices": d_ap, "bridges": d_br, "core": d_core,
                                     "impl_ap": o["articulation_points"], "impl_bridges": o["bridges"]})
    return nontrivial


class Probe:
    """Stands in for ctx while judging: records the failed clauses instead of reporting them."""

    def __init__(self, real=None):
        self.real = real
        self.fails = []
        self.cov = real.cov if real is not None else {"histogram": {}}

    def fail(self, function, klass, what, replay):
        self.fails.append((function, klass, what, replay))

    def tdiv(self, function, detail):
        if self.real is not None:
            self.real.tdiv(function, detail)

    def count(self, key, n=1):
        if self.real is not None:
            self.real.count(key, n)

    def case(self, canon, nontrivial, sample=None):
        if self.real is not None:
            self.real.case(canon, nontrivial, sample)


def evaluate(cases):
    """Run the implementation and the model; returns per case (out, [(seen, out-like, meta, reply)])."""
    outs = run_pool(impl, cases, timeout=30.0)
    flat, index = [], []
    for c, o in zip(cases, outs):
        vs = views(c, o) if o[0] != "timeout" else []
        index.append(len(vs))
        flat += vs
    replies = Driver("Net").run([to_request(seen, po) for seen, po, _ in flat], chunks=16)
    for (seen, _, _), rp in zip(flat, replies):
        if rp and rp[0] == "error":
            raise core.Infra(f"model rejected request: {rp} for {seen}")
    res, pos = [], 0
    for o, k in zip(outs, index):
        res.append((o, [(*flat[pos + j], replies[pos + j]) for j in range(k)]))
        pos += k
    return res


def judge_case(ctx, case, out, items):
    """Judge everything that was presented in one case; history calls are classified stale vs plainly wrong."""
    if case.get("kind") != "history":
        for seen, po, meta, rp in items:
            judge(ctx, seen, po, rp, orig=case, meta=meta)
        return
    ctx.count("history_cases")
    if out[0] != "ok":
        ctx.fail(case["steps"][-1][1], "raises:" + err_kind(out), f"history worker failed: {out[1]}",
                 {"case": case, "impl": out})
        return
    nontrivial = False
    for seen, po, meta, rp in items:
        ctx.count("history_calls")
        ctx.count("history_call_after_edit" if meta["after_edit"] else "history_call_before_edit")
        pr = Probe(ctx)
        nontrivial = bool(judge(pr, seen, po, rp, orig=case, meta=meta)) or nontrivial
        for function, klass, what, rep in pr.fails:
            if meta["after_edit"] and not klass.startswith("raises:"):
                # the same graph through a FRESH neighbour function: right there => the answer was stale
                again = {"nodes": seen["nodes"], "nbrs": seen["raw"], "styles": seen["styles"], "k": seen["k"],
                         "params": seen["params"], "labels": case.get("labels", "ident")}
                (fo, fitems), = evaluate([again])
                fp = Probe()
                for s2, po2, m2, rp2 in fitems:
                    judge(fp, s2, po2, rp2, orig=again)
                if not any(f[0] == function for f in fp.fails):
                    klass = "stale_result_after_edit"
                    what = (f"call {meta['step']} ({function}) after an edit of the graph behind the same neighbour "
                            f"function: {what}; a fresh call on the same graph is right")
            ctx.fail(function, klass, what, rep)
    canon = [case["nodes"], case["nbrs"], case.get("styles"), case.get("labels", "ident"), case["steps"], case["k"],
             sorted(case["params"].items())]
    ctx.case(canon, nontrivial, {"case": case})


def failing(case, out, items):
    pr = Probe()
    judge_case(pr, case, out, items)
    return pr.fails


def shrink_candidates(case):
    """One-step structural reductions: drop a step / an edit op / a node / a neighbour entry / a parameter."""
    if case.get("kind") == "history":
        steps = case["steps"]
        for i in range(len(steps)):
            yield {**case, "steps": steps[:i] + steps[i + 1:]}
        for i, st in enumerate(steps):
            if st[0] == "edit" and len(st[1]) > 1:
                for j in range(len(st[1])):
                    yield {**case, "steps": steps[:i] + [["edit", st[1][:j] + st[1][j + 1:]]] + steps[i + 1:]}
    nodes, nbrs = case["nodes"], case["nbrs"]
    styles = case.get("styles") or ["list"] * len(nodes)
    for i in range(len(nodes)):
        gone = nodes[i]
        yield {**case, "nodes": nodes[:i] + nodes[i + 1:], "styles": styles[:i] + styles[i + 1:],
               "nbrs": [[x for x in l if x != gone] for j, l in enumerate(nbrs) if j != i]}
    for i, l in enumerate(nbrs):
        for j in range(len(l)):
            yield {**case, "nbrs": [l[:j] + l[j + 1:] if q == i else list(m) for q, m in enumerate(nbrs)]}
    for key in list(case["params"]):
        yield {**case, "params": {a: b for a, b in case["params"].items() if a != key}}
    if case["k"] > 0:
        yield {**case, "k": case["k"] - 1}
    if any(y != "list" for y in styles):
        yield {**case, "styles": ["list"] * len(nodes)}
    if case.get("labels", "ident") != "ident":
        yield {**case, "labels": "ident"}


def shrink(case, function, klass, max_rounds=40):
    """Greedy delta debugging: keep a reduction only if the same (function, class) still fails."""
    history = []
    best = None
    for _ in range(max_rounds):
        cands = list(shrink_candidates(case))
        if not cands:
            break
        found = None
        for c, (o, items) in zip(cands, evaluate(cands)):
            if o[0] != "ok":
                continue
            hit = [f for f in failing(c, o, items) if f[0] == function and f[1] == klass]
            if hit:
                found = (c, hit[0])
                break
        if found is None:
            break
        case, best = found
        history.append({"nodes": len(case["nodes"]), "entries": sum(len(l) for l in case["nbrs"]),
                        "steps": len(case.get("steps", []))})
    return case, best, history


SHRINK_LIMIT = 6  # violations shrunk per run (each costs a few driver round trips)


def run_cases(ctx, cases, do_shrink=True):
    shrunk = 0
    for c, (o, items) in zip(cases, evaluate(cases)):
        if o[0] == "timeout":
            if c.get("kind") == "history":
                ctx.fail(c["steps"][-1][1], "timeout", f"history case: no answer within {o[1]} s",
                         {"case": c, "impl": o})
                continue
            # attribute the timeout: run the functions one by one
            for fn, r in zip(FNS, run_pool(impl_single, [(c, fn) for fn in FNS], timeout=30.0)):
                if r[0] == "timeout":
                    ctx.fail(fn, "timeout", f"no answer within {r[1]} s on a graph with {len(c['nodes'])} nodes",
                             {"case": c, "impl": r})
            continue
        pr = Probe(ctx)
        judge_case(pr, c, o, items)
        for function, klass, what, rep in pr.fails:
            if do_shrink and shrunk < SHRINK_LIMIT and ctx.known_match(function, klass) is None \
                    and len(ctx.violations) < 20:
                shrunk += 1
                small, hit, history = shrink(c, function, klass)
                if hit is not None:
                    what, rep = hit[2], {**hit[3], "original_case": c, "shrink_history": history}
            ctx.fail(function, klass, what, rep)


def run(ctx, budget):
    ctx.cov["rule"] = RULE
    cases = list(edge_cases()) + [c["case"] for c in core.load_corpus("C15")]
    n = 2500 * budget
    for i in range(n):
        if i % 7 == 3:  # a fixed share of multi-step histories, both tiers
            cases.append(gen_history(ctx.rng))
        else:
            cases.append(gen_case(ctx.rng, big=(ctx.tier == "thorough" and i % 3 == 0)))
    run_cases(ctx, cases)


def replay(ctx, body):
    ctx.cov["rule"] = RULE
    run_cases(ctx, [body["case"]], do_shrink=False)
