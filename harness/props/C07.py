"""C07 — exact cover (solvor/dlx.py) against the proved Algorithm X model (Solvor/Dlx)."""
from __future__ import annotations

import copy

from core import Driver
from pool import err_kind, run_pool

AREAS = ["Dlx"]
LEVEL = "proof"
ASSUMPTIONS = [
    "DLX pointer structure abstracted to the set of covered columns (DESIGN §3); tied by R_trace: "
    "returned selections equal the mirror's in order",
]
RULE = ("random 0/1 matrices (empty/duplicate rows, empty columns, named columns incl. permuted integer names, secondary "
        "subsets, a dense family whose rows mix primary and secondary columns, "
        "find_all/max_solutions/max_iter settings); non-trivial = the mirror's search made >= 3 calls; "
        "distinct by canonical (matrix, options)")


# ---------------------------------------------------------------------------
# generator
# ---------------------------------------------------------------------------

def gen_case(rng, big: bool):
    hi = 12 if big else 8
    kind = rng.random()
    nr = rng.choice([0, 1, 2, 3, 4, 5, 6, 7, hi]) if kind < 0.9 else rng.randint(0, hi)
    nc = rng.choice([0, 1, 2, 3, 4, 5, 6, hi]) if kind < 0.9 else rng.randint(0, hi)
    dens = rng.choice([0.15, 0.3, 0.45, 0.6])
    mat = [[1 if rng.random() < dens else 0 for _ in range(nc)] for _ in range(nr)]
    if nr and rng.random() < 0.35:  # plant a cover so that solutions exist
        cols = list(range(nc))
        rng.shuffle(cols)
        k = rng.randint(1, max(1, min(4, nr)))
        parts = [[] for _ in range(k)]
        for c in cols:
            parts[rng.randrange(k)].append(c)
        for i, p in enumerate(parts):
            r = rng.randrange(nr)
            mat[r] = [1 if c in p else 0 for c in range(nc)]
    if nr >= 2 and rng.random() < 0.3:  # duplicate row
        mat[rng.randrange(nr)] = list(mat[rng.randrange(nr)])
    if nr and rng.random() < 0.2:  # empty row
        mat[rng.randrange(nr)] = [0] * nc
    if nc and nr and rng.random() < 0.15:  # empty column
        c = rng.randrange(nc)
        for r in mat:
            r[c] = 0
    names = None
    if rng.random() < 0.45:
        style = rng.choice(["str", "shift", "mixed", "perm", "perm", "onebased", "reversed"])
        if style == "str":
            names = [f"c{i}" for i in range(nc)]
        elif style == "shift":
            names = [i + 10 for i in range(nc)]
        elif style == "perm":  # integer names that collide with OTHER columns' positions
            names = list(range(nc))
            rng.shuffle(names)
        elif style == "onebased":
            names = [i + 1 for i in range(nc)]
        elif style == "reversed":
            names = list(range(nc - 1, -1, -1))
        else:
            names = [(f"k{i}" if i % 2 else i) for i in range(nc)]
    eff = names if names else list(range(nc))
    sec = None
    r = rng.random()
    if r < 0.35 and nc:
        sec = [eff[i] for i in range(nc) if rng.random() < 0.35]
    elif r < 0.42:
        sec = list(eff)  # all secondary
    elif r < 0.47:
        sec = ["not-a-column"]
    opts = {"find_all": rng.random() < 0.7}
    if rng.random() < 0.3:
        opts["max_solutions"] = rng.choice([0, 1, 2, 3, 5])
    if rng.random() < 0.2:
        opts["max_iter"] = rng.choice([1, 2, 3, 5, 8, 13, 30])
    case = {"matrix": mat, "columns": names, "secondary": sec, "opts": opts}
    if rng.random() < 0.3:  # how the (same) input is presented: Sequence types other than list, bool entries,
        case["present"] = {"rows": rng.choice(["list", "tuple", "mixed"]),       # aliased row objects
                           "matrix": rng.choice(["list", "tuple"]),
                           "entries": rng.choice(["int", "bool"]),
                           "names": rng.choice(["list", "tuple"]),
                           "secondary": rng.choice(["list", "tuple", "set", "frozenset"]),
                           "alias_equal_rows": rng.random() < 0.5}
    return case


def gen_dense_secondary(rng, big: bool):
    """Dense matrices whose rows mix primary and secondary columns (cover/uncover order matters only
    there): 6-10 rows, 5-8 columns, density 0.45-0.65, 1-3 secondary columns, usually find_all."""
    nr = rng.randint(6, 11 if big else 10)
    nc = rng.randint(5, 9 if big else 8)
    dens = rng.choice([0.45, 0.5, 0.55, 0.6, 0.65])
    mat = [[1 if rng.random() < dens else 0 for _ in range(nc)] for _ in range(nr)]
    for _ in range(rng.randint(0, 3)):  # a few sparse rows so that covers exist
        r = rng.randrange(nr)
        mat[r] = [1 if rng.random() < 0.25 else 0 for _ in range(nc)]
    names = None
    if rng.random() < 0.3:
        names = list(range(nc))
        rng.shuffle(names)
    eff = names if names else list(range(nc))
    k = rng.randint(1, 3)
    sec = rng.sample(eff, min(k, nc))
    opts = {"find_all": rng.random() < 0.85}
    if rng.random() < 0.15:
        opts["max_solutions"] = rng.choice([1, 2, 3])
    return {"matrix": mat, "columns": names, "secondary": sec, "opts": opts}


def edge_cases():
    yield {"matrix": [], "columns": None, "secondary": None, "opts": {"find_all": True}}
    yield {"matrix": [[]], "columns": None, "secondary": None, "opts": {"find_all": False}}
    yield {"matrix": [[0, 0], [0, 0]], "columns": None, "secondary": None, "opts": {"find_all": True}}
    yield {"matrix": [[1, 1], [1, 1]], "columns": None, "secondary": None, "opts": {"find_all": True}}
    yield {"matrix": [[1, 0, 0, 1, 0, 0, 1], [1, 0, 0, 1, 0, 0, 0], [0, 0, 0, 1, 1, 0, 1], [0, 0, 1, 0, 1, 1, 0],
                      [0, 1, 1, 0, 0, 1, 1], [0, 1, 0, 0, 0, 0, 1]], "columns": None, "secondary": None,
           "opts": {"find_all": True}}
    yield {"matrix": [[1, 0, 1], [0, 1, 0], [0, 1, 1], [0, 0, 1]], "columns": ["A", "B", "C"], "secondary": ["C"],
           "opts": {"find_all": True}}
    yield {"matrix": [[0, 1], [0, 1]], "columns": None, "secondary": [0, 1], "opts": {"find_all": True}}


# ---------------------------------------------------------------------------
# implementation side (runs in a worker process)
# ---------------------------------------------------------------------------

def impl(case):
    from solvor.dlx import solve_exact_cover
    m = copy.deepcopy(case["matrix"])
    kw = dict(case["opts"])
    if case["columns"] is not None:
        kw["columns"] = list(case["columns"])
    if case["secondary"] is not None:
        kw["secondary"] = list(case["secondary"])
    pr = case.get("present")
    if pr:  # same input, other Sequence types / bool entries / equal rows sharing one object
        if pr["entries"] == "bool":
            m = [[bool(v) for v in r] for r in m]
        if pr["alias_equal_rows"]:
            seen = {}
            m = [seen.setdefault(tuple(r), r) for r in m]
        if pr["rows"] == "tuple":
            m = [tuple(r) for r in m]
        elif pr["rows"] == "mixed":
            m = [tuple(r) if i % 2 else r for i, r in enumerate(m)]
        if pr["matrix"] == "tuple":
            m = tuple(m)
        if "columns" in kw and pr["names"] == "tuple":
            kw["columns"] = tuple(kw["columns"])
        if "secondary" in kw:
            kw["secondary"] = {"list": list, "tuple": tuple, "set": set, "frozenset": frozenset}[pr["secondary"]](kw["secondary"])
    before = copy.deepcopy(m)
    r1 = solve_exact_cover(m, **kw)
    unchanged = m == before
    r2 = solve_exact_cover(m, **kw)

    def canon(r):
        sol = r.solution
        if sol is None:
            sols = None
        elif kw.get("find_all") and isinstance(sol, list):
            sols = [list(s) for s in sol]
        else:
            sols = [list(sol)]  # single selection (also the `()` of the empty-matrix shortcut)
        shape = "none" if sol is None else ("list" if isinstance(sol, list) else "single")
        return {"status": r.status.name, "sols": sols, "objective": r.objective, "shape": shape}

    a, b = canon(r1), canon(r2)
    return {"res": a, "unchanged": unchanged, "same_again": a == b}


def to_request(case, impl_sols):
    mat = case["matrix"]
    nc = len(mat[0]) if mat else 0
    eff = case["columns"] if case["columns"] else list(range(nc))
    sec = case["secondary"] or []
    rows = [[c for c, v in enumerate(r) if v] for r in mat]
    prim = [0 if eff[c] in sec else 1 for c in range(nc)]
    o = case["opts"]
    return ["case", rows, nc, prim, bool(o.get("find_all", False)), int(o.get("max_solutions") or 0),
            int(o.get("max_iter", 10_000_000)), impl_sols or []]


# ---------------------------------------------------------------------------
# comparison
# ---------------------------------------------------------------------------

def judge(ctx, case, out, reply):
    """R_prop / R_trace for one case. `out` = pool outcome, `reply` = model reply."""
    fn = "solve_exact_cover"
    rep = {"case": case, "impl": out, "model": reply}
    if out[0] != "ok":
        ctx.fail(fn, "raises:" + err_kind(out), f"valid input raised/timed out: {out[1]}", rep)
        return
    r = out[1]
    res = r["res"]
    m_status, m_sols, m_iters, m_all, checks = reply
    find_all = bool(case["opts"].get("find_all", False))
    ctx.count("status:" + res["status"])
    ctx.count("find_all" if find_all else "first_only")
    if not r["unchanged"]:
        ctx.fail(fn, "input_modified", "input matrix was modified", rep)
    if not r["same_again"]:
        ctx.fail(fn, "nondeterministic", "second call on the same input gave a different answer", rep)
    sols = res["sols"]
    if sols is not None and not all(checks):
        bad = [s for s, ok in zip(sols, checks) if not ok]
        ctx.fail(fn, "not_exact_cover", f"returned selection(s) {bad} rejected by the verified checker isCover", rep)
    if res["status"] not in ("OPTIMAL", "FEASIBLE", "INFEASIBLE", "MAX_ITER"):
        ctx.fail(fn, "bad_status", f"unexpected status {res['status']}", rep)
    all_set = sorted(tuple(sorted(s)) for s in m_all)
    if res["status"] == "INFEASIBLE" and m_all:
        ctx.fail(fn, "false_infeasible", f"INFEASIBLE although covers exist, e.g. {m_all[0]}", rep)
    if res["status"] in ("OPTIMAL", "FEASIBLE") and sols is None:
        ctx.fail(fn, "ok_without_solution", "usable status without a solution", rep)
    if not m_all and sols:
        ctx.fail(fn, "cover_for_infeasible", "a selection was returned although no exact cover exists", rep)
    if m_all and res["status"] not in ("MAX_ITER",) and not sols:
        ctx.fail(fn, "missed_cover", "no selection returned although covers exist and no cut-off was reported", rep)
    nc_cols = len(case["matrix"][0]) if case["matrix"] else 0
    if find_all and nc_cols > 0 and res.get("shape") == "single":
        # only the documented no-columns shortcut may hand back a bare selection under find_all
        ctx.fail(fn, "find_all_returns_single_selection",
                 "find_all=True returned one bare selection instead of the list of all covers", rep)
    if sols is not None and find_all:
        got = sorted(tuple(sorted(s)) for s in sols)
        if len(set(got)) != len(got):
            ctx.fail(fn, "duplicate_cover", "find_all returned the same cover twice", rep)
        if res["status"] == "OPTIMAL" and got != all_set:
            ctx.fail(fn, "find_all_incomplete", f"find_all/OPTIMAL returned {len(got)} covers, the proved-complete "
                     f"model lists {len(all_set)}", rep)
    # MAX_ITER with the default budget on these tiny matrices is never legitimate
    if res["status"] == "MAX_ITER" and case["opts"].get("max_iter", 10_000_000) >= 1_000_000:
        ctx.fail(fn, "spurious_max_iter", "MAX_ITER reported with the default budget", rep)
    # R_trace: mirror equality of the returned value (status + selections in order)
    if (res["status"], sols) != (m_status, m_sols):
        ctx.tdiv(fn, {"case": case, "impl": res, "mirror": {"status": m_status, "sols": m_sols}})
    canon = [case["matrix"], case["columns"], case["secondary"], sorted(case["opts"].items())]
    ctx.case(canon, m_iters >= 3, {"case": case, "impl": res, "model_status": m_status, "all_covers": len(m_all)})


def run_cases(ctx, cases):
    outs = run_pool(impl, cases, timeout=30.0)
    reqs = [to_request(c, (o[1]["res"]["sols"] if o[0] == "ok" else None)) for c, o in zip(cases, outs)]
    replies = Driver("Dlx").run(reqs, chunks=8)
    for c, o, rp in zip(cases, outs, replies):
        if rp and rp[0] == "error":
            raise RuntimeError(f"model rejected request: {rp}")
        judge(ctx, c, o, rp)


def run(ctx, budget):
    ctx.cov["rule"] = RULE
    cases = list(edge_cases()) + [c["case"] for c in __import__("core").load_corpus("C07")]
    n = 1500 * budget
    cases += [gen_case(ctx.rng, big=(ctx.tier == "thorough" and i % 3 == 0)) for i in range(n)]
    cases += [gen_dense_secondary(ctx.rng, big=(ctx.tier == "thorough")) for i in range(4 * n)]
    run_cases(ctx, cases)


def replay(ctx, body):
    ctx.cov["rule"] = RULE
    run_cases(ctx, [body["case"]])
