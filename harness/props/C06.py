"""C06 — the CP-to-SAT encoding has exactly the models of the CP problem (solvor/cp_encoder.py):
the clause list captured at solve_sat is enumerated by the verified projected enumerator
(Solvor/Cp/Dpll.lean) and compared with the verified solution enumerator of the CP spec; the clause
list itself is compared with the mirror `Cp.Encode` (R_trace)."""
from __future__ import annotations

import core
from pool import err_kind, run_pool

from props import cp_common as K

AREAS = ["Cp"]
LEVEL = "proof"
ASSUMPTIONS = [
    "the clause list is observed where SATEncoder hands it to solve_sat (harness wrapper around "
    "solvor.cp_encoder.solve_sat); when the encoder returns INFEASIBLE before calling solve_sat (it found an empty "
    "clause) the CNF is taken to be unsatisfiable",
    "boolean numbering of the named variables is read from IntVar.bool_vars",
    "unnamed variables are encoded like named ones (compared on all declared variables; the implementation's decode "
    "is compared on the named ones); empty domains (lb > ub) are generated (the encoder must then produce an "
    "unsatisfiable formula)",
    "cumulative is generated with durations, demands and capacity >= 0 (the encoder's minimal-subset argument "
    "assumes non-negative demands)",
]
RULE = ("C05's operator-level generator with solver='sat': 1-5 variables, domains such as -2..1, 3..5, 0..3, 0-4 "
        "constraints per model (mostly 1) over every kind: ==/!= relations of every shape, eq/ne const/var, "
        "all_different, sum_eq/le/ge with 1-5 terms, circuit with n <= 5 and arbitrary successor domains, no_overlap, "
        "cumulative with up to 12+ simultaneously active literals; non-trivial = >=1 constraint and >=2 variables "
        "with non-singleton domains; distinct by model; 300 x budget numeric-edge models (small domains located at "
        "+-2**53+-k, +-2**62, +-10**18, ... with constants of such magnitudes); collection arguments in presentation styles (list, tuple, "
        "generator, map, reversed, iter, dict values, reused scratch list) on 30% of the models; 500 x budget HISTORIES "
        "on one Model (2-3 rounds of declare/add/solve via SAT; half start with an encoding that creates auxiliaries): "
        "the clause list of every solve must decode to exactly the CP solutions of the model as it is then "
        "(:after_previous_solve when the fresh model passes); R_trace only on first solves")
FN = "SATEncoder.solve"
WEIGHTS = {"rel": 34, "simple": 10, "alldiff": 8, "sumeq": 8, "sumle": 7, "sumge": 7, "circuit": 10, "noov": 7, "cum": 9}


def gen_cases(rng, n, big):
    cases = []
    for _ in range(n):
        vars_, cons, plant = K.gen_model(rng, WEIGHTS, big=True)
        if len(cons) > 1 and rng.random() < 0.6:
            cons = [rng.choice(cons)]
        hints = K.gen_hints(rng, vars_, plant) if rng.random() < 0.2 else None
        cases.append({"vars": vars_, "cons": cons, "hints": hints, "limit": rng.choice([1, 1, 1, 3]), "solver": "sat",
                      "hidden": (K.gen_hidden(rng, vars_) if hints is None else []),
                      "styles": ([K.styles_for(c, rng) for c in cons] if rng.random() < 0.3 else None)})
    return cases


def edge_cases():
    V = lambda i: ["v", i]  # noqa: E731
    C = lambda k: ["c", k]  # noqa: E731
    ms = [
        ([[0, 3]] * 4, [["circuit", [0, 1, 2, 3]]]),
        ([[0, 4]] * 5, [["circuit", [0, 1, 2, 3, 4]]]),
        ([[1, 3], [0, 2], [0, 3], [0, 3]], [["circuit", [0, 1, 2, 3]]]),
        ([[0, 4], [0, 2], [0, 2]], [["circuit", [0, 1, 2]]]),
        ([[0, 0]], [["circuit", [0]]]),
        ([[0, 1]], [["circuit", [0]]]),
        ([[1, 5]], [["circuit", []]]),
        # 12 candidate literals at time 3: four tasks of duration 4 on 0..3
        ([[0, 3]] * 4, [["cum", [0, 1, 2, 3], [4, 4, 4, 4], [1, 1, 1, 1], 2]]),
        ([[0, 2]] * 3, [["cum", [0, 1, 2], [2, 2, 2], [2, 2, 1], 3]]),
        ([[0, 3], [0, 3]], [["==", ["*", C(2), V(0)], ["+", V(1), C(1)]]]),
        ([[0, 3], [0, 3]], [["==", ["-", C(3), V(0)], V(1)]]),
        ([[0, 3], [0, 3], [0, 3]], [["==", V(0), ["+", V(1), V(2)]]]),
        ([[0, 3], [0, 3], [0, 3]], [["==", ["-", V(0), V(1)], V(2)]]),
        ([[0, 2], [0, 2], [0, 2], [0, 2]], [["!=", ["+", ["+", V(0), V(1)], V(2)], ["*", V(3), C(2)]]]),
        ([[0, 2], [1, 3], [-1, 1], [0, 2]], [["sumeq", [0, 1, 2, 3], 4]]),
        ([[0, 2], [1, 3], [-1, 1], [0, 2]], [["sumle", [0, 1, 2, 3], 3]]),
        ([[0, 2], [1, 3], [-1, 1], [0, 2]], [["sumge", [0, 1, 2, 3], 5]]),
        ([[0, 2], [1, 3]], [["sumeq", [0, 0, 1], 5]]),
        ([[0, 2], [0, 2]], [["alldiff", [0, 0]]]),
        ([[0, 2], [0, 2]], []),
        ([[3, 2], [0, 1]], []),  # empty domain
        ([[3, 2], [0, 1], [0, 1]], [["sumle", [0, 1, 2], 5]]),
    ]
    for vars_, cons in ms:
        yield {"vars": [list(v) for v in vars_], "cons": cons, "hints": None, "limit": 1, "solver": "sat"}


# ---------------------------------------------------------------------------
# comparison
# ---------------------------------------------------------------------------

def judgement(case, pcs, out, d):
    """R_prop for one case: list of (klass, what, needs_attribution); plus the R_trace verdict."""
    res = []
    trace = None
    if out[0] == "timeout":
        return [("timeout", f"no answer within the wall-clock limit ({out[1]} s)", True)], None
    if out[0] != "ok":
        return [(f"raises:{err_kind(out)}", f"valid model raised: {out[1][:300]}", True)], None
    o = out[1]
    truth = sorted(tuple(s) for s in d["sols"])
    if o["cnf"] is None:
        # the encoder stopped at an empty clause: its CNF has no model
        if o["status"] != "INFEASIBLE":
            return [("no_cnf", f"solve_sat was not called but the status is {o['status']}", False)], None
        decoded = []
        trace = any(len(c) == 0 for c in d["mirror"])
    else:
        if not d["wf"]:
            return [("literal_zero", "the clause list contains the literal 0", False)], None
        trace = K.normalise_cnf(o["cnf"]) == K.normalise_cnf(d["mirror"])
        bad = [m for m in d["proj"] if any(len(vals) != 1 for vals in m)]
        if bad:
            res.append(("decode_not_exactly_one", f"a model of the CNF gives a variable no value or several: {bad[0]}", True))
        decoded = sorted({tuple(vals[0] for vals in m) for m in d["proj"] if all(len(vals) == 1 for vals in m)})
    extra = [a for a in decoded if a not in set(truth)]
    missing = [a for a in truth if a not in set(decoded)]
    if extra:
        res.append(("extra_models", f"{len(extra)} assignment(s) satisfy the CNF but not the CP model, e.g. {list(extra[0])} "
                    f"(CNF projects to {len(decoded)}, CP model has {len(truth)})", True))
    if missing:
        res.append(("missing_models", f"{len(missing)} CP solution(s) are not models of the CNF, e.g. {list(missing[0])} "
                    f"(CNF projects to {len(decoded)}, CP model has {len(truth)})", True))
    # decoding of the models solve_sat actually returned (only those that are models of the CNF)
    if o["cnf"] is not None and o["sols"] and o.get("sat_models"):
        for s, tm, okm in zip(o["sols"], o["sat_models"], d["sat_model_checks"]):
            if not okm:
                continue
            tset = set(tm)
            want = [[v for v, b in lm if b in tset] for lm in o["litmap"]]
            hid = set(case.get("hidden") or [])
            if any(len(w) != 1 for w in want) or [None if i in hid else w[0] for i, w in enumerate(want)] != list(s):
                res.append(("decode_mismatch", f"decode_sat_solution gave {s} for a SAT model whose true value "
                            f"literals are {want}", False))
                break
    return res, trace


def symptom(klass):
    return klass.split(":")[0]


def evaluate(cases):
    outs = run_pool(K.impl, cases, timeout=K.SAT_TIMEOUT + 20.0)
    pcss, replies = K.run_model(cases, outs, mode=5)
    res = []
    for case, pcs, out, rp in zip(cases, pcss, outs, replies):
        d = K.unpack(rp)
        rep = {"case": case, "proto": pcs, "impl": out,
               "model": {"sols": d["sols"], "proj": d["proj"], "mirror_cnf": d["mirror"],
                         "sat_model_checks": d["sat_model_checks"]}}
        res.append((judgement(case, pcs, out, d)[0], rep, pcs))
    return res


def report(ctx, case, klass, what, rep):
    """ctx.fail, after shrinking the first few failing inputs (same symptom must persist)."""
    if case.get("family") == "history":
        # does the same model fail when it is built and encoded fresh?  If not, the history is to blame
        fresh = {k: v for k, v in case.items() if k not in ("family", "round")}
        if not any(symptom(k) == symptom(klass) for k, _, _ in evaluate([fresh])[0][0]):
            klass += ":after_previous_solve"
        return ctx.fail(FN, klass, what, rep)
    if getattr(ctx, "_shrunk", 0) >= 5 or ctx.known_match(FN, klass) is not None:
        return ctx.fail(FN, klass, what, rep)
    ctx._shrunk = getattr(ctx, "_shrunk", 0) + 1
    sym = symptom(klass)

    def fails_with(cands):
        return [any(symptom(k) == sym for k, _, _ in f) for f, _, _ in evaluate(cands)]

    small, steps = K.minimise(case, fails_with)
    if steps:
        fails, rep2, pcs = evaluate([small])[0]
        hit = next(((k, w, n) for k, w, n in fails if symptom(k) == sym), None)
        if hit is not None:
            k2, w2, needs = hit
            if needs:
                k2 += ":" + (K.tag_of(pcs[0]) if len(pcs) == 1 else "none" if not pcs else klass.split(":", 1)[-1])
            rep2["shrunk_from"] = {"case": case, "class": klass, "steps": steps}
            ctx.count("shrunk_failures")
            return ctx.fail(FN, k2, w2, rep2)
    return ctx.fail(FN, klass, what, rep)


def run_histories(ctx, hcases):
    """Histories on one Model object: the clause list of EACH solve is captured and its decoded model set is
    compared with the CP solutions of the model as it is at that solve."""
    K.preload()
    houts = run_pool(K.impl_history, hcases, timeout=3 * K.SAT_TIMEOUT + 20.0)
    cases, outs, owner = K.flatten_histories(hcases, houts)
    run_cases(ctx, cases, outs=outs, hist=[hcases[i] for i in owner])


def run_cases(ctx, cases, attribute=True, outs=None, hist=None):
    K.preload()
    if outs is None:
        outs = run_pool(K.impl, cases, timeout=K.SAT_TIMEOUT + 20.0)
    pcss, replies = K.run_model(cases, outs, mode=5)
    hist = hist or [None] * len(cases)
    hist_of = {id(c): h for c, h in zip(cases, hist)}
    cov = ctx.cov.setdefault("coverage_table", {})
    pending = []
    agree = ctx.cov.setdefault("r_trace_agree", 0)
    for case, pcs, out, rp in zip(cases, pcss, outs, replies):
        d = K.unpack(rp)
        rep = {"case": case, "proto": pcs, "impl": out,
               "model": {"sols": d["sols"], "proj": d["proj"], "mirror_cnf": d["mirror"], "sat_model_checks": d["sat_model_checks"]}}
        st = out[1]["status"] if out[0] == "ok" else err_kind(out)
        if hist_of.get(id(case)) is not None:  # replay needs the whole history; the judged model is the snapshot
            rep = {**rep, "case": hist_of[id(case)], "snapshot": case, "round": case["round"]}
            ctx.count(f"history_round:{case['round']}")
        if case.get("styles") and any(case["styles"]):
            ctx.count("presentation_styles:plain_case")
        ctx.count(f"status:{st}")
        ctx.count("cnf:" + ("captured" if out[0] == "ok" and out[1]["cnf"] is not None else "none"))
        ctx.count("truth:" + ("feasible" if d["sols"] else "infeasible"))
        if out[0] == "ok" and out[1]["cnf"] is not None:
            ctx.count("clauses:" + ("<50" if len(out[1]["cnf"]) < 50 else "<500" if len(out[1]["cnf"]) < 500 else ">=500"))
            if any(not ok for ok in d["sat_model_checks"]) or st == "SAT_TIMEOUT":
                ctx.count("sat_backend_misbehaved(not judged here)")
        for pc in pcs:
            key = f"{K.tag_of(pc)}|sat"
            cov[key] = cov.get(key, 0) + 1
        fails, trace = judgement(case, pcs, out, d)
        if case.get("round"):
            # later solves of a history: stale auxiliaries of earlier encodings are part of the clause list, so
            # the literal comparison with the fresh mirror (R_trace) does not apply; R_prop does
            trace = None
        for klass, what, needs in fails:
            if needs and attribute and pcs:
                pending.append((case, pcs, klass, what, rep))
            else:
                report(ctx, case, klass + (":none" if needs else ""), what, rep)
        if trace is True:
            ctx.cov["r_trace_agree"] += 1
        elif trace is False:
            ctx.tdiv(FN, {"case": case, "proto": pcs, "captured_cnf": (out[1]["cnf"] if out[0] == "ok" else None),
                          "mirror_cnf": d["mirror"]})
        ctx.case([case["vars"], case["cons"], case.get("hidden") or [], case.get("styles"), case.get("round"),
                  (hist_of.get(id(case)) or {}).get("history")], K.nontrivial(case),
                 {"case": case, "clauses": (len(out[1]["cnf"]) if out[0] == "ok" and out[1]["cnf"] is not None else None),
                  "cp_solutions": len(d["sols"]), "cnf_projected_models": (len(d["proj"]) if d["proj"] is not None else None)})
    if pending:
        subs, owners = [], []
        for n, (case, pcs, klass, what, rep) in enumerate(pending):
            if len(case["cons"]) == 1:
                continue
            for i in range(len(case["cons"])):
                sub = {**case, "cons": [case["cons"][i]]}
                if case.get("styles"):
                    sub["styles"] = [case["styles"][i]] if i < len(case["styles"]) else None
                subs.append(sub)
                owners.append((n, i))
        found = {}
        if subs:
            souts = run_pool(K.impl, subs, timeout=K.SAT_TIMEOUT + 20.0)
            spcss, sreplies = K.run_model(subs, souts, mode=5)
            for (n, i), sc, spcs, so, srp in zip(owners, subs, spcss, souts, sreplies):
                if n in found:
                    continue
                ks = [k for k, _, _ in judgement(sc, spcs, so, K.unpack(srp))[0]]
                if pending[n][2] in ks:
                    found[n] = i
        for n, (case, pcs, klass, what, rep) in enumerate(pending):
            if len(pcs) == 1:
                tag = K.tag_of(pcs[0])
            elif n in found:
                tag = K.tag_of(pcs[found[n]])
                rep = {**rep, "attributed_to_constraint": found[n]}
            else:
                tag = "combination:" + "+".join(sorted({K.tag_of(p) for p in pcs}))
            report(ctx, case, f"{klass}:{tag}", what, rep)


def run(ctx, budget):
    ctx.cov["rule"] = RULE
    cases = list(edge_cases()) + [c["case"] for c in core.load_corpus("C06")]
    run_cases(ctx, cases)
    for _ in range(3 * budget):
        run_cases(ctx, gen_cases(ctx.rng, 1000, big=(ctx.tier == "thorough")))
    scaled = []
    for _ in range(200 * budget):
        vars_, cons = K.gen_scaled(ctx.rng)
        scaled.append({"vars": vars_, "cons": cons, "hints": None, "limit": 1, "solver": "sat", "family": "scaled"})
    run_cases(ctx, scaled)
    numeric = []
    for _ in range(300 * budget):
        vars_, cons, hints = K.gen_numeric_edge(ctx.rng)
        numeric.append({"vars": vars_, "cons": cons, "hints": hints, "limit": 1, "solver": "sat", "family": "numeric_edge"})
    run_cases(ctx, numeric)
    # fixed share, both tiers: histories on one Model (every solve through the SAT encoder)
    hs = []
    for _ in range(500 * budget):
        h = K.gen_history(ctx.rng, big=False)
        for rnd in h["history"]:
            rnd["solver"] = "sat"
            rnd["limit"] = 1
        hs.append(h)
    run_histories(ctx, hs)
    summarise(ctx)


def summarise(ctx):
    """Aggregate the (kind:shape | solver) table to (kind | solver) for a quick look."""
    agg = {}
    for k, v in ctx.cov.get("coverage_table", {}).items():
        tag, sv = k.split("|")
        kind = ":".join(tag.split(":")[:2]) if tag.startswith("rel") else tag.split(":")[0]
        agg[f"{kind}|{sv}"] = agg.get(f"{kind}|{sv}", 0) + v
    ctx.cov["coverage_kinds"] = dict(sorted(agg.items()))


def replay(ctx, body):
    ctx.cov["rule"] = RULE
    if "case" not in body:  # a no-failing-input report: replay its first diverging input
        body = body["trace_divergences"][0]["detail"]
    ctx._shrunk = 5  # replay exactly the recorded input, no further shrinking
    if "history" in body["case"]:
        return run_histories(ctx, [body["case"]])
    run_cases(ctx, [body["case"]])
