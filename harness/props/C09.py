"""C09 — min_cost_flow / network_simplex / solve_assignment against the certified SSP reference.

Every explored instance is solved by the Lean model `Inst.ssp` (per-arc residual network); its
answer is accepted only if the *verified* checker confirms it for that instance (`chkMinCost`:
feasible + potentials with non-negative reduced cost on every residual arc => minimum cost;
`chkInfeas`: a node set whose net supply exceeds the capacity leaving it => no feasible flow).
The implementation's returned dict is turned into a per-arc flow (cheapest split over parallel
arcs, the only split that can attain the optimum) and pushed through the same verified checker.

R_prop (each solver, and solve_assignment): the call returns; INFEASIBLE iff certified infeasible;
otherwise integral, capacities respected, demand/supplies met exactly, reported cost = sum
cost*flow = certified optimum; on instances both can express the two solvers agree.
R_trace (min_cost_flow only, instances where each node pair carries one arc group and so the
code's node-pair tables are the residual network): returned flow dict equals the mirror's.
"""
from __future__ import annotations

import pathlib as _pl
import sys as _sys

_sys.path.insert(0, str(_pl.Path(__file__).resolve().parent.parent))   # (for `python harness/props/C09.py --selftest`)

from core import Driver, Infra, load_corpus  # noqa: E402
from pool import err_kind, run_pool
from props import flow_common as fc

AREAS = ["Flow"]
LEVEL = "proof"
ASSUMPTIONS = [
    "min_cost_flow: the SSP model is a mirror only where each node pair carries one arc group (no anti-parallel "
    "pair, no parallel arcs of different cost); CPython set iteration order of `nodes` is observed in the worker "
    "and passed to the model as the node numbering; elsewhere the model is the certified reference",
    "network_simplex: no mirror (no invariant holds on the unchanged tree update); decided against the certified "
    "optimum; failures are *classified* (never decided) by observing the unchanged function under sys.settrace: class "
    "suffix basis_tree_corrupted = at the start of some iteration parent/pred/depth/thread/pi are not one rooted "
    "spanning tree with zero reduced cost on tree arcs (the invariant the property record names for this state) AND the "
    "basis at loop exit is not a consistent spanning-tree basis (if it is, the answer depends on the pricing test only "
    "and a failure stays a VIOLATION) AND the result equals what the recorded baseline copy of network_simplex "
    "(corpus/C09/baseline, the code the finding was recorded against) returns on the same input; calls that do not "
    "return are classified by the observed corruption alone",
    "solve_assignment: no R_trace (CPython str-set order decides ties); the network is rebuilt in Lean in a fixed numbering",
    "the implementation's pooled dict is split over parallel arcs cheapest-first by the harness before the verified "
    "checker runs (any other split costs at least as much, so verdicts on capacity/balance/optimality are unaffected)",
    "excluded region: negative-cost cycles, negative capacities, negative demand, non-integer data; network_simplex "
    "prices in doubles: instances with 4*(n+1)*sum|cost| >= 2**53 reach it only as common instances of min_cost_flow, "
    "and its failures there carry the class suffix cost_sum_beyond_2p53 (recorded finding)",
    "ssp_certifies is proved (s-t and transshipment form: without a negative-cost cycle the certified SSP model never "
    "ends without an answer; ssp_sound: every answer is right); the driver runs that certifying model, so 'no certified "
    "answer' on an explored input would mean a negative cycle slipped through the generator - an infrastructure error",
]
RULE = ("networks of 2..6 nodes (8 thorough), <= 12 arcs (16), costs -3..6 built as reduced cost >= 0 plus a potential "
        "difference (no negative cycle), capacities 0..6 with zero-capacity arcs, parallel arcs of equal and different "
        "cost, anti-parallel pairs, arcs into the source / out of the sink, self-loops, unreachable parts, terminals "
        "without arcs, int/str labels and odd hashables (None, 0, '', (), frozenset(), -1, 0.5, tuples); demands 0, partial, saturating and infeasible; balanced multi-supply vectors "
        "(plus unbalanced and capacity-infeasible ones) for network_simplex, which also receives every s-t instance; "
        "rectangular assignment matrices 0..5 x 0..5; a fixed share (about 14 %) of 'large cost base' instances for all "
        "three functions: integer costs B + 0..9 with B in 1e6..1e12 on layered / transportation networks (several sources "
        "and sinks, equal-length alternative routes, balanced supplies) and matrices, compared exactly as integers; about 10 % numeric-edge cases (huge odd capacities, demands, supplies and - for "
        "min_cost_flow / solve_assignment - costs above 2**53, integral floats for network_simplex costs/supplies, 8-25 "
        "unit routes next to a huge one); non-trivial = the model made >= 2 augmentations or used a "
        "backward residual arc; distinct by canonical (function, instance)")
TIMEOUT = 1.5        # min_cost_flow / solve_assignment: >= 1000x the run time of any explored instance
TIMEOUT_NS = 8.0     # network_simplex stops at max_iter = 1e6 (about 4-10 s on these sizes)


# ---------------------------------------------------------------------------
# generators (index based; labels are applied afterwards)
# ---------------------------------------------------------------------------

def gen_arcs(rng, n, big, feature_free=False):
    """[(u, v, cap, cost)] without negative cycles: cost = r + pot[v] - pot[u], r >= 0."""
    pot = [rng.randint(0, 3) for _ in range(n)]
    if rng.random() < 0.3:
        pot = [0] * n
    m_max = 16 if big else 12
    dens = rng.choice([0.2, 0.3, 0.45, 0.6])
    arcs = []
    pairs = [(u, v) for u in range(n) for v in range(n) if u != v]
    rng.shuffle(pairs)
    for (u, v) in pairs:
        if len(arcs) >= m_max:
            break
        if rng.random() < dens:
            def mk():
                r = rng.choice([0, 0, 1, 1, 2, 3])
                cap = 0 if rng.random() < 0.1 else rng.randint(1, 6)
                return (u, v, cap, r + pot[v] - pot[u])
            a = mk()
            arcs.append(a)
            if rng.random() < 0.12:                      # parallel arc, same cost
                arcs.append((u, v, rng.randint(1, 4), a[3]))
            if not feature_free and rng.random() < 0.12:  # parallel arc, different cost
                arcs.append(mk())
    if feature_free:
        seen = set()
        keep = []
        for a in arcs:
            if (a[1], a[0]) in seen:
                continue
            seen.add((a[0], a[1]))
            keep.append(a)
        arcs = keep
    if rng.random() < 0.05 and n:
        u = rng.randrange(n)
        arcs.append((u, u, rng.randint(1, 3), rng.randint(0, 3)))   # self-loop, cost >= 0
    rng.shuffle(arcs)
    return arcs


def fix_negative_cycles(n, arcs):
    """raise arc costs until Bellman-Ford (all arcs, capacities ignored) finds no negative cycle"""
    arcs = [list(a) for a in arcs]
    for _ in range(200):
        dist = [0] * n
        last = None
        for _ in range(n + 1):
            last = None
            for a in arcs:
                if dist[a[0]] + a[3] < dist[a[1]]:
                    dist[a[1]] = dist[a[0]] + a[3]
                    last = a
            if last is None:
                break
        if last is None:
            break
        last[3] += 1
    return [tuple(a) for a in arcs]


def py_maxflow(n, arcs, s, t):
    """plain max flow (generator aid only: picks saturating / infeasible demands)"""
    if s == t:
        return 0
    cap = [[0] * n for _ in range(n)]
    for u, v, c, _ in arcs:
        if u != v:
            cap[u][v] += c
    total = 0
    while True:
        par = [-1] * n
        par[s] = s
        q = [s]
        for u in q:
            for v in range(n):
                if par[v] < 0 and cap[u][v] > 0:
                    par[v] = u
                    q.append(v)
        if par[t] < 0:
            return total
        d, v = None, t
        while v != s:
            d = cap[par[v]][v] if d is None else min(d, cap[par[v]][v])
            v = par[v]
        v = t
        while v != s:
            cap[par[v]][v] -= d
            cap[v][par[v]] += d
            v = par[v]
        total += d


def gen_mcf(rng, big):
    n = rng.choice([2, 3, 3, 4, 4, 5, 5, 6] + ([7, 8] if big else []))
    feature_free = rng.random() < 0.62
    arcs = gen_arcs(rng, n, big, feature_free)
    s, t = rng.sample(range(n), 2)
    if rng.random() < 0.02:
        t = s
    if s != t and rng.random() < 0.75:   # plant s-t paths so that most instances can route something
        for _ in range(rng.choice([1, 1, 2])):
            inner = [x for x in range(n) if x not in (s, t)]
            rng.shuffle(inner)
            p = [s] + inner[:rng.randint(0, min(3, len(inner)))] + [t]
            for i in range(len(p) - 1):
                u, v = p[i], p[i + 1]
                have = {(a[0], a[1]) for a in arcs}
                if feature_free and (v, u) in have:
                    break
                if feature_free and (u, v) in have:
                    continue
                arcs.append((u, v, rng.randint(1, 6), rng.randint(-1, 5)))
    arcs = fix_negative_cycles(n, arcs)
    if feature_free:          # (raising a cost may have split a parallel group: re-unify upwards)
        top = {}
        for a in arcs:
            top[(a[0], a[1])] = max(top.get((a[0], a[1]), a[3]), a[3])
        arcs = [(a[0], a[1], a[2], top[(a[0], a[1])]) for a in arcs]
    if rng.random() < 0.06:   # a terminal without arcs
        x = rng.choice([s, t])
        arcs = [a for a in arcs if x not in (a[0], a[1])]
    mf = py_maxflow(n, arcs, s, t)
    r = rng.random()
    if r < 0.08:
        demand = 0
    elif r < 0.55:
        demand = rng.randint(1, max(1, mf))
    elif r < 0.88:
        demand = mf
    else:
        demand = mf + rng.randint(1, 3)
    labs = fc.label_maker(rng, n)
    keys = []
    for a in arcs:
        if a[0] not in keys:
            keys.append(a[0])
    for x in range(n):
        if x not in keys and rng.random() < 0.3:
            keys.insert(rng.randint(0, len(keys)), x)
    graph = [[labs[u], [[labs[a[1]], a[2], a[3]] for a in arcs if a[0] == u]] for u in keys]
    return {"fn": "min_cost_flow", "graph": graph, "source": labs[s], "sink": labs[t], "demand": demand}


def gen_ns(rng, big):
    n = rng.choice([1, 2, 3, 3, 4, 4, 5, 5, 6] + ([7, 8] if big else []))
    arcs = gen_arcs(rng, n, big, feature_free=rng.random() < 0.3) if n > 1 else []
    if rng.random() < 0.03:
        arcs = []
    # balanced supplies from a random feasible-looking routing: push units along random arcs
    sup = [0] * n
    r = rng.random()
    if r < 0.7 and arcs:
        for _ in range(rng.randint(1, 4)):
            a = rng.choice(arcs)
            if a[0] != a[1]:
                k = rng.randint(0, max(0, a[2]))
                sup[a[0]] += k
                sup[a[1]] -= k
    elif r < 0.9 and n >= 2:
        for _ in range(rng.randint(1, 3)):
            u, v = rng.sample(range(n), 2)
            k = rng.randint(1, 5)
            sup[u] += k
            sup[v] -= k
    if rng.random() < 0.06 and n:
        sup[rng.randrange(n)] += rng.choice([-2, -1, 1, 2])   # unbalanced
    return {"fn": "network_simplex", "n": n, "arcs": [list(a) for a in arcs], "supplies": sup}


def gen_assign(rng, big):
    hi = 6 if big else 5
    n = rng.randint(0, hi)
    m = rng.randint(0, hi) if rng.random() < 0.6 else n
    style = rng.random()
    if style < 0.3:
        mat = [[rng.randint(0, 3) for _ in range(m)] for _ in range(n)]      # many ties
    elif style < 0.8:
        mat = [[rng.randint(-3, 9) for _ in range(m)] for _ in range(n)]
    else:
        mat = [[(i * j + rng.randint(0, 2)) % 7 for j in range(m)] for i in range(n)]
    return {"fn": "solve_assignment", "matrix": mat}


BASES = [10 ** 6, 10 ** 8, 10 ** 8, 10 ** 9, 10 ** 9, 10 ** 12]


def _layered(rng, sizes, base, cap_hi):
    """arcs between consecutive layers (every node keeps an in- and an out-arc), cost = base + 0..9, so all routes
    from the first to the last layer have the same number of arcs and differ in cost by a few units only"""
    layers, nid = [], 0
    for k in sizes:
        layers.append(list(range(nid, nid + k)))
        nid += k
    arcs = []
    for a, b in zip(layers, layers[1:]):
        pairs = {(u, v) for u in a for v in b if rng.random() < 0.7}
        for u in a:
            if not any(p[0] == u for p in pairs):
                pairs.add((u, rng.choice(b)))
        for v in b:
            if not any(p[1] == v for p in pairs):
                pairs.add((rng.choice(a), v))
        for (u, v) in sorted(pairs):
            arcs.append((u, v, rng.randint(1, cap_hi), base + rng.randint(0, 9)))
    rng.shuffle(arcs)
    return layers, nid, arcs


def gen_bigcost(rng, big, fn):
    """the 'large cost base' family: integer costs B + 0..9 with B in 1e6..1e12 (exactly representable; every sum
    stays far below 2**53) on layered / transportation networks with equal-length alternative routes"""
    base = rng.choice(BASES)
    if fn == "solve_assignment":
        hi = 6 if big else 5
        n = rng.randint(2, hi)
        m = rng.randint(2, hi) if rng.random() < 0.4 else n
        return {"fn": fn, "matrix": [[base + rng.randint(0, 9) for _ in range(m)] for _ in range(n)]}
    if fn in ("network_simplex", "min_cost_flow") and rng.random() < 0.5:
        # complete transportation problem k x l without binding arc capacities: the cheapest-arc-first basis the
        # big-M phase ends in is often not optimal, the optimum then needs one more pivot whose reduced cost is
        # only a few units (the difference of two routes of equal length)
        k, l = rng.randint(2, 3), rng.randint(2, 3 if not big else 4)
        total = rng.randint(2, 8)
        sup, dem = [0] * k, [0] * l
        for _ in range(total):
            sup[rng.randrange(k)] += 1
            dem[rng.randrange(l)] += 1
        small = [[rng.randint(0, 9) for _ in range(l)] for _ in range(k)]
        if rng.random() < 0.5:      # make the overall cheapest cell a trap: its row/column partners are dear
            i0, j0 = rng.randrange(k), rng.randrange(l)
            small[i0][j0] = 0
            i1, j1 = (i0 + 1) % k, (j0 + 1) % l
            small[i1][j1] = 9
            small[i0][j1] = rng.randint(1, 3)
            small[i1][j0] = rng.randint(1, 3)
        if fn == "network_simplex":
            arcs = [[i, k + j, total + rng.choice([0, 1, 5]), base + small[i][j]] for i in range(k) for j in range(l)]
            rng.shuffle(arcs)
            return {"fn": fn, "n": k + l, "arcs": arcs, "supplies": sup + [-d for d in dem]}
        n = k + l + 2
        s, t = 0, n - 1
        arcs = [(s, 1 + i, sup[i], base) for i in range(k) if sup[i]]
        arcs += [(1 + i, 1 + k + j, total, base + small[i][j]) for i in range(k) for j in range(l)]
        arcs += [(1 + k + j, t, dem[j], base) for j in range(l) if dem[j]]
        rng.shuffle(arcs)
        labs = fc.label_maker(rng, n)
        keys = []
        for a in arcs:
            if a[0] not in keys:
                keys.append(a[0])
        graph = [[labs[u], [[labs[a[1]], a[2], a[3]] for a in arcs if a[0] == u]] for u in keys]
        return {"fn": fn, "graph": graph, "source": labs[s], "sink": labs[t], "demand": total}
    if fn == "network_simplex":
        # transportation / transshipment: sources -> (0..2 inner layers) -> sinks, balanced supplies
        inner = rng.choice([[], [2], [2], [3], [2, 2]] + ([[3, 3], [2, 3, 2]] if big else []))
        sizes = [rng.randint(2, 3)] + inner + [rng.randint(2, 3)]
        total = rng.randint(2, 9)
        layers, n, arcs = _layered(rng, sizes, base, rng.choice([3, 6, total, total]))
        sup = [0] * n
        for _ in range(total):
            sup[rng.choice(layers[0])] += 1
            sup[rng.choice(layers[-1])] -= 1
        return {"fn": fn, "n": n, "arcs": [list(a) for a in arcs], "supplies": sup}
    # min_cost_flow: s -> layers -> t (also handed to network_simplex as a common instance)
    inner = rng.choice([[2], [3], [2, 2], [2, 3], [3, 2]] + ([[3, 3], [2, 2, 2]] if big else []))
    layers, n, arcs = _layered(rng, [1] + inner + [1], base, 6)
    s, t = 0, n - 1
    mf = py_maxflow(n, arcs, s, t)
    demand = rng.choice([mf, mf, max(1, mf - 1), max(1, mf // 2), mf + 1])
    labs = fc.label_maker(rng, n)
    keys = []
    for a in arcs:
        if a[0] not in keys:
            keys.append(a[0])
    graph = [[labs[u], [[labs[a[1]], a[2], a[3]] for a in arcs if a[0] == u]] for u in keys]
    return {"fn": fn, "graph": graph, "source": labs[s], "sink": labs[t], "demand": demand}


HUGE = [2 ** 53 + 1, 2 ** 53 + 3, 3 * 2 ** 53 + 1, 2 ** 60 + 7, 10 ** 18 + 3, 2 ** 64 + 1]


def _mcf_case(rng, n, arcs, s, t, demand):
    labs = fc.label_maker(rng, n)
    keys = []
    for a in arcs:
        if a[0] not in keys:
            keys.append(a[0])
    graph = [[labs[u], [[labs[a[1]], a[2], a[3]] for a in arcs if a[0] == u]] for u in keys]
    return {"fn": "min_cost_flow", "graph": graph, "source": labs[s], "sink": labs[t], "demand": demand}


def gen_numeric(rng, big, fn):
    """numeric edge: huge ODD integers above 2**53 (no double holds them) as capacities, demands, supplies and (for
    min_cost_flow / solve_assignment, which compute in Python ints) costs, mixed with small ones; integral floats
    where the contract has floats (network_simplex costs and supplies); long augmenting sequences of unit routes.
    network_simplex prices in doubles by contract (cost: float), so its costs stay small here."""
    h = lambda: rng.choice(HUGE) + rng.choice([0, 2, 4])      # noqa: E731  (odd)
    if fn == "solve_assignment":
        n = rng.randint(1, 4)
        m = rng.randint(1, 4)
        base = rng.choice(HUGE)
        return {"fn": fn, "matrix": [[(base + 2 * rng.randint(0, 4)) if rng.random() < 0.8 else rng.randint(0, 9)
                                      for _ in range(m)] for _ in range(n)]}
    if fn == "network_simplex":
        # either huge integers throughout (costs small ints), or small values given as integral floats: a float
        # next to a value above 2**53 would make the contract itself inexact (sum(supplies), flow * cost in doubles)
        floaty = rng.random() < 0.3
        n = rng.randint(2, 5)
        arcs = []
        for u in range(n):
            for v in range(n):
                if u != v and rng.random() < 0.45:
                    cap = rng.randint(1, 5) if floaty or rng.random() < 0.4 else h()
                    cost = rng.randint(0, 6)
                    arcs.append([u, v, cap, float(cost) if floaty and rng.random() < 0.7 else cost])
        sup = [0] * n
        for _ in range(rng.randint(1, 2)):
            u, v = rng.sample(range(n), 2)
            k = rng.randint(1, 4) if floaty or rng.random() < 0.4 else h()
            sup[u] += k
            sup[v] -= k
        if floaty:
            sup = [float(x) if rng.random() < 0.7 else x for x in sup]
        return {"fn": fn, "n": n, "arcs": arcs, "supplies": sup}
    kind = rng.random()
    if kind < 0.3:      # many unit routes of different cost: a long augmenting sequence
        k = rng.randint(8, 25 if big else 16)
        s, t, nid, arcs = 0, 1, 2, []
        for _ in range(k):
            arcs += [(s, nid, 1, rng.randint(0, 5)), (nid, t, rng.choice([1, 2]), rng.randint(0, 5))]
            nid += 1
        hc = h()
        arcs += [(s, nid, hc, 7), (nid, t, hc, 7)]
        nid += 1
        rng.shuffle(arcs)
        return _mcf_case(rng, nid, arcs, s, t, rng.choice([k, k - 1, k + 1, k + hc, k + hc + 1]))
    n = rng.choice([2, 3, 4, 5])
    s, t = rng.sample(range(n), 2)
    arcs, seen = [], set()
    for u in range(n):
        for v in range(n):
            if u != v and (v, u) not in seen and rng.random() < 0.5:
                seen.add((u, v))
                cap = h() if rng.random() < 0.5 else rng.randint(0, 6)
                cost = h() if rng.random() < 0.5 else rng.randint(0, 6)     # costs >= 0: no negative cycle
                arcs.append((u, v, cap, cost))
    inner = [x for x in range(n) if x not in (s, t)]
    rng.shuffle(inner)
    p = [s] + inner[:rng.randint(0, 2)] + [t]
    for i in range(len(p) - 1):
        if (p[i + 1], p[i]) not in seen and (p[i], p[i + 1]) not in seen:
            seen.add((p[i], p[i + 1]))
            arcs.append((p[i], p[i + 1], h(), h() if rng.random() < 0.5 else rng.randint(0, 6)))
    rng.shuffle(arcs)
    mf = py_maxflow(n, arcs, s, t)
    demand = rng.choice([mf, mf, max(0, mf - 1), mf + 1, rng.randint(1, 5), h()])
    return _mcf_case(rng, n, arcs, s, t, demand)


def edge_cases():
    # numeric edge: values no double can hold
    yield {"fn": "min_cost_flow", "graph": [["s", [["t", 2 ** 53 + 1, 2 ** 53 + 3]]]], "source": "s", "sink": "t", "demand": 3}
    yield {"fn": "min_cost_flow", "graph": [["s", [["t", 2 ** 60 + 7, 1]]]], "source": "s", "sink": "t", "demand": 2 ** 60 + 7}
    yield {"fn": "network_simplex", "n": 2, "arcs": [[0, 1, 2 ** 53 + 3, 1]], "supplies": [2 ** 53 + 1, -(2 ** 53 + 1)]}
    yield {"fn": "network_simplex", "n": 3, "arcs": [[0, 1, 4, 2.0], [1, 2, 4, 1.0], [0, 2, 1, 5.0]], "supplies": [3.0, 0.0, -3.0]}
    yield {"fn": "solve_assignment", "matrix": [[2 ** 53 + 1, 2 ** 53 + 3], [2 ** 53 + 5, 2 ** 53 + 1]]}
    yield {"fn": "min_cost_flow", "graph": [], "source": "s", "sink": "t", "demand": 1}
    yield {"fn": "min_cost_flow", "graph": [], "source": "s", "sink": "t", "demand": 0}
    yield {"fn": "min_cost_flow", "graph": [["s", [["a", 2, 1]]]], "source": "s", "sink": "t", "demand": 1}
    yield {"fn": "min_cost_flow", "graph": [["s", [["t", 5, 2]]], ["t", []]], "source": "s", "sink": "t", "demand": 5}
    yield {"fn": "min_cost_flow", "graph": [["s", [["t", 5, 2]]], ["t", []]], "source": "s", "sink": "t", "demand": 6}
    # DESIGN §4 C09 witness: one cost per node pair
    yield {"fn": "min_cost_flow", "graph": [[1, [[0, 2, 2], [0, 3, 5]]], [0, [[1, 1, 5], [1, 4, 5]]]],
           "source": 0, "sink": 1, "demand": 4}
    # a node labelled None: inner node, source, sink
    yield {"fn": "min_cost_flow", "graph": [["s", [[None, 2, 1]]], [None, [["t", 2, 1]]]], "source": "s", "sink": "t", "demand": 2}
    yield {"fn": "min_cost_flow", "graph": [[None, [["a", 2, 1]]], ["a", [["t", 2, 1]]]], "source": None, "sink": "t", "demand": 2}
    yield {"fn": "min_cost_flow", "graph": [["s", [["a", 2, 1]]], ["a", [[None, 2, 1]]]], "source": "s", "sink": None, "demand": 1}
    yield {"fn": "min_cost_flow", "graph": [[0, [[{"tuple": []}, 2, 3], ["", 1, 0]]], [{"tuple": []}, [[{"frozenset": []}, 2, -1]]],
                                            ["", [[{"frozenset": []}, 3, 4]]]], "source": 0, "sink": {"frozenset": []}, "demand": 3}
    yield {"fn": "network_simplex", "n": 3, "arcs": [[0, 1, 10, 2], [1, 2, 15, 1], [0, 2, 5, 3]], "supplies": [10, 0, -10]}
    yield {"fn": "network_simplex", "n": 2, "arcs": [], "supplies": [0, 0]}
    yield {"fn": "network_simplex", "n": 2, "arcs": [], "supplies": [1, -1]}
    yield {"fn": "network_simplex", "n": 2, "arcs": [[0, 1, 3, 1]], "supplies": [1, 0]}
    yield {"fn": "network_simplex", "n": 2, "arcs": [[0, 1, 3, 1], [0, 1, 3, 2]], "supplies": [5, -5]}
    yield {"fn": "solve_assignment", "matrix": []}
    yield {"fn": "solve_assignment", "matrix": [[]]}
    yield {"fn": "solve_assignment", "matrix": [[10, 5, 13], [3, 7, 15], [8, 12, 4]]}
    yield {"fn": "solve_assignment", "matrix": [[1, 2], [3, 1], [0, 0]]}


# ---------------------------------------------------------------------------
# implementation side (worker process)
# ---------------------------------------------------------------------------

def _res(r):
    sol = r.solution
    return {"status": r.status.name,
            "objective": r.objective if isinstance(r.objective, (int, float)) and r.objective == r.objective else repr(r.objective),
            "flow": [[k[0], k[1], v] for k, v in sol.items()] if isinstance(sol, dict) else None,
            "solution": sol if isinstance(sol, list) else None,
            "iterations": r.iterations}


def _set_order(graph, source, sink):
    """iteration order of the `nodes` set exactly as (the repaired) min_cost_flow builds it"""
    nodes = {source, sink}
    for u in graph:
        nodes.add(u)
        for a in graph[u]:
            nodes.add(a[0])
    return list(nodes)


class _Corrupted(Exception):
    pass


def _basis_tree_ok(loc):
    """the invariant the property names for network_simplex's state: parent/pred/depth/thread/pi describe one
    rooted spanning tree (depth = parent's depth + 1, pred joins node and parent, thread is a preorder of it)
    whose tree arcs have zero reduced cost"""
    parent, pred, depth, thread, pi = loc["parent"], loc["pred"], loc["depth"], loc["thread"], loc["pi"]
    source, target, cost = loc["source"], loc["target"], loc["cost"]
    root, total = loc["root"], loc["total_nodes"]
    if depth[root] != 0 or parent[root] != -1:
        return False
    for v in range(total):
        if v == root:
            continue
        p, a = parent[v], pred[v]
        if not (0 <= p < total) or not (0 <= a < len(source)):
            return False
        if depth[v] != depth[p] + 1:
            return False
        if {source[a], target[a]} != {v, p}:
            return False
        if cost[a] - pi[source[a]] + pi[target[a]] != 0:
            return False
    order, v = [], root
    for _ in range(total):
        order.append(v)
        v = thread[v]
        if not (0 <= v < total):
            return False
    if v != root or len(set(order)) != total:
        return False
    for k in range(1, total):
        u, v = order[k - 1], order[k]
        anc, ok = u, False
        for _ in range(total + 1):
            if parent[v] == anc:
                ok = True
                break
            if anc == root:
                break
            anc = parent[anc]
        if not ok:
            return False
    return True


def _final_basis_ok(loc):
    """at loop exit: parent/pred is a spanning tree rooted at `root`, tree arcs have zero reduced cost, every
    non-tree arc sits at a bound, all flows are within bounds and conserve (artificial arcs included).  With such a
    basis the answer is decided by the pricing test alone, so a wrong answer is not explained by the tree update."""
    parent, pred, pi, flow, cap = loc["parent"], loc["pred"], loc["pi"], loc["flow"], loc["cap"]
    source, target, cost = loc["source"], loc["target"], loc["cost"]
    root, total, n, supplies = loc["root"], loc["total_nodes"], loc["n"], loc["supplies"]
    tree = set()
    for v in range(total):
        if v == root:
            continue
        p, a = parent[v], pred[v]
        if not (0 <= p < total) or not (0 <= a < len(source)) or {source[a], target[a]} != {v, p}:
            return False
        if cost[a] - pi[source[a]] + pi[target[a]] != 0:
            return False
        tree.add(a)
        w = v
        for _ in range(total + 1):
            if w == root:
                break
            w = parent[w]
        if w != root:
            return False
    net = [0] * total
    for a in range(len(source)):
        if not (0 <= flow[a] <= cap[a]):
            return False
        if a not in tree and flow[a] not in (0, cap[a]):
            return False
        net[source[a]] += flow[a]
        net[target[a]] -= flow[a]
    return all(net[v] == supplies[v] for v in range(n))


def ns_tree_corrupted(n, arcs, supplies):
    """Observation for classifying network_simplex failures (never decides one): run the unchanged function
    under sys.settrace.  First run: is the basis-tree invariant named by the property (parent/pred/depth/thread/
    pi one rooted spanning tree, zero reduced cost on tree arcs) broken at the start of some iteration?  (Known
    mechanisms: a subtree whose top node is not the end point of the entering arc is re-hung without reversing the
    path; the depth update loop runs past the re-hung subtree.)  It is abandoned at the first broken invariant.
    If so, a second run looks at the state at loop exit: with a consistent final basis (`_final_basis_ok`) the
    answer depends on the pricing test only, and a failure is then NOT attributed to the tree update.
    Returns (corruption observed at some iteration, corruption observed and final basis not known to be consistent)."""
    import linecache
    import sys
    from solvor.network_simplex import network_simplex
    code = network_simplex.__code__
    state = {"final": None, "lines": 0}

    def text(frame):
        return linecache.getline(code.co_filename, frame.f_lineno).strip()

    def local1(frame, event, arg):
        if event == "line" and text(frame) == "entering = -1":
            try:
                ok = _basis_tree_ok(frame.f_locals)
            except Exception:
                ok = False
            if not ok:
                raise _Corrupted()
        return local1

    def local2(frame, event, arg):
        if event == "line":
            state["lines"] += 1
            if state["lines"] > 150_000:      # cycling or a thread walk that never ends
                raise _Corrupted()
            if state["final"] is None and text(frame) == "for arc in range(m, total_arcs):":
                try:
                    state["final"] = bool(_final_basis_ok(frame.f_locals))
                except Exception:
                    state["final"] = False
                raise _Corrupted()
        return local2

    def other(frame, event, arg):       # helper frames (_find_join can loop forever on a corrupted tree)
        if event == "line":
            state["lines"] += 1
            if state["lines"] > 150_000:
                raise _Corrupted()
        return other

    def run(local):
        def tracer(frame, event, arg):
            if event != "call":
                return None
            return local if frame.f_code is code else other
        sys.settrace(tracer)
        try:
            network_simplex(n, arcs, supplies, max_iter=20000)
            return False
        except _Corrupted:
            return True
        except Exception:
            return False
        finally:
            sys.settrace(None)

    if not run(local1):
        return False, False
    run(local2)
    return True, state["final"] is not True


_BASELINE = None


def ns_baseline_result(case, limit=5):
    """what the recorded baseline copy of network_simplex (corpus/C09/baseline) returns on this input, in the form
    of `_res`; 'timeout' if it is not back within `limit` seconds (classification aid only)"""
    global _BASELINE
    import importlib.util
    import signal
    if _BASELINE is None:
        path = _pl.Path(__file__).resolve().parent.parent.parent / "corpus" / "C09" / "baseline" / "network_simplex_baseline.py"
        spec = importlib.util.spec_from_file_location("c09_ns_baseline", path)
        _BASELINE = importlib.util.module_from_spec(spec)
        spec.loader.exec_module(_BASELINE)

    class _Late(Exception):
        pass

    def on_alarm(signum, frame):
        raise _Late()
    old = signal.signal(signal.SIGALRM, on_alarm)
    signal.alarm(limit)
    try:
        return _res(_BASELINE.network_simplex(case["n"], [tuple(a) for a in case["arcs"]], list(case["supplies"])))
    except _Late:
        return "timeout"
    except Exception as e:  # noqa: BLE001
        return f"raises:{type(e).__name__}"
    finally:
        signal.alarm(0)
        signal.signal(signal.SIGALRM, old)


def impl_ns_flag(case):
    return ns_tree_corrupted(case["n"], [tuple(a) for a in case["arcs"]], list(case["supplies"]))


def impl(case):
    fn = case["fn"]
    import resource
    try:  # a non-returning min_cost_flow grows a list by ~200 MB/s: cap the damage
        resource.setrlimit(resource.RLIMIT_AS, (6 << 30, 6 << 30))
    except (ValueError, OSError):
        pass
    if fn == "min_cost_flow":
        from solvor.flow import min_cost_flow
        g = fc.graph_dict(case["graph"])
        order = _set_order(g, fc.dec(case["source"]), fc.dec(case["sink"]))
        return {"order": order, **_res(min_cost_flow(g, fc.dec(case["source"]), fc.dec(case["sink"]), case["demand"]))}
    if fn == "network_simplex":
        from solvor.network_simplex import network_simplex
        flag = impl_ns_flag(case)[1]      # the call returns: the basis at loop exit counts
        res = _res(network_simplex(case["n"], [tuple(a) for a in case["arcs"]], list(case["supplies"])))
        same = None
        if flag:    # ... and so does: is this exactly what the recorded code (the finding's baseline) returns?
            same = ns_baseline_result(case) == res
        return {"tree_corrupted": bool(flag and same), "tree_corruption_observed": bool(flag), "baseline_same": same, **res}
    if fn == "solve_assignment":
        from solvor.flow import solve_assignment
        return _res(solve_assignment([list(r) for r in case["matrix"]]))
    raise ValueError(fn)


# ---------------------------------------------------------------------------
# instance -> model request
# ---------------------------------------------------------------------------

def merge_parallel(arcs):
    """pool parallel arcs of equal cost (an equivalent instance; the dicts are pooled anyway)"""
    pos, out = {}, []
    for u, v, c, w in arcs:
        k = (u, v, w)
        if k in pos:
            out[pos[k]][2] += c
        else:
            pos[k] = len(out)
            out.append([u, v, c, w])
    return out


def has_feature(arcs):
    """anti-parallel pair or parallel arcs of different cost (min_cost_flow keeps one cost per node pair)"""
    costs = {}
    for u, v, c, w in arcs:
        costs.setdefault((u, v), set()).add(w)
    for (u, v), ws in costs.items():
        if len(ws) > 1:
            return True
        if u != v and (v, u) in costs:
            return True
    return False


def has_parallel(arcs):
    seen = set()
    for u, v, c, w in arcs:
        if (u, v) in seen:
            return True
        seen.add((u, v))
    return False


def split_flow(arcs, pooled):
    """pooled {(u, v): f} -> per-arc flow, cheapest arc first; overflow goes to the last arc of the
    group (so that the verified capacity check fails); -> (x, problem)"""
    groups = {}
    for i, (u, v, c, w) in enumerate(arcs):
        groups.setdefault((u, v), []).append(i)
    x = [0] * len(arcs)
    for (u, v), f in pooled.items():
        idxs = groups.get((u, v))
        if not idxs:
            return None, ("flow_on_non_arc", f"flow {f} on node pair {(u, v)} that carries no arc")
        idxs = sorted(idxs, key=lambda i: (arcs[i][3], i))
        rest = f
        for i in idxs:
            take = min(rest, arcs[i][2]) if rest > 0 else 0
            x[i] = take
            rest -= take
        x[idxs[-1]] += rest
    return x, None


def mcf_instance(case, order):
    """index-mapped instance of a min_cost_flow case in the worker's set order"""
    idx = {lab: i for i, lab in enumerate(order)}
    for lab in fc.index_map(case["graph"], extra=(case["source"], case["sink"])):
        idx.setdefault(lab, len(idx))          # (only if the worker died before reporting an order)
    raw = fc.arcs_in_order(case["graph"], idx, with_cost=True)
    return idx, raw


def impl_flow(out, arcs, idx):
    """(x, reported) for the verified checker, or (None, problem) / (None, None) if nothing to check"""
    if out[0] != "ok" or out[1]["status"] not in ("OPTIMAL", "FEASIBLE"):
        return None, None
    r = out[1]
    rep = fc.integral(r["objective"])
    if rep is None:
        return None, ("cost_not_integer", f"objective {r['objective']!r}")
    if r["flow"] is None:
        return None, ("no_flow_dict", "solution is not a dict")
    pooled = {}
    for u, v, f in r["flow"]:
        fi = fc.integral(f)
        if fi is None:
            return None, ("non_integral_flow", f"flow[{u!r},{v!r}] = {f!r}")
        if u not in idx or v not in idx:
            return None, ("flow_on_unknown_node", f"flow key ({u!r}, {v!r})")
        pooled[(idx[u], idx[v])] = fi
    x, problem = split_flow(arcs, pooled)
    if problem:
        return None, problem
    return [x, rep], None


# ---------------------------------------------------------------------------
# judging
# ---------------------------------------------------------------------------

class _Ctx:
    """ctx wrapper: every failed clause is also counted in the histogram (fail:<function>:<class>)"""

    def __init__(self, ctx):
        self._c = ctx

    def __getattr__(self, k):
        return getattr(self._c, k)

    def fail(self, fn, klass, what, rep):
        self._c.count(f"fail:{fn}:{klass}")
        return self._c.fail(fn, klass, what, rep)


def verdict(ctx, fn, suffix, case, out, model, ichk, problem, rep):
    """R_prop for one solver outcome against the certified model answer. Returns True if it agreed."""
    ctx = _Ctx(ctx)
    m_status, m_cost = model[0], model[2]
    if out[0] != "ok":
        kind = err_kind(out)
        if kind in ("Timeout", "MemoryError"):
            ctx.fail(fn, "no_return" + suffix, f"call did not return within the time limit, twice ({kind})", rep)
        else:
            ctx.fail(fn, f"raises:{kind}" + suffix, f"valid input raised: {out[1][:300]}", rep)
        return False
    r = out[1]
    ctx.count(f"{fn}:status:{r['status']}")
    if r["status"] == "INFEASIBLE":
        if m_status == "feasible":
            ctx.fail(fn, "false_infeasible" + suffix, f"INFEASIBLE although a feasible flow of cost {m_cost} exists "
                     f"(verified: {model[1]})", rep)
            return False
        return True
    if r["status"] not in ("OPTIMAL", "FEASIBLE"):
        ctx.fail(fn, "bad_status" + suffix, f"unexpected status {r['status']}", rep)
        return False
    if m_status == "infeasible":
        ctx.fail(fn, "false_optimal" + suffix, f"status {r['status']} although no feasible flow exists "
                 f"(verified infeasibility cut {model[4]})", rep)
        return False
    if problem:
        ctx.fail(fn, problem[0] + suffix, problem[1], rep)
        return False
    feas, cost_x, cost_eq = ichk
    ctx.count("cert_checked_impl")
    ok = True
    if not feas:
        ok = False
        ctx.fail(fn, "infeasible_flow" + suffix, "returned flow violates a capacity or does not meet the "
                 "demand/supplies (verified checker chkFeas)", rep)
    elif not cost_eq:
        ok = False
        ctx.fail(fn, "cost_mismatch" + suffix, f"reported cost {r['objective']} but sum cost*flow of the returned flow "
                 f"is at least {cost_x}", rep)
    reported = fc.integral(r["objective"])
    if ok and reported != m_cost:
        ok = False
        if reported < m_cost:
            raise Infra(f"C09: Lean-checked feasible flow of cost {reported} below the certified optimum {m_cost}: {case}")
        ctx.fail(fn, "wrong_cost" + suffix, f"reported cost {reported}, certified optimum {m_cost}", rep)
    return ok


def ns_cost_safe(n, arcs):
    """network_simplex prices in doubles with a big-M of n * sum|cost| + 1: below 2**51 every reduced cost it forms
    from integer costs is exact; beyond 2**53 small costs are absorbed by the big-M (a decidable input feature)"""
    return (n + 1) * sum(abs(a[3]) for a in arcs) * 4 < 2 ** 53


def ns_suffix(arcs, out):
    """class suffix of a network_simplex failure: the observed tree-update defect, else the input feature"""
    info = out[1] if out[0] == "ok" else (out[2] if len(out) > 2 else {})
    if isinstance(info, dict) and info.get("tree_corrupted"):
        return ":basis_tree_corrupted"
    nodes = 1 + max([max(a[0], a[1]) for a in arcs] + [0])
    if not ns_cost_safe(nodes, arcs):
        return ":cost_sum_beyond_2p53"      # (proposed finding: doubles absorb small costs next to the big-M)
    return ":parallel_arcs" if has_parallel(arcs) else ""


def likely_hog(case):
    """min_cost_flow on an instance with the node-pair feature may loop while growing a list by ~200 MB/s;
    tearing such workers down stalls the pool long enough to make innocent neighbours miss their deadline"""
    if case["fn"] != "min_cost_flow":
        return False
    idx = fc.index_map(case["graph"], extra=(case["source"], case["sink"]))
    return has_feature(fc.arcs_in_order(case["graph"], idx, with_cost=True))


def run_impl(cases):
    """run the implementation; a timeout of the short limit is confirmed by running the call again
    (DESIGN §2.4): suspected memory hogs in batches of one call per worker, everything else in a calm pool"""
    outs = [None] * len(cases)
    ids = [i for i, c in enumerate(cases) if c["fn"] != "network_simplex"]
    for i, r in zip(ids, run_pool(impl, [cases[i] for i in ids], timeout=TIMEOUT)):
        outs[i] = r
    late = [i for i in ids if outs[i][0] == "timeout"]
    calm = [i for i in late if not likely_hog(cases[i])]
    hogs = [i for i in late if likely_hog(cases[i])]
    for i, r in zip(calm, run_pool(impl, [cases[i] for i in calm], timeout=TIMEOUT)):
        outs[i] = r
    for i in [i for i in calm if outs[i][0] == "timeout"]:      # still late in a calm pool: once more, alone
        outs[i] = run_pool(impl, [cases[i]], timeout=2 * TIMEOUT)[0]
    for k in range(0, len(hogs), 16):
        part = hogs[k:k + 16]
        for i, r in zip(part, run_pool(impl, [cases[i] for i in part], timeout=TIMEOUT, procs=len(part))):
            outs[i] = r
    # network_simplex stops at max_iter: a 15 s limit is not scheduler noise
    ids = [i for i, c in enumerate(cases) if c["fn"] == "network_simplex"]
    for i, r in zip(ids, run_pool(impl, [cases[i] for i in ids], timeout=TIMEOUT_NS)):
        outs[i] = r
    # classification aid for network_simplex calls that did not return
    lost = [i for i in ids if outs[i][0] != "ok"]
    flags = run_pool(impl_ns_flag, [cases[i] for i in lost], timeout=20.0)
    for i, f in zip(lost, flags):
        outs[i] = outs[i] + ({"tree_corrupted": f[0] == "ok" and bool(f[1][0])},)   # no return: any corruption counts
    return outs


def evaluate(cases, ctx=None, twins_too=True):
    """run implementation(s) and model on `cases`; per case the list of failed R_prop clauses"""
    # node numbering = iteration order of the code's `nodes` set (workers are forked from this process,
    # so str hashes and therefore set orders coincide; the worker reports its own order as a cross-check)
    twins, twin_of, meta = [], {}, []
    for ci, c in enumerate(cases):
        fn = c["fn"]
        if fn == "min_cost_flow":
            order = _set_order(fc.graph_dict(c["graph"]), fc.dec(c["source"]), fc.dec(c["sink"]))
            idx, raw = mcf_instance(c, order)
            s, t, d = idx[fc.dec(c["source"])], idx[fc.dec(c["sink"])], c["demand"]
            # every s-t instance also goes to network_simplex (common instances); where 4*(n+1)*sum|cost| >= 2**53 its
            # double pricing is inexact: failures there carry the class suffix cost_sum_beyond_2p53 (known finding)
            if s != t and d >= 0 and twins_too:
                sup = [0] * len(idx)
                sup[s] += d
                sup[t] -= d
                twin_of[ci] = len(twins)
                twins.append({"fn": "network_simplex", "n": len(idx), "arcs": raw, "supplies": sup})
            meta.append((idx, raw, order))
        elif fn == "solve_assignment":
            meta.append(({}, [], None))
        else:
            meta.append(({i: i for i in range(c["n"])}, [[a[0], a[1], int(a[2]), int(a[3])] for a in c["arcs"]], None))
    allouts = run_impl(list(cases) + twins)
    outs, touts = allouts[:len(cases)], allouts[len(cases):]
    for c, o, mt in zip(cases, outs, meta):
        if o[0] == "ok" and mt[2] is not None and o[1].get("order") != mt[2]:
            raise Infra(f"set iteration order differs between harness and worker: {mt[2]} vs {o[1].get('order')}")
    reqs = []
    for ci, (c, o) in enumerate(zip(cases, outs)):
        fn = c["fn"]
        idx, raw = meta[ci][0], meta[ci][1]
        arcs = merge_parallel(raw)
        impls, problems = [], []
        if fn == "solve_assignment":
            mat = c["matrix"]
            n = len(mat)
            m = len(mat[0]) if n else 0
            a, rep, problem = assignment_answer(c, o, n, m)
            problems.append(problem)
            reqs.append(["assign", n, m, [[int(v) for v in r] for r in mat], a, rep])
        else:
            x, problem = impl_flow(o, arcs, idx)
            impls.append(x)
            problems.append(problem)
            if fn == "min_cost_flow":
                if ci in twin_of:
                    tx, tproblem = impl_flow(touts[twin_of[ci]], arcs, {i: i for i in range(len(idx))})
                    impls.append(tx)
                    problems.append(tproblem)
                reqs.append(["mcf_st", len(idx), arcs, idx[fc.dec(c["source"])], idx[fc.dec(c["sink"])], c["demand"], impls])
            else:
                reqs.append(["mcf_ts", c["n"], arcs, [int(x) for x in c["supplies"]], impls])
        meta[ci] = meta[ci] + (arcs, problems)
    replies = Driver("Flow").run(reqs, chunks=8 if len(reqs) > 200 else 1)
    res = []
    for ci, (c, o, rp) in enumerate(zip(cases, outs, replies)):
        if rp and rp[0] == "error":
            raise Infra(f"model rejected request: {rp} for {c}")
        col = fc.Collector(ctx)
        if c["fn"] == "solve_assignment":
            judge_assign(col, c, o, meta[ci][-1][0], rp)
        else:
            judge(col, c, o, touts[twin_of[ci]] if ci in twin_of else None, meta[ci], rp)
        res.append(col.fails)
    return res


# ---------------------------------------------------------------------------
# shrinking (drop arcs / nodes / rows, lower capacities, costs, demands while the same class still fails)
# ---------------------------------------------------------------------------

def _no_negative_cycle(n, arcs):
    arcs = [tuple(a) for a in arcs]
    return fix_negative_cycles(n, arcs) == arcs


def _towards_zero(v):
    out = []
    if v != 0:
        out.append(0)
    if abs(v) > 1:
        out.append(1 if v > 0 else -1)
        out.append(v - 1 if v > 0 else v + 1)
    return out


def candidates(case):
    import copy
    fn = case["fn"]
    if fn == "network_simplex":
        arcs, sup, n = case["arcs"], case["supplies"], case["n"]
        for i in range(len(arcs) - 1, -1, -1):
            c = copy.deepcopy(case)
            del c["arcs"][i]
            yield f"drop arc {arcs[i]}", c
        used = {a[0] for a in arcs} | {a[1] for a in arcs}
        for x in range(n - 1, -1, -1):
            if x not in used and sup[x] == 0 and n > 1:
                yield f"drop node {x}", {**case, "n": n - 1, "supplies": sup[:x] + sup[x + 1:],
                                         "arcs": [[a[0] - (a[0] > x), a[1] - (a[1] > x), a[2], a[3]] for a in arcs]}
        for i in range(len(sup)):
            for j in range(len(sup)):
                if sup[i] > 0 and sup[j] < 0:
                    c = copy.deepcopy(case)
                    c["supplies"][i] -= 1
                    c["supplies"][j] += 1
                    yield f"one unit less from {i} to {j}", c
        for i, a in enumerate(arcs):
            for nv in sorted({0, 1, a[2] - 1}):
                if 0 <= nv < a[2]:
                    c = copy.deepcopy(case)
                    c["arcs"][i][2] = nv
                    yield f"capacity of {a}: -> {nv}", c
            for nv in _towards_zero(a[3]):
                c = copy.deepcopy(case)
                c["arcs"][i][3] = nv
                if _no_negative_cycle(n, c["arcs"]):
                    yield f"cost of {a}: -> {nv}", c
    elif fn == "min_cost_flow":
        g = case["graph"]
        for i in range(len(g) - 1, -1, -1):
            for j in range(len(g[i][1]) - 1, -1, -1):
                c = copy.deepcopy(case)
                a = c["graph"][i][1].pop(j)
                yield f"drop arc {g[i][0]!r}->{a[0]!r}", c
            if not g[i][1]:
                c = copy.deepcopy(case)
                del c["graph"][i]
                yield f"drop key {g[i][0]!r}", c
        if case["demand"] > 0:
            yield "demand - 1", {**case, "demand": case["demand"] - 1}
        for i in range(len(g)):
            for j, a in enumerate(g[i][1]):
                for k, vals in ((1, [nv for nv in sorted({0, 1, a[1] - 1}) if 0 <= nv < a[1]]), (2, _towards_zero(a[2]))):
                    for nv in vals:
                        c = copy.deepcopy(case)
                        c["graph"][i][1][j][k] = nv
                        if k == 2:
                            idx = fc.index_map(c["graph"], extra=(c["source"], c["sink"]))
                            if not _no_negative_cycle(len(idx), fc.arcs_in_order(c["graph"], idx, with_cost=True)):
                                continue
                        yield f"{'capacity' if k == 1 else 'cost'} {g[i][0]!r}->{a[0]!r}: {a[k]} -> {nv}", c
    else:
        mat = case["matrix"]
        n = len(mat)
        m = len(mat[0]) if n else 0
        for i in range(n - 1, -1, -1):
            yield f"drop row {i}", {**case, "matrix": mat[:i] + mat[i + 1:]}
        for j in range(m - 1, -1, -1):
            yield f"drop column {j}", {**case, "matrix": [r[:j] + r[j + 1:] for r in mat]}
        for i in range(n):
            for j in range(m):
                for nv in _towards_zero(mat[i][j]):
                    c = copy.deepcopy(case)
                    c["matrix"][i][j] = nv
                    yield f"C[{i}][{j}]: {mat[i][j]} -> {nv}", c


def shrink_one(case, failure):
    """shrink the instance a failure was seen on (for a network_simplex run on a min_cost_flow instance: the
    network_simplex instance itself); calls that do not return are not shrunk (every candidate costs the limit)"""
    import time
    fn, klass, _, rep = failure
    if klass.startswith("no_return"):
        return [], [], case
    start = rep["case"]
    if "from" in start:
        start = {"fn": "network_simplex", "n": start["n"], "arcs": start["arcs"], "supplies": start["supplies"]}
    small, history = fc.shrink(start, (fn, klass), candidates, lambda cs: evaluate(cs, None, twins_too=False),
                               time.time() + 15.0)
    return (evaluate([small], None, twins_too=False)[0] if history else []), history, rep["case"]


def run_cases(ctx, cases, do_shrink=True):
    fc.report(ctx, cases, evaluate(cases, ctx), shrink_one if do_shrink else None)


def assignment_answer(case, out, n, m):
    """(assignment list, reported objective, problem) for the verified checker `chkAssign`"""
    if out[0] != "ok" or out[1]["status"] not in ("OPTIMAL", "FEASIBLE"):
        return None, None, None
    r = out[1]
    a = r["solution"]
    rep = fc.integral(r["objective"])
    if rep is None:
        return None, None, ("cost_not_integer", f"objective {r['objective']!r}")
    if not isinstance(a, list) or any(not isinstance(j, int) or isinstance(j, bool) for j in a):
        return None, None, ("malformed_assignment", f"assignment {a!r} for a {n}x{m} matrix")
    return a, rep, None


def judge_assign(ctx, case, out, problem, reply):
    """solve_assignment: valid assignment (verified checker chkAssign), objective = its cost = the certified
    optimum of the bipartite network (assignment_optimal_of_cert: a lower bound for every valid assignment)"""
    fn = "solve_assignment"
    ctx = _Ctx(ctx)
    m_status, m_cost, m_asg, m_iters, m_cert, ichk = reply
    if m_status != "feasible" or not m_cert:
        raise Infra(f"C09 assignment model did not certify its own answer ({m_status}, {m_cert}) on {case}")
    ctx.count("cert_checked_model")
    ctx.count(f"{fn}:cases")
    if any(abs(v) >= 10 ** 6 for r in case["matrix"] for v in r):
        ctx.count(f"{fn}:input:large_cost_base")
    rep = {"case": case, "impl": out, "model": {"optimal_cost": m_cost, "assignment": m_asg}}
    ok = True
    if out[0] != "ok":
        kind = err_kind(out)
        ok = False
        if kind in ("Timeout", "MemoryError"):
            ctx.fail(fn, "no_return", f"call did not return within the time limit, twice ({kind})", rep)
        else:
            ctx.fail(fn, f"raises:{kind}", f"valid input raised: {out[1][:300]}", rep)
    else:
        r = out[1]
        ctx.count(f"{fn}:status:{r['status']}")
        if r["status"] == "INFEASIBLE":
            ok = False
            ctx.fail(fn, "false_infeasible", f"INFEASIBLE although an assignment of cost {m_cost} exists: {m_asg}", rep)
        elif r["status"] not in ("OPTIMAL", "FEASIBLE"):
            ok = False
            ctx.fail(fn, "bad_status", f"unexpected status {r['status']}", rep)
        elif problem:
            ok = False
            ctx.fail(fn, problem[0], problem[1], rep)
        else:
            valid, cost_a, cost_eq = ichk
            ctx.count("cert_checked_impl")
            if not valid:
                ok = False
                ctx.fail(fn, "invalid_assignment", f"{r['solution']} is not an assignment of min(n, m) rows to distinct "
                         "columns (verified checker chkAssign)", rep)
            elif not cost_eq:
                ok = False
                ctx.fail(fn, "cost_mismatch", f"objective {r['objective']} but the assignment costs {cost_a}", rep)
            elif cost_a != m_cost:
                ok = False
                if cost_a < m_cost:
                    raise Infra(f"C09: Lean-checked assignment cheaper than the certified optimum: {case}")
                ctx.fail(fn, "wrong_cost", f"assignment cost {cost_a}, certified optimum {m_cost} (e.g. {m_asg})", rep)
    if ok:
        ctx.count("r_prop_agree")
    ctx.case(["solve_assignment", case["matrix"]], m_iters >= 2,
             {"case": case, "impl": out[1] if out[0] == "ok" else out, "certified_cost": m_cost})


def judge(ctx, case, out, tout, meta, reply):
    fn = case["fn"]
    arcs, problems = meta[-2], meta[-1]
    idx = meta[0]
    m_status, m_x, m_cost, m_pot, m_cut, m_iters, m_cancel, m_cert, ichks, m_feature = reply
    if m_status == "negcycle" or not m_cert:
        raise Infra(f"C09 model did not certify its own answer (status={m_status}, cert={m_cert}) on {case}")
    ctx.count("cert_checked_model")
    ctx.count(f"model:{m_status}")
    ctx.count(f"{fn}:cases")
    if any(abs(a[3]) >= 10 ** 6 for a in arcs):
        ctx.count(f"{fn}:input:large_cost_base")
    nontrivial = m_iters >= 2 or m_cancel >= 1
    rep = {"case": case, "impl": out, "model": {"status": m_status, "flow_per_arc": m_x, "cost": m_cost,
                                                "potentials": m_pot, "cut": m_cut}, "arcs_indexed": arcs}
    feature = m_feature        # `hasPairFeature` evaluated in Lean (pair_costs_faithful_partial is about it)
    if feature != has_feature(arcs):
        raise Infra(f"C09: harness and Lean disagree on the node-pair feature of {case}")
    if fn == "min_cost_flow":
        suffix = ":antiparallel_or_mixed_parallel" if feature else ""
        if None in idx:
            ctx.count("min_cost_flow:input:none_label")
            if not feature:   # (fixed by proposed_fixes/C09_mcf_none_label.diff: None was both a label and "no parent")
                suffix = ":none_label"
        if feature:
            ctx.count("min_cost_flow:input:antiparallel_or_mixed_parallel")
        terminal_isolated = not any(idx[fc.dec(case["sink"])] in (a[0], a[1]) for a in arcs)
        if out[0] == "err" and err_kind(out) == "KeyError" and terminal_isolated:
            suffix = ":sink_without_arcs"
        ok = verdict(ctx, fn, suffix, case, out, reply, ichks[0], problems[0], rep)
        if ok:
            ctx.count("r_prop_agree")
        # R_trace: where the node-pair tables are the residual network the returned dict is the mirror's
        if ok and not feature and out[1]["status"] == "OPTIMAL" and m_status == "feasible":
            mine = sorted((a[0], a[1], x) for a, x in zip(arcs, m_x) if x > 0)
            theirs = sorted((idx[u], idx[v], f) for u, v, f in out[1]["flow"])
            if mine != theirs:
                ctx.tdiv(fn, {"case": case, "impl": out[1], "mirror_flow": mine, "order": out[1].get("order")})
            else:
                ctx.count("r_trace_agree")
        # common instance: network_simplex on the same network
        if tout is not None:
            trep = {"case": {"fn": "network_simplex", "n": len(idx), "arcs": meta[1], "supplies": None, "from": case},
                    "impl": tout, "model": rep["model"], "arcs_indexed": arcs}
            sup = [0] * len(idx)
            sup[idx[fc.dec(case["source"])]] += case["demand"]
            sup[idx[fc.dec(case["sink"])]] -= case["demand"]
            trep["case"]["supplies"] = sup
            tok = verdict(ctx, "network_simplex", ns_suffix(meta[1], tout), trep["case"], tout, reply, ichks[1], problems[1], trep)
            ctx.count("network_simplex:cases")
            if tok:
                ctx.count("r_prop_agree")
            if out[0] == "ok" and tout[0] == "ok":
                a, b = out[1], tout[1]
                same = (a["status"] == "INFEASIBLE") == (b["status"] == "INFEASIBLE") and \
                    (a["status"] == "INFEASIBLE" or fc.integral(a["objective"]) == fc.integral(b["objective"]))
                ctx.count("solvers_agree" if same else "solvers_disagree")
                if not same and ok and tok:
                    raise Infra(f"C09: both solvers matched the certified answer yet disagree: {case}")
    elif fn == "network_simplex":
        if out[0] == "ok" and out[1].get("tree_corruption_observed"):
            ctx.count("network_simplex:basis_tree_corruption_observed")
        ok = verdict(ctx, fn, ns_suffix(meta[1], out), case, out, reply, ichks[0], problems[0], rep)
        if ok:
            ctx.count("r_prop_agree")
    canon = [fn, case.get("graph"), case.get("source"), case.get("sink"), case.get("demand"), case.get("n"),
             case.get("arcs"), case.get("supplies"), case.get("matrix")]
    ctx.case(canon, nontrivial, {"case": case, "impl": out[1] if out[0] == "ok" else out, "model_status": m_status,
                                 "certified_cost": m_cost})


def _summarise(ctx):
    h = ctx.cov["histogram"]
    for k in ("cert_checked_model", "cert_checked_impl", "r_prop_agree", "r_trace_agree"):
        ctx.cov[k] = h.get(k, 0)
    ctx.cov["timeouts"] = sum(v for k, v in h.items() if k.startswith("fail:") and ":no_return" in k)


def gen_assign_wide(rng):
    """size-threshold family: >= 11 rows or columns, so the string node labels `L<i>` / `R<j>` of the bipartite
    network have two digits (anything that reads a label by position, or sorts labels as text, shows only here)"""
    n = rng.randint(9, 13)
    m = rng.choice([n, rng.randint(9, 14)])
    if max(n, m) < 11:
        m = rng.randint(11, 14)
    if rng.random() < 0.5:
        mat = [[rng.randint(0, 30) for _ in range(m)] for _ in range(n)]
    else:  # planted cheap matching through the high-numbered rows / columns, everything else expensive
        perm = list(range(max(n, m)))
        rng.shuffle(perm)
        mat = [[(1 if perm[i] == j else rng.randint(15, 40)) for j in range(m)] for i in range(n)]
    return {"fn": "solve_assignment", "matrix": mat}


def run(ctx, budget):
    ctx.cov["rule"] = RULE
    ctx.cov["missing_theorems"] = []     # [S] ssp_certifies is proved (SSPCert / SSPConv / SSPReduce)
    big = ctx.tier == "thorough"
    cases = list(edge_cases()) + [c["case"] for c in load_corpus("C09")]
    n = 1000 * budget if budget == 1 else 700 * budget
    for i in range(n):
        b = big and i % 3 == 0
        cases.append(gen_mcf(ctx.rng, b))
        cases.append(gen_ns(ctx.rng, b))
        if i % 3 == 0:
            cases.append(gen_assign(ctx.rng, b))
        # fixed share (about 14 % of the cases) of the large-cost-base family, all three functions
        if i % 5 == 0:
            cases.append(gen_bigcost(ctx.rng, b, "network_simplex"))
        if i % 5 == 1:
            cases.append(gen_bigcost(ctx.rng, b, "min_cost_flow"))
        if i % 10 == 2:
            cases.append(gen_bigcost(ctx.rng, b, "solve_assignment"))
        # fixed share (about 10 %) of numeric-edge cases: huge odd integers above 2**53, integral floats, long sequences
        if i % 8 == 3:
            cases.append(gen_numeric(ctx.rng, b, "min_cost_flow"))
        if i % 8 == 5:
            cases.append(gen_numeric(ctx.rng, b, "network_simplex"))
        if i % 16 == 7:
            cases.append(gen_numeric(ctx.rng, b, "solve_assignment"))
        if i % 40 == 11:
            cases.append(gen_assign_wide(ctx.rng))
            ctx.count("assign_family:two_digit_labels")
    run_cases(ctx, cases)
    _summarise(ctx)


def replay(ctx, body):
    ctx.cov["rule"] = RULE
    c = body["case"]
    if "from" in c:       # a network_simplex twin of a min_cost_flow case: replay the network_simplex instance
        c = {"fn": "network_simplex", "n": c["n"], "arcs": c["arcs"], "supplies": c["supplies"]}
    run_cases(ctx, [c], do_shrink=False)
    _summarise(ctx)


# ---------------------------------------------------------------------------
# self-test of the alarm policy (see corpus/C09/selftest/README.txt)
# ---------------------------------------------------------------------------

def selftest():
    """A network_simplex failure on a run WITHOUT observed basis-tree corruption must be a VIOLATION."""
    import json
    import os
    import subprocess
    from pathlib import Path
    verif = Path(__file__).resolve().parent.parent.parent
    repo = os.environ.get("SOLVOR_REPO", "/repo")
    wt = "/tmp/flow_selftest_wt"
    st = verif / "corpus" / "C09" / "selftest"
    ev = verif / "evidence" / "C09.json"
    saved = ev.read_text() if ev.exists() else None
    before = set((verif / "replays").glob("C09_*.json"))
    subprocess.run(["git", "-C", repo, "worktree", "remove", "--force", wt], capture_output=True)
    subprocess.check_call(["git", "-C", repo, "worktree", "add", "--detach", wt], stdout=subprocess.DEVNULL,
                          stderr=subprocess.DEVNULL)
    try:
        subprocess.check_call(["git", "-C", wt, "apply", str(st / "ns_total_cost_mutant.diff")])
        cmd = [str(verif / "check"), "C09", "--replay", str(st / "ns_plain_case.json")]
        bad = subprocess.run(cmd, env={**os.environ, "SOLVOR_REPO": wt}, capture_output=True, text=True)
        new = sorted(set((verif / "replays").glob("C09_*.json")) - before)
        classes = [json.loads(f.read_text())["class"] for f in new]
        for f in new:
            f.unlink()
        good = subprocess.run(cmd, env={**os.environ, "SOLVOR_REPO": repo}, capture_output=True, text=True)
        ok = (bad.returncode == 1 and "VIOLATION property=C09" in bad.stdout and "KNOWN-FINDING" not in bad.stdout
              and classes == ["cost_mismatch"] and good.returncode == 0)
        print(f"mutant: exit {bad.returncode}, classes {classes}; unchanged tree: exit {good.returncode}")
        print("SELFTEST " + ("PASSED" if ok else "FAILED"))
        if not ok:
            print(bad.stdout[-1500:], bad.stderr[-1500:], good.stdout[-500:], good.stderr[-1500:])
        return 0 if ok else 1
    finally:
        subprocess.run(["git", "-C", repo, "worktree", "remove", "--force", wt], capture_output=True)
        if saved is not None:
            ev.write_text(saved)


if __name__ == "__main__":
    import sys
    if "--selftest" in sys.argv:
        sys.exit(selftest())
