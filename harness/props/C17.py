"""C17 — cutting stock / set covering by columns (solvor/cg.py, solvor/bp.py) against Solvor/Cut.

Every verdict on the implementation's output comes from Lean: `checkPlan` (proved equivalent to
the spec, `plan_checker`) on the returned plan and objective, and the exact optimum `minRolls`
(proved to be the true minimum, `cs_optimum_correct`).  The dual vectors the implementation
priced are additionally pushed through the verified `dualFeasible`/`dualBound` (`dual_bound`):
that is solve_cg's own lower-bound argument, certified per instance.

Both functions are mirrored in exact rationals (Solvor/Cut/Mirror.lean, MirrorBp.lean).  For the
mirrors there are for-all-input theorems (`cg_mirror_valid`, `bp_status_rule`,
`master_lp_value_is_dual_value`) and theorems with decidable side conditions
(`cg_mirror_optimal_of_duals`, `bp_mirror_optimal_of_duals`); the driver evaluates the side
conditions on every explored input, so each such OPTIMAL answer is *proved* minimal for that
input.  R_trace: the mirror's returned (status, plan) equals the implementation's; for solve_bp it
is not applied to runs in which the mirror met a tie that the code resolves with a bare `>` on
doubles (`fracTie`/`popTie`: rounding noise decides, measured ~0.3 % of those differ).

Failures are shrunk structurally (drop piece types / rows / columns, lower demands, width, sizes)
keeping a candidate only if the same class still fails; the minimised case goes into the replay
(`shrunk`) and is proposed for the corpus in the evidence notes.
"""
from __future__ import annotations

from core import Driver, Infra, load_corpus, rat
from pool import err_kind, run_pool

AREAS = ["Cut"]
LEVEL = "proof"
ASSUMPTIONS = [
    "C17: that the simplex of the master LP reaches an optimum is not proved (DESIGN [S] `master-LP mirror certifies`: "
    "proved are the row-space invariant `LP value = duals . d` and everything that does not need LP optimality); the "
    "property is decided on the implementation's returned plan, objective and status by the verified checker and the "
    "proved exact optimum",
    "C17: the solve_cg / solve_bp mirrors compute in exact rationals with the code's eps comparisons, the code in IEEE "
    "doubles; solve_bp's R_trace is skipped on runs with a float-fragile tie (detected in the mirror)",
    "C17: dual vectors are observed by wrapping the pricing call (knapsack_pricing / the custom pricing function); "
    "they only feed the supporting dual-bound certificate, never a verdict",
]
RULE = ("cutting-stock instances (roll width 5-20, 1-4 piece sizes <= width with duplicates, demands 0-6; every "
        "fourth one in the thorough tier width <= 30, demands <= 8) and "
        "set-covering instances with an explicit column list and an exact pricing function over it (1-4 rows, "
        "<= 12 columns, entries 0-3; initial columns cover every demanded row), each solved by solve_cg and "
        "solve_bp (solve_bp with max_nodes in {10,40,100} on generated instances, default on the hand-written "
        "ones), plus a small stream with max_iter in 0..3 and one with initial columns "
        "that cannot cover the demands (excluded region); non-trivial = the run generated >= 1 column; distinct "
        "by canonical (function, instance, options)")
# per-call wall-clock limit.  solve_bp is called with max_nodes <= 100 on the generated instances
# (<= 1 s per call on the repaired code, solve_cg and the exact optimum take milliseconds), so
# hitting it means the call did >= 10x the work any legitimate run needs; a call that hits it is
# re-run alone (pool drained) with limit CONFIRM, and reported only if it times out again.
TIMEOUT = 10.0
CONFIRM = 12.0  # limit of the confirming re-run (pool drained, at most 6 calls at a time)
USABLE = ("OPTIMAL", "FEASIBLE")


# ---------------------------------------------------------------------------
# generator
# ---------------------------------------------------------------------------

def gen_cs(rng, big=False):
    W = rng.randint(5, 30 if big else 20)
    n = rng.choice([1, 2, 2, 3, 3, 3, 4, 4])
    style = rng.random()
    if style < 0.6:
        sizes = [rng.randint(1, W) for _ in range(n)]
    elif style < 0.85:  # small pieces: many patterns, fractional LP optima
        sizes = [rng.randint(1, max(1, W // 2)) for _ in range(n)]
    else:  # duplicates
        s = rng.randint(1, W)
        sizes = [s if rng.random() < 0.6 else rng.randint(1, W) for _ in range(n)]
    dem = [rng.randint(0, 8 if big else 6) for _ in range(n)]
    if rng.random() < 0.03:
        dem = [0] * n
    return {"mode": "cs", "W": W, "sizes": sizes, "demands": dem, "cols": [], "init": []}


def gen_cols(rng, feasible_init=True):
    m = rng.randint(1, 4)
    K = rng.randint(0, 8)
    dem = [rng.randint(0, 6) for _ in range(m)]
    extra = [[rng.choice([0, 0, 1, 1, 2, 3]) for _ in range(m)] for _ in range(K)]
    if feasible_init:
        init = [[rng.randint(1, 2) if i == j else 0 for i in range(m)] for j in range(m)]
        if rng.random() < 0.3:  # a mixed initial column as well
            init.append([rng.randint(0, 2) for _ in range(m)])
    else:
        drop = rng.randrange(m)
        init = [[rng.randint(1, 2) if i == j else 0 for i in range(m)] for j in range(m) if j != drop]
        if not init:
            init = [[0] * m]
        dem[drop] = max(1, dem[drop])
    cols = []
    for c in init + extra:
        if c not in cols:
            cols.append(c)
    return {"mode": "cols", "W": 0, "sizes": [], "demands": dem, "cols": cols, "init": init,
            "init_feasible": feasible_init}


def edge_cases():
    """Witnesses of the defects of the unchanged tree first (one per class, so that each is
    reported before the per-run cap on written replays), then hand-written corner cases."""
    base = {"mode": "cs", "cols": [], "init": [], "opts": {}}
    # solve_bp: 2 rolls reported OPTIMAL, 1 suffices (DESIGN §4 C17)
    yield {**base, "fn": "solve_bp", "W": 7, "sizes": [2, 1], "demands": [1, 4]}
    # solve_bp: objective 0.9999999999999999
    yield {**base, "fn": "solve_bp", "W": 14, "sizes": [3, 4], "demands": [2, 2]}
    # solve_bp: plan missing a demand presented as OPTIMAL (artificial variable left basic)
    yield {"mode": "cols", "W": 0, "sizes": [], "demands": [5, 3, 1], "init_feasible": True, "fn": "solve_bp",
           "opts": {}, "init": [[2, 0, 0], [0, 2, 0], [0, 0, 1]],
           "cols": [[2, 0, 0], [0, 2, 0], [0, 0, 1], [0, 3, 0], [2, 0, 1], [0, 2, 1], [1, 2, 0], [0, 1, 1]]}
    # solve_cg: column generation cut off by max_iter, LP value of the restricted master used as a bound
    yield {**base, "fn": "solve_cg", "W": 14, "sizes": [5, 3, 3, 8], "demands": [5, 4, 3, 2], "opts": {"max_iter": 1}}
    # solve_bp: 1000 identical master LPs per node (pricing returns a column already in the pool)
    yield {**base, "fn": "solve_bp", "W": 7, "sizes": [3, 1, 3], "demands": [3, 5, 3]}
    yield {**base, "fn": "solve_bp", "W": 9, "sizes": [3, 3, 1, 1], "demands": [1, 6, 1, 1], "opts": {"max_iter": 0}}
    del base["opts"]
    yield {**base, "W": 17, "sizes": [1, 1], "demands": [5, 1]}
    yield {**base, "W": 5, "sizes": [5], "demands": [0]}
    yield {**base, "W": 5, "sizes": [], "demands": []}
    yield {**base, "W": 5, "sizes": [5], "demands": [6]}
    yield {**base, "W": 20, "sizes": [1, 1, 1, 1], "demands": [6, 6, 6, 6]}
    yield {**base, "W": 10, "sizes": [3, 3], "demands": [2, 0]}
    yield {**base, "W": 12, "sizes": [3, 4, 3], "demands": [0, 4, 5]}
    yield {**base, "W": 7, "sizes": [2, 1], "demands": [1, 4]}
    yield {**base, "W": 14, "sizes": [3, 4], "demands": [2, 2]}


def expand(inst, rng=None):
    """One case per function (and option set) for an instance."""
    out = []
    for fn in ("solve_cg", "solve_bp"):
        opts = {}
        if rng is not None and rng.random() < 0.08:
            opts = {"max_iter": rng.choice([0, 1, 2, 3])}
        if fn == "solve_bp" and rng is not None:
            # bound the tree search: with the default 10000 nodes a legitimate search can take
            # minutes, and then a time-out would say nothing (see TIMEOUT)
            opts["max_nodes"] = rng.choice([40, 40, 40, 10, 100])
        out.append({**inst, "fn": fn, "opts": opts})
    return out


# ---------------------------------------------------------------------------
# implementation side (runs in a worker process)
# ---------------------------------------------------------------------------

def impl(case):
    import math

    import solvor.bp as bp_mod
    import solvor.cg as cg_mod

    mod = cg_mod if case["fn"] == "solve_cg" else bp_mod
    fn = getattr(mod, case["fn"])
    dem = list(case["demands"])
    priced = []  # (duals, value of the best column under them)
    kw = dict(case["opts"])
    restore = None
    if case["mode"] == "cs":
        kw.update(roll_width=case["W"], piece_sizes=list(case["sizes"]))
        orig = getattr(mod, "knapsack_pricing", None)
        if orig is not None:
            def wrapped(sizes, capacity, values, eps):
                r = orig(sizes, capacity, values, eps)
                if len(priced) < 400:
                    priced.append((list(values), r[1]))
                return r
            mod.knapsack_pricing = wrapped
            restore = orig
    else:
        cols = [tuple(c) for c in case["cols"]]

        def pricing(duals):
            best, bv, top = None, 0.0, 0.0
            for c in cols:
                v = sum(y * a for y, a in zip(duals, c))
                top = max(top, v)
                if 1.0 - v < bv - 1e-12:
                    best, bv = c, 1.0 - v
            if len(priced) < 400:
                priced.append((list(duals), top))
            return best, bv
        kw.update(pricing_fn=pricing, initial_columns=[list(c) for c in case["init"]])
    try:
        r = fn(dem, **kw)
    finally:
        if restore is not None:
            mod.knapsack_pricing = restore
    sol = None
    if r.solution is not None:
        sol = sorted([[list(int(v) for v in p), int(c)] for p, c in r.solution.items()])
        if any(int(c) != c for c in r.solution.values()):
            sol = "non-integer-count"
    obj = r.objective
    obj_r = rat(obj) if isinstance(obj, (int, float)) and math.isfinite(obj) else None
    # supporting certificate: the priced dual vector with the best (float) bound; Lean verifies it
    best_y, best_v = None, -1.0
    for y, top in priced:
        if all(math.isfinite(v) for v in y):
            yy = [max(0.0, v) for v in y]
            b = sum(a * d for a, d in zip(yy, dem)) / max(1.0, top)
            if b > best_v:
                best_y, best_v = yy, b
    return {"status": r.status.name, "sol": sol, "obj": obj_r, "obj_repr": repr(obj),
            "iters": int(r.iterations), "evals": int(r.evaluations), "n_priced": len(priced),
            "duals": [rat(v) for v in best_y] if best_y is not None else None,
            "demands_unchanged": dem == list(case["demands"])}


def to_request(case, out):
    plan = obj = duals = None
    if out[0] == "ok":
        r = out[1]
        if isinstance(r["sol"], list):
            plan = r["sol"]
        obj = r["obj"]
        duals = r["duals"]
    return ["case", case["mode"], case["W"], case["sizes"], case["demands"], case["cols"], plan, obj, duals,
            case["fn"], int(case["opts"].get("max_iter", 1000)), case["init"],
            int(case["opts"].get("max_nodes", 10000))]


# ---------------------------------------------------------------------------
# comparison
# ---------------------------------------------------------------------------

def rprop_failures(case, out, reply):
    """Pure: the clauses of R_prop that fail on (case, implementation outcome, model reply), as
    [(class, what)].  Used by `judge` (reporting) and by the shrinker (same class must still fail)."""
    fails = []
    opt, plan_ok, parts, rolls = reply[:4]
    tag = ":max_iter" if "max_iter" in case["opts"] else ""
    excluded = case["mode"] == "cols" and not case.get("init_feasible", True)
    if out[0] == "timeout":
        return [("timeout", f"no result within {TIMEOUT:.0f} s and, re-run, within {CONFIRM:.0f} s "
                            f"(max_nodes={case['opts'].get('max_nodes', 10000)}; the exact optimum takes the "
                            "model < 1 s)")]
    if out[0] != "ok":
        return [] if excluded else [("raises:" + err_kind(out), f"valid instance raised: {out[1][:200]}")]
    r = out[1]
    st = r["status"]
    if not r["demands_unchanged"]:
        fails.append(("input_modified", "the demands list was modified"))
    if st in USABLE:
        if r["sol"] is None or r["sol"] == "non-integer-count":
            fails.append(("usable_without_plan", f"status {st} with solution {r['sol']!r}"))
        elif not plan_ok:
            f_ok, c_ok, o_ok = parts
            if not f_ok:
                fails.append(("pattern_not_admissible" + tag,
                              "a pattern of the plan does not fit the roll / is not a column of the instance"))
            if not c_ok:
                fails.append(("demand_missed" + tag,
                              f"status {st} but the verified checker finds an unmet demand (plan {r['sol']})"))
            if not o_ok:
                fails.append(("objective_not_rolls" + tag,
                              f"objective {r['obj_repr']} is not the number of rolls used ({rolls})"))
        elif opt is not None and st == "OPTIMAL" and rolls != opt and rolls > opt:
            fails.append(("optimal_not_minimal" + tag,
                          f"status OPTIMAL with {rolls} rolls; the proved minimum is {opt}"))
    return fails


def judge(ctx, case, out, reply, extra=None):
    fn = case["fn"]
    rep = {"case": case, "impl": out, "model": reply}
    opt, plan_ok, parts, rolls, dual, mirror = reply
    tag = ":max_iter" if "max_iter" in case["opts"] else ""
    excluded = case["mode"] == "cols" and not case.get("init_feasible", True)
    ctx.count("mode:" + case["mode"] + (":excluded_init" if excluded else "") + tag)
    canon = [fn, case["mode"], case["W"], case["sizes"], case["demands"], case["cols"], case["init"],
             sorted(case["opts"].items())]
    for klass, what in rprop_failures(case, out, reply):
        # count every failing clause by class, also beyond the cap on written replays
        ctx.count(f"fail:{fn}:{klass}")
        more = (extra or {}).get(klass)
        ctx.fail(fn, klass, what, {**rep, **({"shrunk": more} if more else {})})
    if out[0] == "timeout":
        ctx.count("timeouts")
        ctx.case(canon, False)
        return
    if out[0] != "ok":
        ctx.count("raises:" + err_kind(out))
        if excluded:
            ctx.count("excluded_region_hits")
        if mirror is not None:
            mirror_check(ctx, case, out, mirror, opt)
        ctx.case(canon, False)
        return
    r = out[1]
    st = r["status"]
    ctx.count(f"status:{fn}:{st}")
    if st in USABLE and isinstance(r["sol"], list) and plan_ok:
        ctx.count("cert_checked_impl")
        if opt is None or rolls < opt:
            raise Infra(f"checker accepted a plan with {rolls} rolls below the proved optimum {opt}: {case}")
        if st == "OPTIMAL" and rolls == opt:
            ctx.count("optimal_confirmed")
        if st == "FEASIBLE":
            ctx.count("feasible_is_minimal" if rolls == opt else "feasible_above_minimum")
    if dual is not None:
        feas, bound = dual
        if not feas:
            raise Infra(f"scaled dual vector rejected by dualFeasible: {case} {r['duals']}")
        if opt is not None and bound > opt:
            raise Infra(f"verified dual bound {bound} exceeds the proved optimum {opt}: {case}")
        ctx.count("dual_bound_checked")
        if opt is not None and bound == opt:
            ctx.count("dual_bound_tight")
            if st in USABLE and plan_ok and rolls == bound:
                ctx.count("optimal_certified_by_impl_duals")
    if mirror is not None:
        mirror_check(ctx, case, ("ok", r), mirror, opt)
    generated = (r["iters"] if fn == "solve_cg" else r["evals"]) >= 1
    ctx.case(canon, generated and not excluded,
             {"case": case, "impl": {k: r[k] for k in ("status", "sol", "obj_repr")}, "optimum": opt,
              "dual": dual})


def mirror_check(ctx, case, out, mirror, opt):
    """The solve_cg mirror (Solvor/Cut/Mirror.lean): certificate checks on its own output, and
    R_trace = its returned (status, plan) against the implementation's."""
    m_status, m_plan, _m_iters, m_ok, m_feas, m_bound, m_raw = mirror[:7]
    bp_extra = mirror[7:]  # solve_bp: [rootConverged, lowerBound, rootIntegral, rootSide]
    if not m_feas:
        raise Infra(f"mirror duals rejected by dualFeasible after scaling: {case}")
    if opt is not None and m_bound > opt:
        raise Infra(f"verified dual bound {m_bound} of the mirror exceeds the proved optimum {opt}: {case}")
    if m_status in USABLE:
        ctx.count("cert_checked_model" if m_ok else "mirror_plan_rejected_by_checker")
        if m_ok and m_status == "OPTIMAL" and opt is not None and not bp_extra and \
                sum(c for _, c in m_plan) == m_bound == opt:
            ctx.count("mirror_optimal_certified_by_own_duals")
    if bp_extra:
        _conv, _lb, root_int, root_side, fragile = bp_extra
        # bp_mirror_optimal_of_duals: OPTIMAL + checker verdict + root duals feasible (+ the side
        # condition when the root LP was integral) => true minimum
        if m_status == "OPTIMAL" and m_ok and m_raw and (root_side or not root_int):
            ctx.count("bp_mirror_optimal_by_theorem")
            if opt is None or sum(c for _, c in m_plan) != opt:
                raise Infra(f"bp_mirror_optimal_of_duals contradicted: {case} mirror {m_plan} optimum {opt}")
        elif m_status == "OPTIMAL":
            ctx.count("bp_mirror_optimal_side_condition_open")
    elif m_raw and m_status == "OPTIMAL" and (m_ok or case["mode"] == "cs"):
        # hypotheses of cg_mirror_optimal_of_duals / cg_custom_mirror_optimal_of_duals hold on this
        # input: the mirror's plan is a true minimum by theorem
        ctx.count("mirror_optimal_by_theorem")
        if opt is None or sum(c for _, c in m_plan) != opt:
            raise Infra(f"cg_mirror_optimal_of_duals contradicted: {case} mirror {m_plan} optimum {opt}")
    elif m_status == "OPTIMAL":
        ctx.count("mirror_optimal_side_condition_open")
    if out[0] == "ok":
        got = (out[1]["status"], out[1]["sol"])
    else:
        got = (err_kind(out), None)
    want = (m_status, sorted(m_plan) if m_status != "OverflowError" and m_plan is not None else None)
    if bp_extra and bp_extra[4]:
        # the mirror met a tie that the code resolves with a bare `>` on doubles (rounding noise
        # decides): the mirror relation is not defined for this run
        ctx.count("r_trace_skipped_float_tie" + (":agree" if got == want else ":differ"))
    elif got == want:
        ctx.count("r_trace_agree")
        ctx.count("r_trace_agree:" + case["fn"])
    else:
        ctx.tdiv(case["fn"], {"case": case, "impl": got, "mirror": want})


# ---------------------------------------------------------------------------
# shrinking (structural; a candidate is kept only if the SAME class still fails)
# ---------------------------------------------------------------------------

def _fix_cols(case):
    """Normalise a set-covering case after a structural edit (dedupe, init first, flag)."""
    cols = []
    for c in case["init"] + case["cols"]:
        if c not in cols:
            cols.append(c)
    case["cols"] = cols
    m = len(case["demands"])
    case["init_feasible"] = all(d == 0 or any(c[i] > 0 for c in case["init"]) for i, d in enumerate(case["demands"])) \
        and m > 0
    return case


def candidates(case):
    """Smaller cases, most aggressive first: drop a piece type / row / column, halve or decrement a
    demand, narrow the roll, shorten a piece."""
    import copy
    d = case["demands"]
    n = len(d)
    out = []
    if case["mode"] == "cs":
        for i in range(n):
            if n > 1:
                c = copy.deepcopy(case)
                del c["sizes"][i], c["demands"][i]
                out.append(c)
        for i in range(n):
            for nd in sorted({0, d[i] // 2, d[i] - 1}):
                if 0 <= nd < d[i]:
                    c = copy.deepcopy(case)
                    c["demands"][i] = nd
                    out.append(c)
        if case["W"] - 1 >= max(case["sizes"]) and case["W"] > 1:
            c = copy.deepcopy(case)
            c["W"] -= 1
            out.append(c)
        for i in range(n):
            if case["sizes"][i] > 1:
                c = copy.deepcopy(case)
                c["sizes"][i] -= 1
                out.append(c)
    else:
        for i in range(n):
            if n > 1:
                c = copy.deepcopy(case)
                del c["demands"][i]
                c["cols"] = [[v for k, v in enumerate(col) if k != i] for col in c["cols"]]
                c["init"] = [[v for k, v in enumerate(col) if k != i] for col in c["init"]]
                ini = []
                for col in c["init"]:
                    if col not in ini:
                        ini.append(col)
                c["init"] = ini
                out.append(_fix_cols(c))
        for col in case["cols"]:
            c = copy.deepcopy(case)
            c["cols"] = [x for x in c["cols"] if x != col]
            c["init"] = [x for x in c["init"] if x != col]
            if c["init"]:
                out.append(_fix_cols(c))
        for i in range(n):
            for nd in sorted({0, d[i] // 2, d[i] - 1}):
                if 0 <= nd < d[i]:
                    c = copy.deepcopy(case)
                    c["demands"][i] = nd
                    out.append(_fix_cols(c))
    return out


def evaluate(cases, timeout):
    """Failure classes of each case on the current tree (implementation + model)."""
    outs = run_pool(impl, cases, timeout=timeout)
    replies = Driver("Cut").run([to_request(c, o) for c, o in zip(cases, outs)], chunks=8)
    res = []
    for c, o, rp in zip(cases, outs, replies):
        if rp and rp[0] == "error":
            res.append(set())
        else:
            res.append({k for k, _ in rprop_failures(c, o, rp)})
    return res


def shrink(case, klass, budget_s=40.0, max_rounds=60):
    import time
    t0 = time.time()
    cur, history = case, []
    for _ in range(max_rounds):
        if time.time() - t0 > budget_s:
            history.append("time budget exhausted")
            break
        cands = candidates(cur)
        if not cands:
            break
        # a slow candidate is simply not taken, except when the time-out itself is the class
        res = evaluate(cands, TIMEOUT if klass == "timeout" else 4.0)
        nxt = next((c for c, ks in zip(cands, res) if klass in ks), None)
        if nxt is None:
            break
        history.append({k: nxt[k] for k in ("W", "sizes", "demands", "cols", "init") if nxt[k] != cur[k]})
        cur = nxt
    return {"case": cur, "steps": len([h for h in history if isinstance(h, dict)]), "history": history[-12:]}


def run_cases(ctx, cases, do_shrink=True):
    outs = run_pool(impl, cases, timeout=TIMEOUT)
    # a time-out is confirmed by running the call again on a quiet machine (limit CONFIRM)
    # (DESIGN §2.4); only a repeated time-out is reported.  At most 6 (quick) / 18 (thorough) are
    # re-run; the others are counted but not reported.
    slow = [i for i, o in enumerate(outs) if o[0] == "timeout"]
    if slow:
        ctx.count("timeouts_first_pass", len(slow))
        keep = slow[: (6 if ctx.tier == "quick" else 18)]
        again = run_pool(impl, [cases[i] for i in keep], timeout=CONFIRM, procs=6)
        for i, o in zip(keep, again):
            outs[i] = o
        for i in slow[len(keep):]:
            outs[i] = ("skipped", "timed out in the first pass, not re-run")
            ctx.count("timeouts_not_rerun")
    reqs = [to_request(c, o) for c, o in zip(cases, outs)]
    replies = Driver("Cut").run(reqs, chunks=12)
    for c, rp in zip(cases, replies):
        if rp and rp[0] == "error":
            raise Infra(f"model rejected request: {rp} for {c}")
    # shrink the first failure of each (function, class) that would be reported (at most 3 per run)
    extras, seen = {}, set()
    import time
    t0, total_budget = time.time(), (15.0 if ctx.tier == "quick" else 150.0)
    if do_shrink:
        for i, (c, o, rp) in enumerate(zip(cases, outs, replies)):
            for klass, _ in ([] if o[0] == "skipped" else rprop_failures(c, o, rp)):
                key = (c["fn"], klass)
                left = total_budget - (time.time() - t0)
                if key in seen or len(seen) >= 3 or ctx.known_match(c["fn"], klass) is not None or left < 3:
                    continue
                if klass == "timeout" and ctx.tier == "quick":
                    continue  # every round costs a full time-out; thorough tier only
                seen.add(key)
                sh = shrink(c, klass, budget_s=min(left, 60.0 if klass == "timeout" else 15.0))
                extras.setdefault(i, {})[klass] = sh
                if sh["steps"]:
                    ctx.notes.append(f"minimised {c['fn']}/{klass} (proposed for corpus/C17): "
                                     f"{ {k: sh['case'][k] for k in ('mode', 'W', 'sizes', 'demands', 'cols', 'init', 'opts')} }")
    for i, (c, o, rp) in enumerate(zip(cases, outs, replies)):
        if o[0] != "skipped":
            judge(ctx, c, o, rp, extras.get(i))
    h = ctx.cov["histogram"]
    for k in ("cert_checked_impl", "cert_checked_model", "r_trace_agree", "mirror_optimal_by_theorem",
              "bp_mirror_optimal_by_theorem", "mirror_optimal_side_condition_open",
              "bp_mirror_optimal_side_condition_open", "r_trace_skipped_float_tie:agree",
              "r_trace_skipped_float_tie:differ", "timeouts", "excluded_region_hits",
              "dual_bound_checked", "optimal_certified_by_impl_duals"):
        ctx.cov[k] = h.get(k, 0)
    ctx.cov["missing_theorems"] = ["master-LP mirror certifies ([S]: the simplex mirror reaches an LP optimum / returns "
                                   "an eps-feasible x on every input) - primal side checked per instance by checkPlan; "
                                   "the dual side is proved (master_lp_value_is_dual_value) up to dual feasibility, "
                                   "which the driver decides per input"]


def run(ctx, budget):
    ctx.cov["rule"] = RULE
    ctx.cov["r_trace"] = ("solve_cg and solve_bp: returned (status, plan as a sorted list) equals the Rat "
                          "mirror's (Solvor/Cut/Mirror.lean, MirrorBp.lean)")
    cases = []
    for inst in list(edge_cases()) + [c["case"] for c in load_corpus("C17")]:
        if "fn" in inst:
            cases.append(inst)
        else:
            cases += expand(inst)
    rng = ctx.rng
    for i in range(330 * budget):
        cases += expand(gen_cs(rng, big=(ctx.tier == "thorough" and i % 4 == 0)), rng)
    for _ in range(200 * budget):
        cases += expand(gen_cols(rng), rng)
    for _ in range(20 * budget):
        cases += expand(gen_cols(rng, feasible_init=False))
    run_cases(ctx, cases)


def replay(ctx, body):
    ctx.cov["rule"] = RULE
    run_cases(ctx, [body["case"]], do_shrink=False)
