"""C17 — cutting stock / set covering by columns (solvor/cg.py, solvor/bp.py) against Solvor/Cut.

Every verdict on the implementation's output comes from Lean: `checkPlan` (proved equivalent to
the spec, `plan_checker`) on the returned plan and objective, and the exact optimum `minRolls`
(proved to be the true minimum, `cs_optimum_correct`).  The dual vectors the implementation
priced are additionally pushed through the verified `dualFeasible`/`dualBound` (`dual_bound`):
that is solve_cg's own lower-bound argument, certified per instance.

Both functions are mirrored in exact rationals (Solvor/Cut/Mirror.lean, MirrorBp.lean).  For the
mirrors there are for-all-input theorems (`cg_mirror_valid`, `bp_status_rule`,
`master_lp_value_is_dual_value`) and theorems with decidable side conditions
(`cg_mirror_optimal_of_duals`, `bp_mirror_optimal_of_duals`); the driver evaluates the side
conditions on every explored input, so each such OPTIMAL answer is *proved* minimal for that
input.  R_trace: the mirror's returned (status, plan) equals the implementation's; for solve_bp it
is not applied to runs in which the mirror met a tie that the code resolves with a bare `>` on
doubles (`fracTie`/`popTie`: rounding noise decides, measured ~0.3 % of those differ).

Failures are shrunk structurally (drop piece types / rows / columns, lower demands, width, sizes)
keeping a candidate only if the same class still fails; the minimised case goes into the replay
(`shrunk`) and is proposed for the corpus in the evidence notes.
"""
from __future__ import annotations

from core import Driver, Infra, load_corpus, rat
from pool import err_kind, run_pool

AREAS = ["Cut"]
LEVEL = "proof"
ASSUMPTIONS = [
    "C17: that the simplex of the master LP reaches an optimum is not proved (DESIGN [S] `master-LP mirror certifies`: "
    "proved are the row-space invariant `LP value = duals . d` and everything that does not need LP optimality); the "
    "property is decided on the implementation's returned plan, objective and status by the verified checker and the "
    "proved exact optimum",
    "C17: the solve_cg / solve_bp mirrors compute in exact rationals with the code's eps comparisons, the code in IEEE "
    "doubles; solve_bp's R_trace is skipped on runs with a float-fragile tie (detected in the mirror)",
    "C17: dual vectors are observed by wrapping the pricing call (knapsack_pricing / the custom pricing function); "
    "they only feed the supporting dual-bound certificate, never a verdict",
]
RULE = ("cutting-stock instances (roll width 5-20, 1-4 piece sizes <= width with duplicates, demands 0-6; every "
        "fourth one in the thorough tier width <= 30, demands <= 8) and "
        "set-covering instances with an explicit column list and an exact pricing function over it (1-4 rows, "
        "<= 12 columns, entries 0-3; initial columns cover every demanded row), each solved by solve_cg and "
        "solve_bp (solve_bp with max_nodes in {10,40,100} on generated instances, default on the hand-written "
        "ones), plus a small stream with max_iter in 0..3 and one with initial columns "
        "that cannot cover the demands (excluded region); 40 x budget instances with 5-7 piece types (several > W/2, "
        "near-duplicates, fillers; W 20-40, demands 1-3, total <= 12) plus those of 4000 (thorough 16000) such "
        "candidates that the solve_bp mirror pre-screens as having >= 2 consecutive stalled LP values in the root "
        "column generation (all whose stall lies across an integer, up to 40 others); 15 % of the calls get an on_progress callback "
        "(progress_interval 1/2/5, asking to stop from iteration 0/1/2/3 on or never); plus 160 x budget multi-call "
        "histories: 2-4 solves (solve_cg/solve_bp mixed) run one after the other in ONE process that share piece "
        "sizes / column set / demands while width and demands move narrow->wide, wide->narrow, same twice or mixed, "
        "every solve judged on its own instance; a failure is re-run alone in a fresh process and, if it passes "
        "there, after its predecessors (class suffix :after_previous_call); non-trivial = the run generated >= 1 column; distinct "
        "by canonical (function, instance, options)")
# per-call wall-clock limit.  solve_bp is called with max_nodes <= 100 on the generated instances
# (<= 1 s per call on the repaired code, solve_cg and the exact optimum take milliseconds), so
# hitting it means the call did >= 10x the work any legitimate run needs; a call that hits it is
# re-run alone (pool drained) with limit CONFIRM, and reported only if it times out again.
TIMEOUT = 10.0
CONFIRM = 12.0  # limit of the confirming re-run (pool drained, at most 6 calls at a time)
USABLE = ("OPTIMAL", "FEASIBLE")


# ---------------------------------------------------------------------------
# generator
# ---------------------------------------------------------------------------

def gen_cs(rng, big=False):
    W = rng.randint(5, 30 if big else 20)
    n = rng.choice([1, 2, 2, 3, 3, 3, 4, 4])
    style = rng.random()
    if style < 0.6:
        sizes = [rng.randint(1, W) for _ in range(n)]
    elif style < 0.85:  # small pieces: many patterns, fractional LP optima
        sizes = [rng.randint(1, max(1, W // 2)) for _ in range(n)]
    else:  # duplicates
        s = rng.randint(1, W)
        sizes = [s if rng.random() < 0.6 else rng.randint(1, W) for _ in range(n)]
    dem = [rng.randint(0, 8 if big else 6) for _ in range(n)]
    if rng.random() < 0.03:
        dem = [0] * n
    return {"mode": "cs", "W": W, "sizes": sizes, "demands": dem, "cols": [], "init": []}


def gen_cs_many(rng):
    """Degenerate, bin-packing-like instances: 5-7 piece types (several above W/2, duplicates and
    near-duplicates, small fillers), demands 1-3 with total <= 12 so that the exact optimum stays
    cheap, W 20-40."""
    W = rng.randint(20, 40)
    n = rng.randint(5, 7)
    sizes = [rng.randint(W // 2 + 1, W - 2) for _ in range(rng.randint(2, 4))]
    while len(sizes) < n:
        r = rng.random()
        if r < 0.3:
            sizes.append(max(1, min(W, rng.choice(sizes) + rng.choice([-1, 0, 0, 1]))))
        elif r < 0.7:
            sizes.append(rng.randint(2, max(2, W // 4)))
        else:
            sizes.append(rng.randint(W // 4, W // 2))
    rng.shuffle(sizes)
    dem = [rng.randint(1, 3) for _ in sizes]
    while sum(dem) > 12:
        i = rng.randrange(n)
        if dem[i] > 1:
            dem[i] -= 1
    return {"mode": "cs", "W": W, "sizes": sizes, "demands": dem, "cols": [], "init": []}


def screen_stalls(cands):
    """Pre-screen with the solve_bp MIRROR (root column generation only, cheap): per candidate
    (longest run of master-LP values that did not move after a new column, whether a run >= 2 sits
    above an integer that the final root LP value drops below)."""
    rep = Driver("Cut").run([["screen", c["W"], c["sizes"], c["demands"], 1000] for c in cands], chunks=14)
    for r in rep:
        if r and r[0] == "error":
            raise Infra(f"screen request rejected: {r}")
    return rep


def gen_cols(rng, feasible_init=True):
    m = rng.randint(1, 4)
    K = rng.randint(0, 8)
    dem = [rng.randint(0, 6) for _ in range(m)]
    extra = [[rng.choice([0, 0, 1, 1, 2, 3]) for _ in range(m)] for _ in range(K)]
    if feasible_init:
        init = [[rng.randint(1, 2) if i == j else 0 for i in range(m)] for j in range(m)]
        if rng.random() < 0.3:  # a mixed initial column as well
            init.append([rng.randint(0, 2) for _ in range(m)])
    else:
        drop = rng.randrange(m)
        init = [[rng.randint(1, 2) if i == j else 0 for i in range(m)] for j in range(m) if j != drop]
        if not init:
            init = [[0] * m]
        dem[drop] = max(1, dem[drop])
    cols = []
    for c in init + extra:
        if c not in cols:
            cols.append(c)
    return {"mode": "cols", "W": 0, "sizes": [], "demands": dem, "cols": cols, "init": init,
            "init_feasible": feasible_init}


def edge_cases():
    """Witnesses of the defects of the unchanged tree first (one per class, so that each is
    reported before the per-run cap on written replays), then hand-written corner cases."""
    base = {"mode": "cs", "cols": [], "init": [], "opts": {}}
    # solve_bp: 2 rolls reported OPTIMAL, 1 suffices (DESIGN §4 C17)
    yield {**base, "fn": "solve_bp", "W": 7, "sizes": [2, 1], "demands": [1, 4]}
    # solve_bp: objective 0.9999999999999999
    yield {**base, "fn": "solve_bp", "W": 14, "sizes": [3, 4], "demands": [2, 2]}
    # solve_bp: plan missing a demand presented as OPTIMAL (artificial variable left basic)
    yield {"mode": "cols", "W": 0, "sizes": [], "demands": [5, 3, 1], "init_feasible": True, "fn": "solve_bp",
           "opts": {}, "init": [[2, 0, 0], [0, 2, 0], [0, 0, 1]],
           "cols": [[2, 0, 0], [0, 2, 0], [0, 0, 1], [0, 3, 0], [2, 0, 1], [0, 2, 1], [1, 2, 0], [0, 1, 1]]}
    # solve_cg: column generation cut off by max_iter, LP value of the restricted master used as a bound
    yield {**base, "fn": "solve_cg", "W": 14, "sizes": [5, 3, 3, 8], "demands": [5, 4, 3, 2], "opts": {"max_iter": 1}}
    # solve_bp: 1000 identical master LPs per node (pricing returns a column already in the pool)
    yield {**base, "fn": "solve_bp", "W": 7, "sizes": [3, 1, 3], "demands": [3, 5, 3]}
    yield {**base, "fn": "solve_bp", "W": 9, "sizes": [3, 3, 1, 1], "demands": [1, 6, 1, 1], "opts": {"max_iter": 0}}
    # on_progress asks to stop at iteration 0: the LP value of the initial patterns is no bound
    yield {**base, "fn": "solve_cg", "W": 5, "sizes": [3, 2], "demands": [2, 2],
           "opts": {"progress": {"interval": 1, "stop_at": 0}}}
    yield {**base, "fn": "solve_bp", "W": 5, "sizes": [3, 2], "demands": [2, 2],
           "opts": {"progress": {"interval": 1, "stop_at": 0}}}
    del base["opts"]
    yield {**base, "W": 17, "sizes": [1, 1], "demands": [5, 1]}
    yield {**base, "W": 5, "sizes": [5], "demands": [0]}
    yield {**base, "W": 5, "sizes": [], "demands": []}
    yield {**base, "W": 5, "sizes": [5], "demands": [6]}
    yield {**base, "W": 20, "sizes": [1, 1, 1, 1], "demands": [6, 6, 6, 6]}
    yield {**base, "W": 10, "sizes": [3, 3], "demands": [2, 0]}
    yield {**base, "W": 12, "sizes": [3, 4, 3], "demands": [0, 4, 5]}
    yield {**base, "W": 7, "sizes": [2, 1], "demands": [1, 4]}
    yield {**base, "W": 14, "sizes": [3, 4], "demands": [2, 2]}


def gen_progress(rng):
    """`on_progress` behaviour: called every `interval` iterations, asks to stop from iteration
    `stop_at` on (None: never)."""
    return {"interval": rng.choice([1, 1, 2, 5]), "stop_at": rng.choice([0, 0, 1, 2, 3, None])}


def expand(inst, rng=None):
    """One case per function (and option set) for an instance."""
    out = []
    for fn in ("solve_cg", "solve_bp"):
        opts = {}
        if rng is not None and rng.random() < 0.08:
            opts = {"max_iter": rng.choice([0, 1, 2, 3])}
        if rng is not None and rng.random() < 0.15:
            opts["progress"] = gen_progress(rng)
        if fn == "solve_bp" and rng is not None:
            # bound the tree search: with the default 10000 nodes a legitimate search can take
            # minutes, and then a time-out would say nothing (see TIMEOUT)
            opts["max_nodes"] = rng.choice([40, 40, 40, 10, 100])
        out.append({**inst, "fn": fn, "opts": opts})
    return out


def gen_history(rng):
    """2-4 solves to be run one after the other in ONE process: they share piece sizes (or the
    column set, or the demands) while width / demands move in both directions."""
    import copy
    steps = []
    k = rng.choice([2, 2, 3, 4])
    if rng.random() < 0.7:
        n = rng.choice([1, 2, 2, 3, 3, 4])
        sizes = [rng.randint(1, 9) for _ in range(n)]
        lo = max(sizes)
        widths = sorted({rng.randint(lo, lo + 4), rng.randint(lo + 1, 20)})
        if len(widths) == 1:
            widths.append(widths[0] + 3)
        dem = [rng.randint(0, 6) for _ in range(n)]
        pattern = rng.choice(["narrow_wide", "narrow_wide", "wide_narrow", "same", "mixed"])
        for j in range(k):
            if pattern == "narrow_wide":
                W = widths[0] if j == 0 else widths[1]
            elif pattern == "wide_narrow":
                W = widths[1] if j == 0 else widths[0]
            elif pattern == "same":
                W = widths[0]
            else:
                W = rng.choice(widths)
            d = list(dem) if rng.random() < 0.6 else [rng.randint(0, 6) for _ in range(n)]
            steps.append({"mode": "cs", "W": W, "sizes": list(sizes), "demands": d, "cols": [], "init": []})
    else:
        base = gen_cols(rng)
        for j in range(k):
            c = copy.deepcopy(base)
            r = rng.random()
            if j and r < 0.5:
                c["demands"] = [rng.randint(0, 6) for _ in c["demands"]]
            elif j and r < 0.8:
                extra = [[rng.choice([0, 0, 1, 1, 2, 3]) for _ in c["demands"]] for _ in range(rng.randint(1, 3))]
                c["cols"] = c["cols"] + [e for e in extra if e not in c["cols"]]
            steps.append(_fix_cols(c))
    out = []
    for st in steps:
        fn = rng.choice(["solve_cg", "solve_bp"])
        opts = {"max_nodes": 40} if fn == "solve_bp" else {}
        if rng.random() < 0.1:
            opts["progress"] = gen_progress(rng)
        out.append({**st, "fn": fn, "opts": opts})
    return {"steps": out}


# ---------------------------------------------------------------------------
# implementation side (runs in a worker process)
# ---------------------------------------------------------------------------

def impl(case):
    import math

    import solvor.bp as bp_mod
    import solvor.cg as cg_mod

    mod = cg_mod if case["fn"] == "solve_cg" else bp_mod
    fn = getattr(mod, case["fn"])
    dem = list(case["demands"])
    priced = []  # (duals, value of the best column under them)
    kw = {k: v for k, v in case["opts"].items() if k != "progress"}
    prog = case["opts"].get("progress")
    if prog:
        stop_at = prog["stop_at"]
        kw["progress_interval"] = prog["interval"]
        kw["on_progress"] = (lambda p: stop_at is not None and p.iteration >= stop_at)
    restore = None
    if case["mode"] == "cs":
        kw.update(roll_width=case["W"], piece_sizes=list(case["sizes"]))
        orig = getattr(mod, "knapsack_pricing", None)
        if orig is not None:
            def wrapped(sizes, capacity, values, eps):
                r = orig(sizes, capacity, values, eps)
                if len(priced) < 400:
                    priced.append((list(values), r[1]))
                return r
            mod.knapsack_pricing = wrapped
            restore = orig
    else:
        cols = [tuple(c) for c in case["cols"]]

        def pricing(duals):
            best, bv, top = None, 0.0, 0.0
            for c in cols:
                v = sum(y * a for y, a in zip(duals, c))
                top = max(top, v)
                if 1.0 - v < bv - 1e-12:
                    best, bv = c, 1.0 - v
            if len(priced) < 400:
                priced.append((list(duals), top))
            return best, bv
        kw.update(pricing_fn=pricing, initial_columns=[list(c) for c in case["init"]])
    try:
        r = fn(dem, **kw)
    finally:
        if restore is not None:
            mod.knapsack_pricing = restore
    sol = None
    if r.solution is not None:
        sol = sorted([[list(int(v) for v in p), int(c)] for p, c in r.solution.items()])
        if any(int(c) != c for c in r.solution.values()):
            sol = "non-integer-count"
    obj = r.objective
    obj_r = rat(obj) if isinstance(obj, (int, float)) and math.isfinite(obj) else None
    # supporting certificate: the priced dual vector with the best (float) bound; Lean verifies it
    best_y, best_v = None, -1.0
    for y, top in priced:
        if all(math.isfinite(v) for v in y):
            yy = [max(0.0, v) for v in y]
            b = sum(a * d for a, d in zip(yy, dem)) / max(1.0, top)
            if b > best_v:
                best_y, best_v = yy, b
    return {"status": r.status.name, "sol": sol, "obj": obj_r, "obj_repr": repr(obj),
            "iters": int(r.iterations), "evals": int(r.evaluations), "n_priced": len(priced),
            "duals": [rat(v) for v in best_y] if best_y is not None else None,
            "demands_unchanged": dem == list(case["demands"])}


_PREV = []  # per worker process: the last cases this process solved (history of module state)


def impl_unit(unit):
    """unit = {"steps": [case, ...]}: the steps are solved one after the other in this process.
    Returns one outcome per step and the cases this process had solved before."""
    prev = list(_PREV[-3:])
    res = []
    for c in unit["steps"]:
        try:
            res.append(("ok", impl(c)))
        except BaseException as e:  # noqa: BLE001 - the error kind is an observable
            res.append(("err", f"{type(e).__name__}: {e}"[:500]))
        _PREV.append(c)
    del _PREV[:-3]
    return {"res": res, "prev": prev}


def to_request(case, out):
    plan = obj = duals = None
    if out[0] == "ok":
        r = out[1]
        if isinstance(r["sol"], list):
            plan = r["sol"]
        obj = r["obj"]
        duals = r["duals"]
    return ["case", case["mode"], case["W"], case["sizes"], case["demands"], case["cols"], plan, obj, duals,
            case["fn"], int(case["opts"].get("max_iter", 1000)), case["init"],
            int(case["opts"].get("max_nodes", 10000)),
            int((case["opts"].get("progress") or {}).get("interval", 0)),
            (case["opts"].get("progress") or {}).get("stop_at")]


# ---------------------------------------------------------------------------
# comparison
# ---------------------------------------------------------------------------

def rprop_failures(case, out, reply):
    """Pure: the clauses of R_prop that fail on (case, implementation outcome, model reply), as
    [(class, what)].  Used by `judge` (reporting) and by the shrinker (same class must still fail)."""
    fails = []
    opt, plan_ok, parts, rolls = reply[:4]
    tag = (":max_iter" if "max_iter" in case["opts"] else "") + (":on_progress" if "progress" in case["opts"] else "")
    excluded = case["mode"] == "cols" and not case.get("init_feasible", True)
    if out[0] == "timeout":
        return [("timeout", f"no result within {TIMEOUT:.0f} s and, re-run, within {CONFIRM:.0f} s "
                            f"(max_nodes={case['opts'].get('max_nodes', 10000)}; the exact optimum takes the "
                            "model < 1 s)")]
    if out[0] != "ok":
        return [] if excluded else [("raises:" + err_kind(out), f"valid instance raised: {out[1][:200]}")]
    r = out[1]
    st = r["status"]
    if not r["demands_unchanged"]:
        fails.append(("input_modified", "the demands list was modified"))
    if st in USABLE:
        if r["sol"] is None or r["sol"] == "non-integer-count":
            fails.append(("usable_without_plan", f"status {st} with solution {r['sol']!r}"))
        elif not plan_ok:
            f_ok, c_ok, o_ok = parts
            if not f_ok:
                fails.append(("pattern_not_admissible" + tag,
                              "a pattern of the plan does not fit the roll / is not a column of the instance"))
            if not c_ok:
                fails.append(("demand_missed" + tag,
                              f"status {st} but the verified checker finds an unmet demand (plan {r['sol']})"))
            if not o_ok:
                fails.append(("objective_not_rolls" + tag,
                              f"objective {r['obj_repr']} is not the number of rolls used ({rolls})"))
        elif opt is not None and st == "OPTIMAL" and rolls != opt and rolls > opt:
            fails.append(("optimal_not_minimal" + tag,
                          f"status OPTIMAL with {rolls} rolls; the proved minimum is {opt}"))
    return fails


def judge(ctx, case, out, reply, extra=None):
    fn = case["fn"]
    rep = {"case": case, "impl": out, "model": reply}
    opt, plan_ok, parts, rolls, dual, mirror = reply
    tag = (":max_iter" if "max_iter" in case["opts"] else "") + (":on_progress" if "progress" in case["opts"] else "")
    excluded = case["mode"] == "cols" and not case.get("init_feasible", True)
    ctx.count("mode:" + case["mode"] + (":excluded_init" if excluded else "") + tag)
    canon = [fn, case["mode"], case["W"], case["sizes"], case["demands"], case["cols"], case["init"],
             sorted((k, str(v)) for k, v in case["opts"].items())]
    if "progress" in case["opts"]:
        ctx.count("on_progress:" + ("never" if case["opts"]["progress"]["stop_at"] is None else "stop"))
    for klass, what in rprop_failures(case, out, reply):
        # count every failing clause by class, also beyond the cap on written replays
        more = (extra or {}).get(klass) or {}
        full = klass + more.get("suffix", "")
        ctx.count(f"fail:{fn}:{full}")
        r2 = dict(rep)
        if "replay_case" in more:  # a history: the replay must run the whole sequence
            r2["case"] = more["replay_case"]
            r2["failing_step"] = case
        if "shrunk" in more:
            r2["shrunk"] = more["shrunk"]
        ctx.fail(fn, full, what + more.get("note", ""), r2)
    if out[0] == "timeout":
        ctx.count("timeouts")
        ctx.case(canon, False)
        return
    if out[0] != "ok":
        ctx.count("raises:" + err_kind(out))
        if excluded:
            ctx.count("excluded_region_hits")
        if mirror is not None:
            mirror_check(ctx, case, out, mirror, opt)
        ctx.case(canon, False)
        return
    r = out[1]
    st = r["status"]
    ctx.count(f"status:{fn}:{st}")
    if st in USABLE and isinstance(r["sol"], list) and plan_ok:
        ctx.count("cert_checked_impl")
        if opt is None or rolls < opt:
            raise Infra(f"checker accepted a plan with {rolls} rolls below the proved optimum {opt}: {case}")
        if st == "OPTIMAL" and rolls == opt:
            ctx.count("optimal_confirmed")
        if st == "FEASIBLE":
            ctx.count("feasible_is_minimal" if rolls == opt else "feasible_above_minimum")
    if dual is not None:
        feas, bound = dual
        if not feas:
            raise Infra(f"scaled dual vector rejected by dualFeasible: {case} {r['duals']}")
        if opt is not None and bound > opt:
            raise Infra(f"verified dual bound {bound} exceeds the proved optimum {opt}: {case}")
        ctx.count("dual_bound_checked")
        if opt is not None and bound == opt:
            ctx.count("dual_bound_tight")
            if st in USABLE and plan_ok and rolls == bound:
                ctx.count("optimal_certified_by_impl_duals")
    if mirror is not None:
        mirror_check(ctx, case, ("ok", r), mirror, opt)
    generated = (r["iters"] if fn == "solve_cg" else r["evals"]) >= 1
    ctx.case(canon, generated and not excluded,
             {"case": case, "impl": {k: r[k] for k in ("status", "sol", "obj_repr")}, "optimum": opt,
              "dual": dual})


def mirror_check(ctx, case, out, mirror, opt):
    """The solve_cg mirror (Solvor/Cut/Mirror.lean): certificate checks on its own output, and
    R_trace = its returned (status, plan) against the implementation's."""
    m_status, m_plan, _m_iters, m_ok, m_feas, m_bound, m_raw = mirror[:7]
    bp_extra = mirror[7:]  # solve_bp: [rootConverged, lowerBound, rootIntegral, rootSide]
    if not m_feas:
        raise Infra(f"mirror duals rejected by dualFeasible after scaling: {case}")
    if opt is not None and m_bound > opt:
        raise Infra(f"verified dual bound {m_bound} of the mirror exceeds the proved optimum {opt}: {case}")
    if m_status in USABLE:
        ctx.count("cert_checked_model" if m_ok else "mirror_plan_rejected_by_checker")
        if m_ok and m_status == "OPTIMAL" and opt is not None and not bp_extra and \
                sum(c for _, c in m_plan) == m_bound == opt:
            ctx.count("mirror_optimal_certified_by_own_duals")
    if bp_extra:
        _conv, _lb, root_int, root_side, fragile, root_stalls, node_stalls, across = bp_extra
        # coverage of "tailing off": LP value unchanged after a new column, consecutively
        if root_stalls >= 1:
            ctx.count("bp_root_stalls>=1")
        if root_stalls >= 2:
            ctx.count("bp_root_stalls>=2")
        if node_stalls >= 2:
            ctx.count("bp_node_stalls>=2")
        if across:
            ctx.count("bp_root_stall_then_drop_across_integer")
        # bp_mirror_optimal_of_duals: OPTIMAL + checker verdict + root duals feasible (+ the side
        # condition when the root LP was integral) => true minimum
        if m_status == "OPTIMAL" and m_ok and m_raw and (root_side or not root_int):
            ctx.count("bp_mirror_optimal_by_theorem")
            if opt is None or sum(c for _, c in m_plan) != opt:
                raise Infra(f"bp_mirror_optimal_of_duals contradicted: {case} mirror {m_plan} optimum {opt}")
        elif m_status == "OPTIMAL":
            ctx.count("bp_mirror_optimal_side_condition_open")
    elif m_raw and m_status == "OPTIMAL" and (m_ok or case["mode"] == "cs"):
        # hypotheses of cg_mirror_optimal_of_duals / cg_custom_mirror_optimal_of_duals hold on this
        # input: the mirror's plan is a true minimum by theorem
        ctx.count("mirror_optimal_by_theorem")
        if opt is None or sum(c for _, c in m_plan) != opt:
            raise Infra(f"cg_mirror_optimal_of_duals contradicted: {case} mirror {m_plan} optimum {opt}")
    elif m_status == "OPTIMAL":
        ctx.count("mirror_optimal_side_condition_open")
    if out[0] == "ok":
        got = (out[1]["status"], out[1]["sol"])
    else:
        got = (err_kind(out), None)
    want = (m_status, sorted(m_plan) if m_status != "OverflowError" and m_plan is not None else None)
    if bp_extra and bp_extra[4]:
        # the mirror met a tie that the code resolves with a bare `>` on doubles (rounding noise
        # decides): the mirror relation is not defined for this run
        ctx.count("r_trace_skipped_float_tie" + (":agree" if got == want else ":differ"))
    elif got == want:
        ctx.count("r_trace_agree")
        ctx.count("r_trace_agree:" + case["fn"])
    else:
        ctx.tdiv(case["fn"], {"case": case, "impl": got, "mirror": want})


# ---------------------------------------------------------------------------
# shrinking (structural; a candidate is kept only if the SAME class still fails)
# ---------------------------------------------------------------------------

def _fix_cols(case):
    """Normalise a set-covering case after a structural edit (dedupe, init first, flag)."""
    cols = []
    for c in case["init"] + case["cols"]:
        if c not in cols:
            cols.append(c)
    case["cols"] = cols
    m = len(case["demands"])
    case["init_feasible"] = all(d == 0 or any(c[i] > 0 for c in case["init"]) for i, d in enumerate(case["demands"])) \
        and m > 0
    return case


def candidates(case):
    """Smaller cases, most aggressive first: drop a piece type / row / column, halve or decrement a
    demand, narrow the roll, shorten a piece."""
    import copy
    d = case["demands"]
    n = len(d)
    out = []
    if case["mode"] == "cs":
        for i in range(n):
            if n > 1:
                c = copy.deepcopy(case)
                del c["sizes"][i], c["demands"][i]
                out.append(c)
        for i in range(n):
            for nd in sorted({0, d[i] // 2, d[i] - 1}):
                if 0 <= nd < d[i]:
                    c = copy.deepcopy(case)
                    c["demands"][i] = nd
                    out.append(c)
        if case["W"] - 1 >= max(case["sizes"]) and case["W"] > 1:
            c = copy.deepcopy(case)
            c["W"] -= 1
            out.append(c)
        for i in range(n):
            if case["sizes"][i] > 1:
                c = copy.deepcopy(case)
                c["sizes"][i] -= 1
                out.append(c)
    else:
        for i in range(n):
            if n > 1:
                c = copy.deepcopy(case)
                del c["demands"][i]
                c["cols"] = [[v for k, v in enumerate(col) if k != i] for col in c["cols"]]
                c["init"] = [[v for k, v in enumerate(col) if k != i] for col in c["init"]]
                ini = []
                for col in c["init"]:
                    if col not in ini:
                        ini.append(col)
                c["init"] = ini
                out.append(_fix_cols(c))
        for col in case["cols"]:
            c = copy.deepcopy(case)
            c["cols"] = [x for x in c["cols"] if x != col]
            c["init"] = [x for x in c["init"] if x != col]
            if c["init"]:
                out.append(_fix_cols(c))
        for i in range(n):
            for nd in sorted({0, d[i] // 2, d[i] - 1}):
                if 0 <= nd < d[i]:
                    c = copy.deepcopy(case)
                    c["demands"][i] = nd
                    out.append(_fix_cols(c))
    return out


def evaluate(cases, timeout):
    """Failure classes of each case on the current tree (implementation + model)."""
    outs = [o[1]["res"][0] if o[0] == "ok" else o
            for o in run_pool(impl_unit, [{"steps": [c]} for c in cases], timeout=timeout)]
    replies = Driver("Cut").run([to_request(c, o) for c, o in zip(cases, outs)], chunks=8)
    res = []
    for c, o, rp in zip(cases, outs, replies):
        if rp and rp[0] == "error":
            res.append(set())
        else:
            res.append({k for k, _ in rprop_failures(c, o, rp)})
    return res


def shrink(case, klass, budget_s=40.0, max_rounds=60):
    import time
    t0 = time.time()
    cur, history = case, []
    for _ in range(max_rounds):
        if time.time() - t0 > budget_s:
            history.append("time budget exhausted")
            break
        cands = candidates(cur)
        if not cands:
            break
        # a slow candidate is simply not taken, except when the time-out itself is the class
        res = evaluate(cands, TIMEOUT if klass == "timeout" else 4.0)
        nxt = next((c for c, ks in zip(cands, res) if klass in ks), None)
        if nxt is None:
            break
        history.append({k: nxt[k] for k in ("W", "sizes", "demands", "cols", "init") if nxt[k] != cur[k]})
        cur = nxt
    return {"case": cur, "steps": len([h for h in history if isinstance(h, dict)]), "history": history[-12:]}


def fresh(steps, timeout=None):
    """Solve `steps` one after the other in a NEW process (nothing solved before); outcome and
    failure classes of the last step."""
    o = run_pool(impl_unit, [{"steps": steps}], timeout=timeout or CONFIRM * len(steps), procs=1)[0]
    out = o[1]["res"][-1] if o[0] == "ok" else o
    rp = Driver("Cut").run([to_request(steps[-1], out)])[0]
    if rp and rp[0] == "error":
        raise Infra(f"model rejected request: {rp}")
    return out, {k for k, _ in rprop_failures(steps[-1], out, rp)}


def confirm(case, klass, context):
    """Where does a failure come from?  Re-run the instance alone in a fresh process; if it passes
    there, re-run it after `context` (the solves that preceded it in the same process)."""
    _, alone = fresh([case])
    if klass in alone:
        return {}
    if context:
        for ctxt in ([context[-1:]] if len(context) > 1 else []) + [context]:
            _, after = fresh(list(ctxt) + [case])
            if klass in after:
                return {"suffix": ":after_previous_call", "replay_case": {"history": list(ctxt) + [case]},
                        "note": f" - the same instance passes when solved alone in a fresh process; it fails after "
                                f"{len(ctxt)} earlier solve(s) in the same process"}
    return {"suffix": ":unreproduced", "replay_case": {"history": list(context) + [case]},
            "note": " - failed once in a worker process, passes alone and after the recorded earlier solves"}


def run_cases(ctx, units, do_shrink=True):
    """units: {"steps": [case, ...]} (a single case is a one-step unit)."""
    import time
    outs = run_pool(impl_unit, units, timeout=TIMEOUT)
    # a time-out is confirmed by running the unit again on a quiet machine (limit CONFIRM per step,
    # DESIGN §2.4); only a repeated time-out is reported.  At most 6 (quick) / 18 (thorough) are
    # re-run; the others are counted but not reported.
    slow = [i for i, o in enumerate(outs) if o[0] == "timeout"]
    if slow:
        ctx.count("timeouts_first_pass", len(slow))
        keep = slow[: (6 if ctx.tier == "quick" else 18)]
        again = run_pool(impl_unit, [units[i] for i in keep],
                         timeout=CONFIRM * max(len(units[i]["steps"]) for i in keep), procs=6)
        for i, o in zip(keep, again):
            outs[i] = o
        for i in slow[len(keep):]:
            outs[i] = ("skipped", "timed out in the first pass, not re-run")
            ctx.count("timeouts_not_rerun")
    # flatten: one item per solve
    items = []  # (case, outcome, context = solves that preceded it in the same process)
    for u, o in zip(units, outs):
        steps = u["steps"]
        if len(steps) > 1:
            ctx.count("history_units")
        if o[0] == "skipped":
            continue
        if o[0] != "ok":  # the unit as a whole raised in the pool / timed out: charge the last step
            items.append((steps[-1], o, steps[:-1]))
            continue
        for j, (c, so) in enumerate(zip(steps, o[1]["res"])):
            if len(steps) > 1:
                ctx.count("history_steps")
            items.append((c, so, (steps[:j] if len(steps) > 1 else o[1]["prev"])))
    replies = Driver("Cut").run([to_request(c, o) for c, o, _ in items], chunks=12)
    for (c, _, _), rp in zip(items, replies):
        if rp and rp[0] == "error":
            raise Infra(f"model rejected request: {rp} for {c}")
    # confirm (alone in a fresh process / after its predecessors) and shrink the first failures of
    # each (function, class); further failures of the same kind inherit the verdict
    extras, verdict, nshrunk = {}, {}, 0
    t0, total_budget = time.time(), (25.0 if ctx.tier == "quick" else 200.0)
    for i, ((c, o, context), rp) in enumerate(zip(items, replies)):
        for klass, _ in rprop_failures(c, o, rp):
            key = (c["fn"], klass)
            left = total_budget - (time.time() - t0)
            if key in verdict or len(verdict) >= 8 or left < 3 or klass == "timeout":
                if key in verdict:
                    inh = {k: v for k, v in verdict[key].items() if k == "suffix"}
                    if inh.get("suffix"):  # inherited verdict: the replay still needs the sequence
                        inh["replay_case"] = {"history": list(context) + [c]}
                        inh["note"] = " - verdict inherited from the first failure of this class (not re-confirmed)"
                    extras.setdefault(i, {})[klass] = inh
                continue
            more = confirm(c, klass, context)
            verdict[key] = more
            if more.get("suffix"):
                ctx.count("confirmed" + more["suffix"])
            elif do_shrink and nshrunk < 3 and ctx.known_match(c["fn"], klass) is None:
                nshrunk += 1
                sh = shrink(c, klass, budget_s=min(left, 15.0))
                if sh["steps"] and klass in fresh([sh["case"]])[1]:
                    more = {**more, "shrunk": sh}
                    ctx.notes.append(f"minimised {c['fn']}/{klass} (proposed for corpus/C17): "
                                     f"{ {k: sh['case'][k] for k in ('mode', 'W', 'sizes', 'demands', 'cols', 'init', 'opts')} }")
            extras.setdefault(i, {})[klass] = more
    for i, ((c, o, _), rp) in enumerate(zip(items, replies)):
        judge(ctx, c, o, rp, extras.get(i))
    h = ctx.cov["histogram"]
    for k in ("cert_checked_impl", "cert_checked_model", "r_trace_agree", "mirror_optimal_by_theorem",
              "bp_mirror_optimal_by_theorem", "mirror_optimal_side_condition_open",
              "bp_mirror_optimal_side_condition_open", "r_trace_skipped_float_tie:agree",
              "r_trace_skipped_float_tie:differ", "timeouts", "excluded_region_hits",
              "dual_bound_checked", "optimal_certified_by_impl_duals", "history_units", "history_steps",
              "on_progress:stop", "on_progress:never", "bp_root_stalls>=1", "bp_root_stalls>=2",
              "bp_node_stalls>=2", "bp_root_stall_then_drop_across_integer"):
        ctx.cov[k] = h.get(k, 0)
    ctx.cov["missing_theorems"] = ["master-LP mirror certifies ([S]: the simplex mirror reaches an LP optimum / returns "
                                   "an eps-feasible x on every input) - primal side checked per instance by checkPlan; "
                                   "the dual side is proved (master_lp_value_is_dual_value) up to dual feasibility, "
                                   "which the driver decides per input"]


def run(ctx, budget):
    ctx.cov["rule"] = RULE
    ctx.cov["r_trace"] = ("solve_cg and solve_bp: returned (status, plan as a sorted list) equals the Rat "
                          "mirror's (Solvor/Cut/Mirror.lean, MirrorBp.lean; the on_progress stop is mirrored)")
    cases = []
    units = []
    for inst in list(edge_cases()) + [c["case"] for c in load_corpus("C17")]:
        if "history" in inst:
            units.append({"steps": inst["history"]})
        elif "fn" in inst:
            cases.append(inst)
        else:
            cases += expand(inst)
    # the round-2 witness: same sizes, a narrower roll first, a wider one right after
    w = {"mode": "cs", "cols": [], "init": [], "sizes": [3, 2], "demands": [2, 1], "opts": {}}
    units.append({"steps": [{**w, "W": 5, "fn": "solve_cg"}, {**w, "W": 8, "fn": "solve_cg"}]})
    units.append({"steps": [{**w, "W": 5, "fn": "solve_bp"}, {**w, "W": 8, "fn": "solve_bp"}]})
    rng = ctx.rng
    for i in range(330 * budget):
        cases += expand(gen_cs(rng, big=(ctx.tier == "thorough" and i % 4 == 0)), rng)
    for _ in range(200 * budget):
        cases += expand(gen_cols(rng), rng)
    for _ in range(20 * budget):
        cases += expand(gen_cols(rng, feasible_init=False))
    # many piece types (fixed share) + candidates pre-screened by the mirror for stalled column
    # generation ("tailing off"): all whose stall sits across an integer, up to 40 with >= 2 stalls
    for _ in range(40 * budget):
        cases += expand(gen_cs_many(rng), rng)
    cands = [gen_cs_many(rng) for _ in range(4000 * (1 if budget == 1 else 4))]
    scr = screen_stalls(cands)
    strong = [c for c, r in zip(cands, scr) if r[1]]
    weak = [c for c, r in zip(cands, scr) if r[0] >= 2 and not r[1]][:40 * (1 if budget == 1 else 4)]
    ctx.cov["stall_screen"] = {"candidates": len(cands), "stalls>=2": sum(1 for r in scr if r[0] >= 2),
                               "across_integer": len(strong)}
    for c in strong + weak:
        cases += [{**c, "fn": "solve_bp", "opts": {"max_nodes": 40}}, {**c, "fn": "solve_cg", "opts": {}}]
    units += [{"steps": [c]} for c in cases]
    units += [gen_history(rng) for _ in range(160 * budget)]
    run_cases(ctx, units)


def replay(ctx, body):
    ctx.cov["rule"] = RULE
    case = body["case"]
    run_cases(ctx, [{"steps": case["history"]} if "history" in case else {"steps": [case]}], do_shrink=False)
