"""C03 — LP verdicts and optima (solvor/simplex.py, interior_point.py) against the certifying
rational simplex model and the verified certificate checkers of Solvor/Lp."""
from __future__ import annotations

import time
import warnings

import core
from core import Driver, rat
from pool import err_kind, run_pool
from props.lp_common import (CANDIDATE_SECONDS, LIMITS, RecCtx, enc_mat, enc_num, enc_point, enc_vec, gen_lp,
                              lp_artdeg, lp_candidates, lp_strip, note_dropped, safe_run, shrink, write_min)

AREAS = ["Lp"]
LEVEL = "proof"
ASSUMPTIONS = [
    "IEEE rounding inside solve_lp is not modelled: the mirror runs over exact rationals with the same eps; "
    "the gap is the tolerance comparison (tol 1e-7) and R_trace (vertex within 1e-9)",
    "solve_lp_interior: only the verdict logic is checked (OPTIMAL/FEASIBLE claims, no crash); the Newton/"
    "Cholesky step is not modelled; the FEASIBLE residual is judged up to the forward error bound of the code's "
    "own double-precision residual evaluation ((n+m+2) 2^-50 (sum|A_ij x_j| + |b_i| + 1) per row)",
    "simplex_certifies ('the mirror emits a valid certificate on EVERY input') is proved at eps = 0; the code's "
    "eps = 1e-10 run is tied to it per input: the verified checkers are evaluated on the certificates of both "
    "the eps-run and the exact run of every explored input",
]
RULE = ("structured LPs (random, bounded, degenerate vertex, phase-1/equality pairs, infeasible, unbounded; "
        "degenerate phase-1 vertices pre-screened with the mirror so that >= 2 artificials are still basic after phase 1 "
        "and are pivoted out by the clean-up loop (counters art_basic_after_phase1 / art_driven_out in the histogram); "
        "strips between planted opposite parallel rows with 2-3 variables (unbounded along / bounded / infeasible / "
        "equality pair, scaled); duplicated/parallel/zero rows, zero columns; integer and dyadic data; both senses; m,n <= 6 quick / "
        "<= 10 thorough; a share with tiny max_iter); non-trivial = phase 1 ran or >= 2 pivots in the mirror; "
        "distinct by canonical (c, A, b, minimize, options)")

MISSING = []   # simplex_certifies is proved for every input at eps = 0 (Tableau.lean, Phase1.lean)

TOL = 1e-7          # property tolerance for solve_lp
VTOL = 1e-9         # R_trace vertex tolerance
IPM_TOL_FEAS = 1e-6  # solve_lp_interior OPTIMAL: feasibility (its residual test is 1e-8 in the 2-norm)
IPM_TOL_OBJ = 1e-4   # solve_lp_interior OPTIMAL: |obj - opt| <= 1e-4 (1+|opt|)
IPM_RESID = 0.01 * (1 + 1e-9)  # documented FEASIBLE residual (tiny slack for the sqrt/sum rounding)
# The code evaluates its residual (A x + s - b)_i in doubles; when the iterates have diverged (|x| ~ 1e14 on
# unbounded LPs) one ulp of the terms exceeds 0.01.  The checker therefore subtracts the standard dot-product
# error bound (n+m+2) 2^-50 (sum_j |A_ij x_j| + |b_i| + 1) from each row's residual before taking the norm.
DEFAULT_MAX_ITER = 100_000


# ---------------------------------------------------------------------------
# generator
# ---------------------------------------------------------------------------

def gen_case(rng, big: bool):
    mm = 10 if big else 6
    r0 = rng.random()
    if r0 < 0.05:    # one positive row: where solve_lp_interior actually converges to OPTIMAL
        n = rng.randint(1, 2)
        fam, c, A, b = "onerow", [rng.randint(-4, 4) for _ in range(n)], [[rng.randint(1, 4) for _ in range(n)]], \
            [rng.randint(1, 8)]
    elif r0 < 0.15:  # tiny LPs
        fam, c, A, b = gen_lp(rng, 2, 2)
        fam = "tiny:" + fam
    else:
        fam, c, A, b = gen_lp(rng, mm, mm)
    opts = {}
    r = rng.random()
    if r < 0.08:
        opts["max_iter"] = rng.choice([0, 1, 2, 3, 5])
    ipm = {}
    r = rng.random()
    if r < 0.15:
        ipm["max_iter"] = rng.choice([5, 30, 200])
    if rng.random() < 0.3:  # hand the data over as floats
        c, A, b = [float(v) for v in c], [[float(v) for v in r_] for r_ in A], [float(v) for v in b]
    return {"family": fam, "c": c, "A": A, "b": b, "minimize": rng.random() < 0.5, "opts": opts, "ipm": ipm}


def gen_strip_case(rng):
    """cheap 2-3 variable strips (planted opposite parallel rows): where interior-point iterates diverge along the
    strip; the objective is maximised along the strip half of the time in each sense"""
    c, A, b = lp_strip(rng)
    minimize = rng.random() < 0.5
    if rng.random() < 0.5:          # make "along the strip" the improving direction for this sense
        c = [-v for v in c] if minimize else c
    if rng.random() < 0.3:
        c, A, b = [float(v) for v in c], [[float(v) for v in r_] for r_ in A], [float(v) for v in b]
    return {"family": "strip", "c": c, "A": A, "b": b, "minimize": minimize, "opts": {}, "ipm": {}}


def gen_artdeg_cases(ctx, want, tries):
    """targeted family: LPs on which >= 2 artificial variables are still basic (at level zero) when phase 1 ends, so
    that the clean-up loop of `_phase1` pivots several of them out.  Candidates come from `lp_artdeg`; they are
    pre-screened with the mirror's coverage counter (the model is cheap) and those with counter >= 2 are kept."""
    cands = []
    for _ in range(tries):
        c, A, b = lp_artdeg(ctx.rng)
        cands.append({"family": "artdeg", "c": c, "A": A, "b": b, "minimize": ctx.rng.random() < 0.5,
                      "opts": {}, "ipm": {"max_iter": 5}})
    reqs = [["artscreen", rat(1e-10), DEFAULT_MAX_ITER,
             [[enc_vec(k["c"]), enc_mat(k["A"]), enc_vec(k["b"]), k["minimize"]] for k in cands[i:i + 200]]]
            for i in range(0, len(cands), 200)]
    replies, dropped = safe_run(reqs, LIMITS[ctx.tier]["drv"])
    note_dropped(ctx, dropped, "C03 artificial-basis pre-screen")
    keep = []
    for i, rp in enumerate(replies):
        if rp is None:
            continue
        if rp and rp[0] == "error":
            raise core.Infra(f"model rejected the pre-screen request: {rp}")
        for k, (before, _driven) in zip(cands[i * 200:(i + 1) * 200], rp):
            if before >= 2:
                keep.append(k)
    return keep[:want]


def edge_cases():
    mk = lambda c, A, b, mn=True, **o: {"family": "edge", "c": c, "A": A, "b": b, "minimize": mn, "opts": o, "ipm": {}}
    # the DESIGN witness: solve_lp_interior raises OverflowError
    yield mk([4, 3, -4], [[-3, 0, -1], [0, 2, 0], [0, 1, -1]], [3, -3, -1], False)
    yield mk([1], [[1]], [0])
    yield mk([-1], [[1]], [0])
    yield mk([-1], [[0]], [0])                      # unbounded through a zero row
    yield mk([1], [[0]], [-1])                      # infeasible zero row
    yield mk([0, 0], [[1, 1]], [1], False)          # zero objective
    yield mk([1, 1], [[-1, -1], [1, 1]], [-2, 2])   # equality pair, artificial stays basic
    yield mk([-1, -1], [[1, 1], [1, 1], [2, 2]], [2, 2, 4])  # parallel rows, ties
    yield mk([-3, -2], [[1, 1], [1, 0], [0, 1]], [4, 2, 3])
    yield mk([1, 2], [[-1, 0], [0, -1], [1, 1]], [-1, -1, 1])  # infeasible after phase 1
    yield mk([-1, 0], [[1, -1], [-1, 1]], [1, -1])  # unbounded with phase 1
    yield mk([3, -1, -3], [[-1, -1, 1], [-1, 1, -1], [-1, 0, 1], [2, 0, 0]], [-3, -3, 0, 6])  # two artificials
    # stay basic at level zero after phase 1 and are pivoted out by the clean-up loop; optimum -3 at (3,3,3)
    yield mk([2, 2], [[2, -2], [-2, 2]], [1, 0], False)         # strip 0 <= 2x-2y <= 1, pushed along
    yield mk([0, 1], [[1, -1], [-1, 1]], [3, -1], False)        # strip 1 <= x-y <= 3, max y
    # Beale's cycling example (degenerate, needs Bland)
    yield mk([-0.75, 150, -0.02, 6], [[0.25, -60, -0.04, 9], [0.5, -90, -0.02, 3], [0, 0, 1, 0]], [0, 0, 1])


# ---------------------------------------------------------------------------
# implementation side
# ---------------------------------------------------------------------------

def _res(r):
    sol = r.solution
    return {"status": r.status.name, "x": (list(sol) if sol is not None else None), "obj": r.objective,
            "iters": r.iterations}


def impl(case):
    warnings.simplefilter("ignore")
    from solvor.simplex import solve_lp
    from solvor.interior_point import solve_lp_interior
    c, A, b = list(case["c"]), [list(r) for r in case["A"]], list(case["b"])
    out = {}
    try:
        out["lp"] = ("ok", _res(solve_lp(c, A, b, minimize=case["minimize"], **case["opts"])))
    except Exception as e:  # noqa: BLE001
        out["lp"] = ("err", f"{type(e).__name__}: {e}")
    out["unchanged"] = (c, A, b) == (list(case["c"]), [list(r) for r in case["A"]], list(case["b"]))
    try:
        out["ipm"] = ("ok", _res(solve_lp_interior(c, A, b, minimize=case["minimize"], **case["ipm"])))
    except Exception as e:  # noqa: BLE001
        out["ipm"] = ("err", f"{type(e).__name__}: {e}")
    return out


def _enc_impl(o):
    if o is None or o[0] != "ok":
        return None
    r = o[1]
    return [r["status"], enc_point(r["x"]), enc_num(r["obj"])]


def to_request(case, out):
    lp = ipm = None
    if out[0] == "ok":
        lp, ipm = _enc_impl(out[1]["lp"]), _enc_impl(out[1]["ipm"])
    return ["lp", enc_vec(case["c"]), enc_mat(case["A"]), enc_vec(case["b"]), bool(case["minimize"]),
            rat(case["opts"].get("eps", 1e-10)), int(case["opts"].get("max_iter", DEFAULT_MAX_ITER)),
            rat(TOL), rat(VTOL), lp, ipm, rat(IPM_TOL_FEAS), rat(IPM_TOL_OBJ), rat(IPM_RESID),
            rat((len(case["c"]) + len(case["b"]) + 2) * 2.0 ** -50)]


# ---------------------------------------------------------------------------
# comparison
# ---------------------------------------------------------------------------

def judge(ctx, case, out, reply):
    rep = {"case": case, "impl": out, "model": reply}
    if out[0] != "ok":
        ctx.fail("solve_lp", "raises:" + err_kind(out), f"harness worker failed/timed out: {out[1]}", rep)
        return
    o = out[1]
    model, truth, lpc, ipc = reply
    m_status, m_x, m_obj, m_iters, m_ph1, m_near, m_cert, m_art, m_driven = model
    if m_ph1:
        ctx.count(f"art_basic_after_phase1:{min(m_art, 3)}{'+' if m_art >= 3 else ''}")
        ctx.count(f"art_driven_out:{min(m_driven, 3)}{'+' if m_driven >= 3 else ''}")
    verdict, opt, t_ok = truth
    ctx.count("truth:" + verdict)
    ctx.count("family:" + case["family"])
    ctx.count("sense:" + ("min" if case["minimize"] else "max"))
    if m_ph1:
        ctx.count("phase1")
    if not t_ok:
        # neither the exact run nor the mirror produced a certificate the verified checker accepts:
        # a defect of the model (fuel), never of the implementation
        raise core.Infra(f"model produced no valid certificate for {case}")
    ctx.cov["cert_checked_model"] = ctx.cov.get("cert_checked_model", 0) + 1
    if not o["unchanged"]:
        ctx.fail("solve_lp", "input_modified", "the input lists were modified", rep)
    small_iter = "max_iter" in case["opts"]

    # ---- solve_lp -----------------------------------------------------------
    fn = "solve_lp"
    if o["lp"][0] != "ok":
        ctx.fail(fn, "raises:" + o["lp"][1].split(":", 1)[0], f"valid LP raised: {o['lp'][1]}", rep)
    else:
        r = o["lp"][1]
        st = r["status"]
        ctx.count("lp_status:" + st)
        if st == "MAX_ITER":
            if not small_iter:
                ctx.fail(fn, "spurious_max_iter", "MAX_ITER with the default iteration limit on a tiny LP", rep)
        elif st not in ("OPTIMAL", "INFEASIBLE", "UNBOUNDED"):
            ctx.fail(fn, "bad_status", f"unexpected status {st}", rep)
        elif st != verdict:
            if st == "INFEASIBLE" and m_status == "MAX_ITER" and m_ph1:
                # the mirror (of the repaired code) ran out of iterations inside phase 1
                klass = "false_infeasible:max_iter_in_phase1"
            else:
                klass = f"false_{st.lower()}:{verdict.lower()}"
            ctx.fail(fn, klass, f"status {st} but the certified verdict is {verdict}"
                     + (f" (optimum {core.unrat(opt)})" if opt else ""), rep)
        elif st == "OPTIMAL":
            ctx.cov["cert_checked_impl"] = ctx.cov.get("cert_checked_impl", 0) + 1
            if lpc is None:
                ctx.fail(fn, "optimal_without_point", "OPTIMAL without a finite solution vector", rep)
            else:
                feas, obj_at, obj_near, vnear = lpc
                if not feas:
                    ctx.fail(fn, "infeasible_point", f"returned point violates Ax<=b+tol / x>=-tol (tol {TOL})", rep)
                if not obj_at:
                    ctx.fail(fn, "objective_mismatch", "|c.x - objective| > tol", rep)
                if not obj_near:
                    ctx.fail(fn, "not_optimal", f"objective {r['obj']} differs from the certified optimum "
                             f"{float(core.unrat(opt))}", rep)
        # R_trace: returned value equals the mirror's
        if st != m_status:
            if st == "INFEASIBLE" and m_status == "MAX_ITER" and m_ph1:
                ctx.count("phase1_limit_reported_infeasible")  # R_prop above decides (unrepaired tree)
            elif m_near:
                ctx.count("r_trace_excluded_near_threshold")
            else:
                ctx.tdiv(fn, {"case": case, "impl": r, "mirror": {"status": m_status}})
        elif st in ("OPTIMAL", "UNBOUNDED") and lpc is not None:
            if m_near:
                ctx.count("r_trace_excluded_near_threshold")
            elif not lpc[3]:
                ctx.tdiv(fn, {"case": case, "impl": r, "mirror": {"status": m_status,
                                                                  "x": [float(core.unrat(v)) for v in m_x]}})
            else:
                ctx.count("r_trace_agree")

    # ---- solve_lp_interior --------------------------------------------------
    fn = "solve_lp_interior"
    if o["ipm"][0] != "ok":
        kind = o["ipm"][1].split(":", 1)[0]
        ctx.fail(fn, "raises:" + kind, f"raised on a {verdict} LP: {o['ipm'][1]}", rep)
        ctx.count("ipm_status:raise")
    else:
        r = o["ipm"][1]
        st = r["status"]
        ctx.count("ipm_status:" + st)
        if st == "OPTIMAL":
            if verdict != "OPTIMAL":
                ctx.fail(fn, f"false_optimal:{verdict.lower()}", f"OPTIMAL on a certified {verdict} LP", rep)
            elif ipc is None:
                ctx.fail(fn, "optimal_without_point", "OPTIMAL without a finite solution vector", rep)
            else:
                feas, obj_at, obj_near, _ = ipc
                if not feas:
                    ctx.fail(fn, "infeasible_point", f"OPTIMAL point violates the constraints by > {IPM_TOL_FEAS}", rep)
                if not obj_at:
                    ctx.fail(fn, "objective_mismatch", "|c.x - objective| > tol", rep)
                if not obj_near:
                    ctx.fail(fn, "not_optimal", f"OPTIMAL objective {r['obj']} vs certified optimum "
                             f"{float(core.unrat(opt))}", rep)
        elif st == "FEASIBLE":
            if ipc is None or not ipc[3]:
                ctx.fail(fn, "feasible_residual", "FEASIBLE but x<0 or primal residual > 0.01", rep)
        elif st != "MAX_ITER":
            ctx.fail(fn, "bad_status", f"unexpected status {st}", rep)

    canon = [case["c"], case["A"], case["b"], case["minimize"], sorted(case["opts"].items()),
             sorted(case["ipm"].items())]
    ctx.case(canon, bool(m_ph1) or m_iters >= 2,
             {"case": case, "lp": o["lp"], "ipm": o["ipm"], "certified": verdict,
              "optimum": (str(core.unrat(opt)) if opt else None)})


def run_cases(ctx, cases, shrink_mode=False):
    """implementation in the worker pool (per-case limit), model in driver processes with a timeout (a batch that
    times out is retried in small pieces, then dropped with a note – never a verdict); returns the list of
    (function, class, case) that failed"""
    lim = LIMITS[getattr(ctx, "tier", "quick")]
    outs = run_pool(impl, cases, timeout=CANDIDATE_SECONDS if shrink_mode else lim["pool"])
    reqs = [to_request(c, o) for c, o in zip(cases, outs)]
    if shrink_mode:
        replies, _ = safe_run(reqs, CANDIDATE_SECONDS, parts=[[i] for i in range(len(reqs))], retry=False)
    else:
        replies, dropped = safe_run(reqs, lim["drv"])
        note_dropped(ctx, dropped, "C03")
    failed = []
    orig_fail = ctx.fail
    for c, o, rp in zip(cases, outs, replies):
        if rp is None:
            continue
        if rp and rp[0] == "error":
            if shrink_mode:
                continue
            raise core.Infra(f"model rejected request: {rp} for {c}")

        def rec(function, klass, what, replay, no_input=False, _c=c):
            failed.append((function, klass, _c))
            return orig_fail(function, klass, what, replay, no_input)
        ctx.fail = rec
        try:
            judge(ctx, c, o, rp)
        except core.Infra:
            if not shrink_mode:
                raise
        finally:
            ctx.fail = orig_fail
    return failed


def fails_batch(target, tier):
    def run(cands):
        try:
            failed = run_cases(RecCtx(tier), cands, shrink_mode=True)
        except Exception:  # noqa: BLE001
            failed = []
        return [any(f == target[0] and k == target[1] and c is cand for f, k, c in failed) for cand in cands]
    return run


def shrink_failures(ctx, failed, limit=2):
    """minimise the first failing input of (at most `limit`) distinct (function, class) pairs within the run's
    shrink budget"""
    deadline = time.time() + LIMITS[ctx.tier]["shrink_total"]
    seen = set()
    for function, klass, case in failed:
        if (function, klass) in seen or len(seen) >= limit or time.time() > deadline:
            continue
        seen.add((function, klass))
        small, hist = shrink(case, lp_candidates, fails_batch((function, klass), ctx.tier),
                             max_seconds=LIMITS[ctx.tier]["shrink_total"] / 2, deadline=deadline)
        write_min(ctx, "C03", function, klass, small, hist)


def run(ctx, budget):
    ctx.cov["rule"] = RULE
    ctx.cov["missing_theorems"] = MISSING
    cases = list(edge_cases()) + [c["case"] for c in core.load_corpus("C03")]
    n = (1400 if budget == 1 else 2000 * budget)   # quick tier trimmed: must stay <= 60 s on a loaded box
    cases += [gen_case(ctx.rng, big=(ctx.tier == "thorough" and i % 3 == 0)) for i in range(n)]
    cases += gen_artdeg_cases(ctx, want=(700 if budget == 1 else 500 * budget),
                              tries=(2000 if budget == 1 else 1400 * budget))
    # strips: a 1-2 % class of them makes a diverging interior-point run overflow; a few thousand cheap ones per run
    cases += [gen_strip_case(ctx.rng) for _ in range(3000 if budget == 1 else 2000 * budget)]
    k = LIMITS[ctx.tier]["slices"]
    size = (len(cases) + k - 1) // k
    ctx.rng.shuffle(cases)          # every slice sees every family (edge cases, general LPs, strips)
    for t in range(k):
        part = cases[t * size:(t + 1) * size]
        if not part:
            continue
        failed = run_cases(ctx, part)
        if failed:
            if not getattr(ctx, "seed_shift", 0):
                shrink_failures(ctx, failed)
            if t + 1 < k:
                ctx.notes.append(f"stopped after slice {t + 1}/{k}: a failure was confirmed, the remaining "
                                 f"{len(cases) - (t + 1) * size} generated cases were not run")
            break


def replay(ctx, body):
    ctx.cov["rule"] = RULE
    failed = run_cases(ctx, [body["case"]])
    if failed and not body.get("minimised"):
        shrink_failures(ctx, failed)
