"""C11 — shortest paths (bfs/dfs, dijkstra, astar, astar_grid, bellman_ford, floyd_warshall and the
`_edges` wrappers, python back-end) against the models, certificates and theorems of Solvor/Path.

Every verdict on an implementation answer comes from a verified Bool checker evaluated in Lean:
`distCert` (potential + path: the reported distance is exact, `dist_exact_cert`), `pathOK`
(`path_upper_bound`), `unreachCert` (`closed_set_unreachable`), `lowerCert` (`potential_lower_bound`),
`negCycleCert` (`neg_cycle_cert`).  The potential handed to them is the distance table of the
Bellman-Ford model, proved exact for every input (`bellman_ford_correct`).
"""
from __future__ import annotations

import math
from fractions import Fraction

import core
from core import Driver, Infra
from pool import err_kind, run_pool

AREAS = ["Path"]
LEVEL = "proof"
ASSUMPTIONS = [
    "heapq modelled as 'pop the least (key, counter) entry', dict/set/deque as tables and lists (DESIGN §3); "
    "tied by R_trace: every returned path / visited set / matrix equals the mirror's",
    "weights are integers or dyadic rationals k/2^j (exact in binary floating point, sums < 2^53), sent to Lean as "
    "scaled integers; astar_grid costs are compared with the exact optimum in Z[sqrt2] within 1e-9*(1+cost)",
    "all [C] and [S] theorems of DESIGN §4 C11 are proved (no open theorem); the certificate checkers are still "
    "evaluated on every explored input, on the mirror's and on the implementation's answers",
    "inexact-double family (decimal fractions, tiny weights, planted cycles whose decimal sum is 0): every clause is decided "
    "on the EXACT rational values of the doubles (scaled to integers for Lean); a finite reported distance / path weight "
    "may differ from the exact one by the forward-error bound eps = n * 2^-52 * sum|w|; UNBOUNDED is tolerated when a "
    "reachable cycle of k edges weighs less than k*eps, a missed exactly-negative cycle only when the reported distances "
    "are a feasible potential within eps (verified checker `feasible` on weights + eps) and the start's distance is not "
    "negative; a call that does not return within 0.4 s on these <= 7-node graphs is a failure; R_trace is not applied to "
    "this family (float rounding may legitimately pick another tie)",
    "astar: only heuristics that are admissible and consistent on the instance with weight=1 are held to "
    "optimality; other heuristics / weights are run and held to path validity only",
]
RULE = ("random digraphs (1..9 nodes, thorough ..12; duplicate edges, self loops, zero-weight cycles, negative "
        "weights and planted negative cycles for bellman_ford/floyd_warshall; int/str/tuple/mixed labels; goal as value, "
        "predicate, missing value, None; max_iter / max_cost cut-offs; five heuristic families, weights 1, 3/2, 2) on which "
        "all applicable solvers are run, and grids up to 7x7 (thorough 9x9) with random obstacles, terrain costs, 4/8 "
        "neighbours and every heuristic name, 2500 (thorough 30000) small graphs with inexact double weights, plus 12 (thorough 36) large structured grids of 40..60 per side (walls with two "
        "gaps at opposite ends and a start chosen so that the two detours nearly tie, serpentine corridors, open fields, "
        "diagonal barriers, terrain); non-trivial = the mirror improved an already known distance at least once "
        "(decrease-key / second relaxation); distinct by canonical input")

SQRT_IS_POW = all(float(k) ** 0.5 == math.sqrt(k) for k in range(0, 700))


# ---------------------------------------------------------------------------
# generators
# ---------------------------------------------------------------------------

def _py_dists_to(n, edges, targets):
    """generator-side helper (not a judge): least weight from every node to the target set, nonneg weights"""
    INF = None
    d = [INF] * n
    for t in targets:
        d[t] = 0
    for _ in range(n + 1):
        ch = False
        for u, v, w in edges:
            if d[v] is not None and (d[u] is None or d[v] + w < d[u]):
                d[u] = d[v] + w
                ch = True
        if not ch:
            break
    return d


def _py_dijkstra(n, edges, s, targets):
    """generator-side helper (not a judge): (least distance from s to the target set or None, number of nodes
    closed by a heap Dijkstra with (cost, counter) keys up to and including the first goal)"""
    import heapq
    adj = [[] for _ in range(n)]
    for u, v, w in edges:
        adj[u].append((v, w))
    g, closed, heap, cnt, pops = {s: 0}, set(), [(0, 0, s)], 1, 0
    while heap:
        c, _, u = heapq.heappop(heap)
        if u in closed:
            continue
        closed.add(u)
        pops += 1
        if u in targets:
            return c, pops
        for v, w in adj[u]:
            if v not in closed and c + w < g.get(v, float("inf")):
                g[v] = c + w
                heapq.heappush(heap, (c + w, cnt, v))
                cnt += 1
    return None, pops


def gen_graph(rng, big: bool):
    nmax = 12 if big else 9
    n = rng.choice([1, 2, 3, 3, 4, 4, 5, 5, 6, 6, 7, 8, nmax])
    scale = rng.choice([1, 1, 1, 2, 4, 8])
    wmode = rng.choice(["nonneg", "nonneg", "nonneg", "nonneg", "smallrange", "unit", "neg", "neg"])
    m = rng.randint(0, min(4 * n, 36)) if rng.random() < 0.85 else rng.randint(0, n)

    def w():
        if wmode == "unit":
            return scale
        if wmode == "smallrange":
            return rng.choice([0, scale, scale, 2 * scale])
        if wmode == "neg":
            return rng.randint(-3 * scale, 9 * scale) if rng.random() < 0.5 else rng.randint(0, 9 * scale)
        return 0 if rng.random() < 0.12 else rng.randint(1, 9 * scale)

    edges = []
    for _ in range(m):
        u, v = rng.randrange(n), rng.randrange(n)
        if rng.random() < 0.06:
            v = u  # self loop
        edges.append([u, v, w()])
    if edges and rng.random() < 0.35:  # duplicate / parallel edges with another weight
        for _ in range(rng.randint(1, 3)):
            u, v, x = rng.choice(edges)
            edges.insert(rng.randrange(len(edges) + 1), [u, v, x if rng.random() < 0.3 else max(0 if wmode != "neg" else -2 * scale, x + rng.randint(-2, 2) * scale)])
    if n >= 2 and rng.random() < 0.3:  # a chain from node 0 so that long paths exist
        perm = list(range(n))
        rng.shuffle(perm)
        for a, b in zip(perm, perm[1:]):
            if rng.random() < 0.8:
                edges.insert(rng.randrange(len(edges) + 1), [a, b, w()])
    if n >= 2 and rng.random() < 0.25:  # zero-weight cycle
        k = rng.randint(2, min(n, 4))
        cyc = rng.sample(range(n), k)
        for a, b in zip(cyc, cyc[1:] + cyc[:1]):
            edges.insert(rng.randrange(len(edges) + 1), [a, b, 0])
    if wmode == "neg" and n >= 2 and rng.random() < 0.3:  # negative cycle
        k = rng.randint(1, min(n, 3))
        cyc = rng.sample(range(n), k)
        for a, b in zip(cyc, cyc[1:] + cyc[:1]):
            edges.insert(rng.randrange(len(edges) + 1), [a, b, rng.randint(-2 * scale, scale)])
        edges.append([cyc[-1], cyc[0], -rng.randint(1, 3) * scale - sum(0 for _ in cyc)])
    s = rng.randrange(n)
    r = rng.random()
    if r < 0.55:
        goal = {"mode": "value", "set": [rng.randrange(n)]}
    elif r < 0.62:
        goal = {"mode": "value", "set": [s]}
    elif r < 0.85:
        goal = {"mode": "pred", "set": sorted(rng.sample(range(n), rng.randint(0, min(n, 3))))}
    elif r < 0.92:
        goal = {"mode": "missing", "set": []}
    else:
        goal = {"mode": "none", "set": []}
    max_iter = None
    if rng.random() < 0.25:
        max_iter = rng.choice([0, 1, 2, 3, n - 1, n, n + 1, n + 3]) if rng.random() < 0.9 else rng.randint(0, 2 * n)
        max_iter = max(0, max_iter)
    max_cost = None
    if rng.random() < 0.3:
        max_cost = rng.randint(0, 14 * scale)
    nonneg = all(e[2] >= 0 for e in edges)
    if nonneg and goal["mode"] != "none" and rng.random() < 0.22:  # BOUNDARY values of the optional limits
        dtrue, pops = _py_dijkstra(n, edges, s, goal["set"])
        r2 = rng.random()
        if r2 < 0.55:
            base = dtrue if dtrue is not None else rng.randint(0, 9 * scale)
            max_cost = max(0, rng.choice([0, 0, base, base, base - 1, base + 1, base - scale, base + scale]))
            max_iter = max_iter if rng.random() < 0.3 else None
        else:
            max_iter = max(0, rng.choice([0, 1, pops, pops, pops - 1, pops + 1]))
            max_cost = max_cost if rng.random() < 0.3 else None
        if rng.random() < 0.12:
            goal = {"mode": "value", "set": [s]}
            max_cost = 0
    hk = rng.choice(["zero", "exact", "exact", "half", "cap", "cap", "bad"]) if rng.random() < 0.9 else "bad"
    hv = [0] * n
    if nonneg and goal["mode"] != "none":
        dt = _py_dists_to(n, edges, goal["set"])
        fin = [x for x in dt if x is not None]
        top = max(fin) if fin else 0
        hstar = [x if x is not None else top for x in dt]
        if hk == "exact":
            hv = hstar
        elif hk == "half":
            hv = [x // 2 for x in hstar]
        elif hk == "cap":
            cap = rng.randint(0, top + 1)
            hv = [min(x, cap) for x in hstar]
        elif hk == "bad":
            hv = [rng.randint(0, 12 * scale) for _ in range(n)]
    aw = [1, 1] if rng.random() < 0.85 else rng.choice([[3, 2], [2, 1], [1, 2], [0, 1]])
    oddstyle = f"odd{rng.choice([1, 2])}@{rng.randrange(17)}"
    return _resolve_labels({"kind": "graph", "n": n, "edges": edges, "scale": scale,
            "labels": rng.choice(["int", "int", "str", "tuple", "mixed", "shift", "odd", "odd", "odd"]),
            "s": s, "goal": goal, "max_iter": max_iter, "max_cost": max_cost,
            "h": {"kind": hk, "vals": hv}, "aw": aw,
            "bf_target": rng.choice([None, rng.randrange(n)]),
            "fw_directed": rng.random() < 0.7}, oddstyle)


def _resolve_labels(case, oddstyle):
    if case["labels"] == "odd":
        case["labels"] = oddstyle
    return case


FP_DECIMALS = [0.1, 0.2, 0.3, 0.4, 0.5, 0.6, 0.7, 0.8, 0.9, 1.1, 1.3, 2.7, 3.7, 9.25, 9.5, 10.0, 0.01, 0.07, 0.15, 0.35,
               1e-3, 1e-9, 1e-12, 2.5e-15, 1 / 3, 2 / 3, 0.0, 2.0]
FP_ZERO_CYCLES = [[0.3, -0.9, 0.6], [0.1, 0.2, -0.3], [0.7, -0.4, -0.3], [1.1, -0.8, -0.3], [0.1, -0.1], [0.35, 0.15, -0.5],
                  [1 / 3, 1 / 3, -2 / 3], [0.6, -0.7, 0.1], [2.7, -3.7, 0.9, 0.1], [1e-9, 0.3, -0.3, -1e-9]]


def gen_graph_fp(rng):
    """Inexact doubles: decimal fractions, tiny weights and planted cycles whose DECIMAL sum is 0 (so that the exact
    sum of the doubles is a tiny positive, zero or tiny negative number).  Weights travel as exact scaled integers
    (scale a power of two), the implementation gets exactly those doubles."""
    n = rng.choice([2, 3, 4, 5, 5, 6, 7])
    nonneg = rng.random() < 0.35
    ws = []
    edges = []
    for _ in range(rng.randint(1, 3 * n)):
        w = rng.choice(FP_DECIMALS)
        if not nonneg and rng.random() < 0.08:
            w = -w
        edges.append([rng.randrange(n), rng.randrange(n), w])
    if not nonneg:
        for _ in range(rng.randint(1, 2)):
            cyc = rng.choice(FP_ZERO_CYCLES)
            cyc = cyc[rng.randrange(len(cyc)):] + cyc[:0]
            k = len(cyc)
            nodes = [rng.randrange(n) for _ in range(k)] if k > n else rng.sample(range(n), k)
            rot = rng.randrange(k)
            cw = cyc[rot:] + cyc[:rot]
            for i in range(k):
                edges.insert(rng.randrange(len(edges) + 1), [nodes[i], nodes[(i + 1) % k], cw[i]])
    exact = [Fraction(w) for _, _, w in edges]
    scale = 1
    for f in exact:
        scale = max(scale, f.denominator)
    edges = [[u, v, int(f * scale)] for (u, v, _), f in zip(edges, exact)]
    s = rng.randrange(n)
    r = rng.random()
    goal = {"mode": "value", "set": [rng.randrange(n)]} if r < 0.7 else {"mode": "pred", "set": sorted(rng.sample(range(n), rng.randint(1, min(n, 2))))}
    hv, hk = [0] * n, "zero"
    if nonneg and rng.random() < 0.5:
        dt = _py_dists_to(n, edges, goal["set"])
        fin = [x for x in dt if x is not None]
        top = max(fin) if fin else 0
        cand = [int(Fraction(float(Fraction(x if x is not None else top, scale))) * scale) for x in dt]
        if all(Fraction(float(Fraction(x if x is not None else top, scale))) * scale == c for x, c in zip(dt, cand)):
            hv, hk = cand, "exact_rounded"
    return {"kind": "graph", "fp": True, "n": n, "edges": edges, "scale": scale, "labels": "int", "s": s, "goal": goal,
            "max_iter": None, "max_cost": None, "h": {"kind": hk, "vals": hv}, "aw": [1, 1],
            "bf_target": rng.choice([None, rng.randrange(n), rng.randrange(n)]), "fw_directed": rng.random() < 0.75}


HEURS = ["auto", "manhattan", "octile", "euclidean", "chebyshev"]


def gen_grid(rng, big: bool):
    hi = 9 if big else 7
    rows, cols = rng.randint(1, hi), rng.randint(1, hi)
    dens = rng.choice([0.0, 0.1, 0.2, 0.3, 0.45])
    terrain = rng.random() < 0.35
    blocked = 1 if rng.random() < 0.8 else [1, 4]
    bl = [blocked] if isinstance(blocked, int) else blocked
    grid = []
    for _ in range(rows):
        row = []
        for _ in range(cols):
            x = rng.random()
            if x < dens:
                row.append(rng.choice(bl))
            elif terrain and x < dens + 0.3:
                row.append(rng.choice([2, 3]))
            else:
                row.append(0)
        grid.append(row)
    costs = None
    if terrain:
        costs = {"2": rng.choice([[2, 1], [3, 2], [5, 1]]), "3": rng.choice([[3, 1], [5, 4], [1, 1]])}
        if rng.random() < 0.15:
            costs["0"] = [1, 2]  # cheaper than the heuristics assume: excluded from the optimality clause
    free = [(r, c) for r in range(rows) for c in range(cols) if grid[r][c] not in bl]
    allc = [(r, c) for r in range(rows) for c in range(cols)]
    start = list(rng.choice(free if free and rng.random() < 0.93 else allc))
    goal = list(rng.choice(free if free and rng.random() < 0.93 else allc))
    if rng.random() < 0.05:
        goal = list(start)
    return {"kind": "grid", "grid": grid, "start": start, "goal": goal,
            "directions": rng.choice([4, 8]), "heuristic": rng.choice(HEURS), "blocked": blocked, "costs": costs,
            "weight": [1, 1] if rng.random() < 0.9 else [2, 1],
            "max_iter": None if rng.random() < 0.85 else rng.randint(0, rows * cols + 2)}


def _octile(a, b):
    dr, dc = abs(a[0] - b[0]), abs(a[1] - b[1])
    return max(dr, dc) + (math.sqrt(2) - 1) * min(dr, dc)


def _near_tie_wall(rng):
    """generator-side helper: a wall in column c with two gaps, start left of it, goal beyond it close to the
    second gap, such that the route through the FAR gap is the optimum but only by a hair (the lattice of
    differences a + b*sqrt2 is sparse: 0.0122, 0.0172, 0.0294, ...), less than a thousandth of the difference
    of the two gaps' heuristic values: an implementation whose heuristic over-estimates by 0.1% (or whose
    tie-break ignores g) commits to the near gap and returns a measurably longer path."""
    for _ in range(300000):
        R, C = rng.randint(40, 60), rng.randint(40, 60)
        c = rng.randrange(1, C // 2)
        g1, g2 = rng.randrange(0, 4), R - 1 - rng.randrange(0, 4)
        s = (rng.randrange(R), rng.randrange(0, c))
        t = (R - 1 - rng.randrange(0, 6), C - 1 - rng.randrange(0, 6))
        far = _octile(s, (g1, c)) + _octile((g1, c), t)
        near = _octile(s, (g2, c)) + _octile((g2, c), t)
        d = near - far
        dh = _octile((g1, c), t) - _octile((g2, c), t)
        if 1e-9 < d < 0.0008 * dh:
            g = [[0] * C for _ in range(R)]
            for r in range(R):
                g[r][c] = 1
            g[g1][c] = g[g2][c] = 0
            return g, list(s), list(t)
    R = C = 44  # fallback: a known instance
    g = [[0] * C for _ in range(R)]
    for r in range(1, R - 1):
        g[r][2] = 1
    return g, [12, 0], [43, 43]


def gen_big_grid(rng, idx):
    """LARGE structured grids (40..60 per side): long detours whose lengths nearly tie, so that a slightly
    inadmissible heuristic or a wrong tie-break yields a cost measurably above the exact Z[sqrt2] optimum."""
    fam = idx % 6
    costs = None
    dirs, heur = (8 if rng.random() < 0.8 else 4), rng.choice(HEURS)
    if fam in (0, 1, 2):  # near-tie wall with two gaps: as built / transposed / upside down
        g, start, goal = _near_tie_wall(rng)
        if fam == 1:
            g = [list(col) for col in zip(*g)]
            start, goal = start[::-1], goal[::-1]
        elif fam == 2:
            g = g[::-1]
            start, goal = [len(g) - 1 - start[0], start[1]], [len(g) - 1 - goal[0], goal[1]]
        dirs, heur = 8, rng.choice(["auto", "octile", "auto", "euclidean"])
    else:
        R, C = rng.randint(40, 60), rng.randint(40, 60)
        g = [[0] * C for _ in range(R)]
        start, goal = [0, 0], [R - 1, C - 1]
        if fam == 3:  # serpentine corridors
            step = rng.choice([3, 4, 6])
            for k, r in enumerate(range(step, R - 1, step)):
                for c in range(C):
                    g[r][c] = 1
                g[r][0 if k % 2 else C - 1] = 0
                if rng.random() < 0.5:
                    g[r][C // 2] = 0  # a second gap: two routes
            start, goal = [0, rng.choice([0, C // 2, C - 1])], [R - 1, rng.choice([0, C // 2, C - 1])]
        elif fam == 4:  # open field with a few obstacles: corners, mid-edges, near-diagonal
            start, goal = rng.choice([([0, 0], [R - 1, C - 1]), ([R // 2, 0], [R // 2 + 3, C - 1]),
                                      ([0, C // 2], [R - 1, C // 2 - 5]), ([R - 1, 0], [0, C - 2]), ([3, 1], [R - 2, C - 4])])
            for _ in range(rng.randint(0, 30)):
                g[rng.randrange(R)][rng.randrange(C)] = 1
            g[start[0]][start[1]] = g[goal[0]][goal[1]] = 0
        else:  # two walls with gaps at opposite ends, or a diagonal barrier with terrain on one side
            if rng.random() < 0.5:
                c1, c2 = C // 3, 2 * C // 3
                for r in range(R):
                    g[r][c1] = g[r][c2] = 1
                g[0][c1] = g[R - 1][c1] = g[0][c2] = 0
                if rng.random() < 0.5:
                    g[R - 1][c2] = 0
                start, goal = [rng.randrange(R), 0], [rng.choice([0, R // 2, R - 1]), C - 1]
            else:
                for k in range(2, min(R, C) - 2):
                    g[k][k] = 1
                    if k + 1 < C:
                        g[k][k + 1] = 1
                start, goal = rng.choice([([R - 1, 0], [0, C - 1]), ([R // 2, 0], [R // 2, C - 1])])
                if rng.random() < 0.5:
                    for r in range(R):
                        for c in range(C):
                            if g[r][c] == 0 and c > r + 3 and rng.random() < 0.2:
                                g[r][c] = 2
                    costs = {"2": [3, 2]}
    return {"kind": "grid", "grid": g, "start": list(start), "goal": list(goal),
            "directions": dirs, "heuristic": heur, "blocked": 1, "costs": costs,
            "weight": [1, 1], "max_iter": None, "big": fam}


def edge_cases():
    g = {"kind": "graph", "n": 4, "edges": [[0, 1, 1], [0, 2, 6], [1, 3, 100], [2, 3, 1]], "scale": 1, "labels": "str",
         "s": 0, "goal": {"mode": "value", "set": [3]}, "max_iter": None, "max_cost": None,
         "h": {"kind": "zero", "vals": [0, 0, 0, 0]}, "aw": [1, 1], "bf_target": 3, "fw_directed": True}
    yield g
    yield {**g, "max_cost": 7}
    yield {**g, "max_cost": 0}
    yield {**g, "max_cost": 0, "labels": "int"}
    yield {**g, "max_cost": 0, "goal": {"mode": "value", "set": [0]}}
    yield {**g, "max_cost": 6}
    yield {**g, "max_cost": 8}
    yield {**g, "max_iter": 0}
    yield {**g, "max_iter": 1}
    yield {**g, "max_iter": 3}
    yield {**g, "max_iter": 4}
    yield {**g, "max_cost": 6, "goal": {"mode": "pred", "set": [2, 3]}}
    yield {**g, "n": 1, "edges": [], "goal": {"mode": "value", "set": [0]}, "h": {"kind": "zero", "vals": [0]},
           "bf_target": 0}
    yield {**g, "n": 1, "edges": [[0, 0, -1]], "goal": {"mode": "value", "set": [0]}, "h": {"kind": "zero", "vals": [0]},
           "bf_target": None}
    yield {**g, "n": 3, "edges": [[0, 1, 1], [1, 2, -3], [2, 1, 1]], "goal": {"mode": "value", "set": [2]},
           "h": {"kind": "zero", "vals": [0, 0, 0]}, "bf_target": 2}
    yield {**g, "n": 3, "edges": [[1, 2, -3], [2, 1, 1]], "goal": {"mode": "value", "set": [2]},
           "h": {"kind": "zero", "vals": [0, 0, 0]}, "bf_target": None}  # negative cycle not reachable from 0
    yield {**g, "edges": [[0, 1, 0], [1, 0, 0], [1, 2, 0], [2, 3, 0], [0, 3, 0]], "max_iter": 2}
    yield {"kind": "grid", "grid": [[0, 0, 0], [0, 1, 0], [0, 0, 0]], "start": [0, 0], "goal": [2, 2], "directions": 8,
           "heuristic": "auto", "blocked": 1, "costs": None, "weight": [1, 1], "max_iter": None}
    yield {"kind": "grid", "grid": [[0, 1], [1, 0]], "start": [0, 0], "goal": [1, 1], "directions": 4,
           "heuristic": "euclidean", "blocked": 1, "costs": None, "weight": [1, 1], "max_iter": None}


# ---------------------------------------------------------------------------
# implementation side (worker process)
# ---------------------------------------------------------------------------

# "Any node labels": hashable oddities, each pool free of ==-collisions (0 / False / 0.0, 1 / True, (0,) / (False,)).
# `None` (and other falsy labels) must work as source, interior node or goal.
ODD1 = [None, 0, "", (), frozenset(), -1, 0.5, -3, 1.5, "x", (None,), frozenset({1}), 7, -0.25, "None", (0, ""), 2 ** 70]
ODD2 = [False, None, "", (), True, frozenset(), -2, 0.25, "0", (False,), 3, -1.5, "a", ((),), float("inf"), b"", -7]
assert len(set(ODD1)) == len(ODD1) and len(set(ODD2)) == len(ODD2)


def labels_of(style, n):
    if style.startswith("odd"):
        pool = ODD1 if style[3] == "1" else ODD2
        rot = int(style.split("@")[1])
        assert n <= len(pool)
        return [pool[(i + rot) % len(pool)] for i in range(n)]
    if style == "str":
        return [f"n{i}" for i in range(n)]
    if style == "tuple":
        return [(i // 3, i % 3) for i in range(n)]
    if style == "shift":
        return [i - 4 for i in range(n)]
    if style == "mixed":
        return [(i if i % 3 == 0 else (f"s{i}" if i % 3 == 1 else (i, "t"))) for i in range(n)]
    return list(range(n))


def _num(x):
    """exact canonical form of a float/int objective: [num, den] | 'inf' | '-inf' | 'nan'"""
    if isinstance(x, float):
        if x != x:
            return "nan"
        if x == float("inf"):
            return "inf"
        if x == float("-inf"):
            return "-inf"
    f = Fraction(x)
    return [f.numerator, f.denominator]


def _call(fn, *a, **k):
    try:
        return fn(*a, **k)
    except Exception as e:  # noqa: BLE001
        return {"err": type(e).__name__, "msg": str(e)[:160]}


def _call_timed(secs, fn, *a, **k):
    """like _call, but a call that does not return within `secs` gives {"err": "Timeout"} (the worker survives)"""
    import signal

    def on_alarm(signum, frame):
        raise TimeoutError("call did not return")

    old = signal.signal(signal.SIGALRM, on_alarm)
    signal.setitimer(signal.ITIMER_REAL, secs)
    try:
        return fn(*a, **k)
    except TimeoutError:
        return {"err": "Timeout", "msg": f"no result after {secs} s"}
    except Exception as e:  # noqa: BLE001
        return {"err": type(e).__name__, "msg": str(e)[:160]}
    finally:
        signal.setitimer(signal.ITIMER_REAL, 0)
        signal.signal(signal.SIGALRM, old)


def _res_path(r, back):
    if isinstance(r, dict):
        return r
    sol = r.solution
    if sol is not None:
        try:
            sol = [back.get(x, -1) if not isinstance(x, list) else -1 for x in sol]
        except TypeError:
            sol = "unhashable"
    return {"status": r.status.name, "sol": sol, "obj": _num(r.objective), "it": r.iterations}


def _res_set(r, back):
    if isinstance(r, dict):
        return r
    return {"status": r.status.name, "sol": sorted(back.get(x, -1) for x in r.solution), "obj": _num(r.objective),
            "it": r.iterations, "type": type(r.solution).__name__}


def impl_graph(case):
    from solvor.a_star import astar
    from solvor.bellman_ford import bellman_ford
    from solvor.bfs import bfs, bfs_edges, dfs, dfs_edges
    from solvor.dijkstra import dijkstra, dijkstra_edges
    from solvor.floyd_warshall import floyd_warshall

    n, sc = case["n"], case["scale"]
    lab = labels_of(case["labels"], n)
    back = {l: i for i, l in enumerate(lab)}
    fl = (lambda x: x) if sc == 1 and (case["labels"] in ("int", "shift") or case["labels"].startswith("odd1")) else (lambda x: x / sc)
    wadj = {l: [] for l in lab}
    uadj = {l: [] for l in lab}
    for u, v, w in case["edges"]:
        wadj[lab[u]].append((lab[v], fl(w)))
        uadj[lab[u]].append(lab[v])
    gm = case["goal"]["mode"]
    gset = {lab[i] for i in case["goal"]["set"]}
    if gm == "value":
        goal = lab[case["goal"]["set"][0]]
        if goal is None or callable(goal):
            # the API reads a `None` goal as "explore everything": a node labelled None is named by a predicate
            goal = (lambda g: (lambda x: x is g))(goal)
    elif gm == "pred":
        goal = lambda x: x in gset  # noqa: E731
    elif gm == "missing":
        goal = "no-such-node"
    else:
        goal = None
    s = lab[case["s"]]
    kw = {}
    if case["max_iter"] is not None:
        kw["max_iter"] = case["max_iter"]
    out = {}
    nonneg = all(e[2] >= 0 for e in case["edges"])
    out["bfs"] = (_res_set if goal is None else _res_path)(_call(bfs, s, goal, lambda x: uadj[x], **kw), back)
    out["dfs"] = (_res_set if goal is None else _res_path)(_call(dfs, s, goal, lambda x: uadj[x], **kw), back)
    ident = {i: i for i in range(n)}
    et = case["goal"]["set"][0] if gm == "value" else None
    uedges = [(u, v) for u, v, _ in case["edges"]]
    fedges = [(u, v, fl(w)) for u, v, w in case["edges"]]
    r = _call(bfs_edges, n, uedges, case["s"], target=et, backend="python")
    out["bfs_edges"] = r if isinstance(r, dict) else (
        {"status": r.status.name, "sol": list(r.solution), "obj": _num(r.objective), "type": type(r.solution).__name__}
        if et is None else _res_path(r, ident))
    r = _call(dfs_edges, n, uedges, case["s"], target=et, backend="python")
    out["dfs_edges"] = r if isinstance(r, dict) else (
        {"status": r.status.name, "sol": list(r.solution), "obj": _num(r.objective), "type": type(r.solution).__name__}
        if et is None else _res_path(r, ident))
    if nonneg and goal is not None:
        kc = dict(kw)
        if case["max_cost"] is not None:
            kc["max_cost"] = fl(case["max_cost"])
        out["dijkstra"] = _res_path(_call(dijkstra, s, goal, lambda x: wadj[x], **kc), back)
        hv = case["h"]["vals"]
        wn, wd = case["aw"]
        if [wn, wd] != [1, 1]:
            kc["weight"] = wn / wd
        out["astar"] = _res_path(_call(astar, s, goal, lambda x: wadj[x], lambda x: fl(hv[back[x]]), **kc), back)
    if nonneg:
        r = _call(dijkstra_edges, n, fedges, case["s"], target=et, backend="python")
        if isinstance(r, dict) or et is not None:
            out["dijkstra_edges"] = _res_path(r, ident)
        else:
            out["dijkstra_edges"] = {"status": r.status.name, "obj": _num(r.objective),
                                     "sol": sorted([k, _num(v)] for k, v in r.solution.items())}
    if case.get("fp"):  # inexact doubles: also the all-distances mode (feasibility of what is reported)
        r = _call_timed(0.4, bellman_ford, case["s"], fedges, n, backend="python")
        out["bellman_ford_all"] = r if isinstance(r, dict) else {
            "status": r.status.name, "obj": _num(r.objective),
            "sol": None if r.solution is None else sorted([k, _num(v)] for k, v in r.solution.items())}
    r = _call_timed(0.4, bellman_ford, case["s"], fedges, n, target=case["bf_target"], backend="python")
    if isinstance(r, dict):
        out["bellman_ford"] = r
    elif case["bf_target"] is None and r.solution is not None:
        out["bellman_ford"] = {"status": r.status.name, "obj": _num(r.objective),
                               "sol": sorted([k, _num(v)] for k, v in r.solution.items())}
    else:
        out["bellman_ford"] = _res_path(r, ident)
    r = _call(floyd_warshall, n, fedges, directed=case["fw_directed"], backend="python")
    if isinstance(r, dict):
        out["floyd_warshall"] = r
    else:
        out["floyd_warshall"] = {"status": r.status.name, "obj": _num(r.objective),
                                 "sol": None if r.solution is None else [[_num(x) for x in row] for row in r.solution]}
    return out


def impl_grid(case):
    from solvor.a_star import astar_grid
    kw = {"directions": case["directions"], "heuristic": case["heuristic"]}
    bl = case["blocked"]
    kw["blocked"] = bl if isinstance(bl, int) else set(bl)
    if case["costs"] is not None:
        kw["costs"] = {int(k): v[0] / v[1] for k, v in case["costs"].items()}
    if case["weight"] != [1, 1]:
        kw["weight"] = case["weight"][0] / case["weight"][1]
    if case["max_iter"] is not None:
        kw["max_iter"] = case["max_iter"]
    grid = [list(r) for r in case["grid"]]
    r = _call(astar_grid, grid, tuple(case["start"]), tuple(case["goal"]), **kw)
    if isinstance(r, dict):
        return r
    sol = None if r.solution is None else [list(p) for p in r.solution]
    return {"status": r.status.name, "sol": sol, "obj": _num(r.objective),
            "bits": core.fbits(float(r.objective)) if r.objective == r.objective else None,
            "unchanged": grid == case["grid"]}


def impl(case):
    return impl_graph(case) if case["kind"] == "graph" else impl_grid(case)


# ---------------------------------------------------------------------------
# requests
# ---------------------------------------------------------------------------

def scaled(num, sc):
    """objective [num, den] -> scaled integer or None (not on the weight grid / not finite)"""
    if not isinstance(num, list):
        return None
    f = Fraction(num[0], num[1]) * sc
    return f.numerator if f.denominator == 1 else None


def _pathlike(o):
    return isinstance(o, dict) and isinstance(o.get("sol"), list) and all(isinstance(x, int) for x in o["sol"])


def fp_eps(case):
    """forward-error bound for sums of at most n doubles of the instance, in scaled units: n * 2^-52 * sum|w| (+2)"""
    return case["n"] * sum(abs(w) for _, _, w in case["edges"]) // 2 ** 52 + 2


def graph_request(case, out):
    """Returns (request, keys): keys[i] names the i-th sub-query."""
    n, sc, s = case["n"], case["scale"], case["s"]
    T = case["goal"]["set"]
    gm = case["goal"]["mode"]
    qs, keys = [], []

    def add(key, q):
        keys.append(key)
        qs.append(q)

    add("ref", ["ref", s])
    add("hop", ["hop", s])
    add("fwref", ["fwref", case["fw_directed"]])
    Tn = None if gm == "none" else T
    add("m:bfs", ["bfs", s, Tn, case["max_iter"]])
    add("m:dfs", ["dfs", s, Tn, case["max_iter"]])
    et = T if gm == "value" else None
    add("m:bfs_edges", ["bfs", s, et, None])
    add("m:dfs_edges", ["dfs", s, et, None])
    nonneg = all(e[2] >= 0 for e in case["edges"])
    if nonneg and gm != "none":
        add("m:dijkstra", ["dijkstra", s, T, case["max_iter"], case["max_cost"]])
        add("m:astar", ["astar", s, T, case["h"]["vals"], case["aw"][0], case["aw"][1], case["max_iter"], case["max_cost"]])
    if nonneg:
        add("m:dijkstra_edges", ["dijkstra", s, T, None, None] if et is not None else ["dall", s])
    add("m:bellman_ford", ["bf", s, case["bf_target"]])
    add("m:floyd_warshall", ["fw", case["fw_directed"]])
    if case.get("fp"):
        eps = fp_eps(case)
        add("refd", ["refd", s, eps])
        add("fwrefd", ["fwrefd", case["fw_directed"], eps])
        o = out.get("bellman_ford_all") if isinstance(out, dict) else None
        if isinstance(o, dict) and isinstance(o.get("sol"), list):
            tab = [None] * n
            okk = True
            for k, v in o["sol"]:
                x = scaled(v, sc)
                okk = okk and x is not None
                tab[k] = x
            if okk:
                add("feas:bf", ["feas", True, eps, tab])
        o = out.get("floyd_warshall") if isinstance(out, dict) else None
        if isinstance(o, dict) and isinstance(o.get("sol"), list):
            for i, row in enumerate(o["sol"]):
                tab = [(None if x == "inf" else scaled(x, sc)) for x in row]
                if all(x is not None or y == "inf" for x, y in zip(tab, row)):
                    add(f"feas:fw:{i}", ["feas", case["fw_directed"], eps, tab])

    def chk(name, unit, goalset, bound):
        o = out.get(name) if isinstance(out, dict) else None
        path = o["sol"] if _pathlike(o) and all(0 <= x for x in o["sol"]) else None
        cost = scaled(o.get("obj"), 1 if unit else sc) if isinstance(o, dict) else None
        add("c:" + name, ["chk", unit, s, goalset, bound, path, cost])

    if gm != "none":
        chk("bfs", True, T, None)
        chk("dfs", True, T, None)
    if et is not None:
        chk("bfs_edges", True, T, None)
        chk("dfs_edges", True, T, None)
        if nonneg:
            chk("dijkstra_edges", False, T, None)
    if nonneg and gm != "none":
        chk("dijkstra", False, T, case["max_cost"])
        chk("astar", False, T, case["max_cost"])
    if case["bf_target"] is not None:
        chk("bellman_ford", False, [case["bf_target"]], None)
    return ["graph", n, case["edges"], qs], keys


def grid_request(case, out):
    g = case["grid"]
    rows, cols = len(g), len(g[0]) if g else 0
    cm = case["costs"] or {}
    S = 1
    for v in cm.values():
        S = max(S, v[1])
    costs = [[int(k), v[0] * S // v[1]] for k, v in sorted(cm.items())]
    bl = case["blocked"]
    ok = isinstance(out, dict) and "status" in out
    path = out["sol"] if ok and out["sol"] is not None and all(0 <= p[0] < rows and 0 <= p[1] < cols for p in out["sol"]) else None
    cost = out["obj"] if ok and isinstance(out["obj"], list) else None
    return ["grid", rows, cols, g, [bl] if isinstance(bl, int) else list(bl), costs, S, case["directions"] == 8,
            case["start"], case["goal"], case["heuristic"], case["weight"][0], case["weight"][1], case["max_iter"],
            path, cost]


# ---------------------------------------------------------------------------
# judging
# ---------------------------------------------------------------------------

class J:
    """per-case helper: fail with a replay body"""

    def __init__(self, ctx, case, out, model):
        self.ctx, self.case, self.out, self.model = ctx, case, out, model

    def fail(self, fn, klass, what):
        self.ctx.fail(fn, klass, what, {"case": self.case, "impl": self.out.get(fn) if isinstance(self.out, dict) else self.out,
                                        "model": self.model})

    def tdiv(self, fn, impl_v, mirror_v):
        self.ctx.tdiv(fn, {"case": self.case, "impl": impl_v, "mirror": mirror_v})


def check_found(j, fn, o, chk, optimal: bool, max_cost=None, scale=1, unit=False):
    """o = implementation answer with a path; chk = [distCert, pathOK, pathCost, infeasOK] from Lean.
    Returns True if every clause held."""
    dc, po, pc = chk[0], chk[1], chk[2]
    cost = scaled(o["obj"], 1 if unit else scale)
    if not _pathlike(o) or any(x < 0 for x in o["sol"]):
        j.fail(fn, "path_unknown_node", f"returned path {o['sol']} contains something that is not a node")
        return False
    if not po:
        if pc is None:
            j.fail(fn, "path_uses_missing_edge", f"returned path {o['sol']} is empty or uses a step that is not an edge")
        elif cost is None or pc != cost:
            j.fail(fn, "path_sum_mismatch", f"edge weights of the returned path sum to {pc} (scaled), reported {o['obj']}")
        else:
            j.fail(fn, "path_endpoints", f"returned path {o['sol']} does not start at the source / end at a goal")
        return False
    if max_cost is not None and cost is not None and cost > max_cost:
        j.fail(fn, "returned_beyond_max_cost", f"a goal at distance {o['obj']} was returned although max_cost is "
               f"{max_cost}/{scale}: a goal beyond max_cost is INFEASIBLE")
        return False
    if optimal and not dc:
        beyond = max_cost is not None and cost is not None and cost > max_cost
        j.fail(fn, "dist_not_shortest" + (":beyond_max_cost" if beyond else ""),
               f"reported distance {o['obj']} (a real path) is not the least one: the potential certificate rejects it")
        return False
    return True


def judge_search(j, fn, o, m, chk, ok_status, optimal, n, max_iter, max_cost, scale, unit):
    """dijkstra / astar / bfs / dfs (and the _edges wrappers in target mode) in goal mode.
    m = mirror reply [status, path, cost, ...]"""
    ctx = j.ctx
    if "err" in o:
        j.fail(fn, "raises:" + o["err"], f"valid input raised {o['err']}: {o.get('msg')}")
        return
    st = o["status"]
    ctx.count(f"{fn}:{st}")
    if st == "MAX_ITER":
        if max_iter is None or max_iter > n:
            j.fail(fn, "spurious_max_iter", f"MAX_ITER reported although max_iter={max_iter} exceeds the number of nodes {n}")
    elif st == "INFEASIBLE":
        if o["sol"] is not None:
            j.fail(fn, "infeasible_with_solution", "INFEASIBLE together with a solution")
        if not chk[3]:
            j.fail(fn, "false_infeasible", "INFEASIBLE although a goal node is reachable"
                   + (" within max_cost" if max_cost is not None else "")
                   + " (no closed set / potential certificate for unreachability exists: the reference distances say reachable)")
    elif st == ok_status:
        if o["sol"] is None:
            j.fail(fn, "ok_without_path", f"{st} without a path")
        elif check_found(j, fn, o, chk, optimal, max_cost, scale, unit):
            ctx.count("cert_checked_impl")
    else:
        j.fail(fn, "bad_status", f"unexpected status {st}")
    # R_trace: status and returned path equal the mirror's.  A goal beyond max_cost is never returned by
    # the (repaired) mirror; an exact answer there is accepted by R_prop and not a trace divergence.
    mv = {"status": m[0], "sol": m[1]}
    iv = {"status": st, "sol": o["sol"]}
    if iv != mv:
        j.tdiv(fn, iv, mv)
    elif iv == mv:
        ctx.count("r_trace_agree")


def _frac(num, sc):
    """objective [num, den] -> exact Fraction in scaled units, or None (inf / nan)"""
    return Fraction(num[0], num[1]) * sc if isinstance(num, list) else None


def judge_fp(j, ctx, case, out, R, ref_status, ref_dist):
    """Inexact doubles.  Every clause is decided on the EXACT rational values of the doubles (the Lean side works on
    the scaled integers); a finite reported distance may differ from the exact one by the forward-error bound
    eps = n * 2^-52 * sum|w|.  Failures outright: a call that does not return, a negative distance of the start, a
    non-UNBOUNDED answer although an exactly negative cycle is reachable AND the reported distances are not a feasible
    potential within eps, UNBOUNDED although every reachable cycle weighs at least (its length) * eps."""
    n, sc, s = case["n"], case["scale"], case["s"]
    T, gm = case["goal"]["set"], case["goal"]["mode"]
    eps = fp_eps(case)
    nonneg = all(e[2] >= 0 for e in case["edges"])
    ctx.count("fp:cases")
    ctx.count("fp:exact_ref:" + ref_status)

    def close(a, b):
        return a is not None and b is not None and abs(a - b) <= eps

    def found_ok(fn, o, c, optimum):
        """o: implementation answer with a path; c: chk reply; optimum: exact least distance (scaled int) or None"""
        pc, ends = c[2], c[4]
        cost = _frac(o["obj"], sc)
        if not _pathlike(o) or pc is None:
            j.fail(fn, "path_uses_missing_edge", f"returned path {o['sol']} is empty or uses a step that is not an edge")
        elif not ends:
            j.fail(fn, "path_endpoints", f"returned path {o['sol']} does not start at the source / end at a goal")
        elif not close(cost, pc):
            j.fail(fn, "path_sum_mismatch:fp", f"reported {o['obj']} differs from the exact weight {pc}/{sc} of the returned "
                   f"path by more than eps={eps}/{sc}")
        elif optimum is not None and pc - optimum > eps:
            j.fail(fn, "dist_not_shortest:fp", f"returned path weighs {pc}/{sc}, the exact shortest distance is {optimum}/{sc} "
                   f"(eps={eps}/{sc})")
        else:
            ctx.count("cert_checked_impl")

    # ---- bellman_ford --------------------------------------------------------------------------------
    fn = "bellman_ford"
    oa, ot = out["bellman_ford_all"], out["bellman_ford"]
    for o in (oa, ot):
        if "err" in o:
            j.fail(fn, "no_return" if o["err"] == "Timeout" else "raises:" + o["err"],
                   f"bellman_ford did not return / raised on a valid input: {o.get('msg')}")
    if "err" not in oa:
        ctx.count("fp:bellman_ford:" + oa["status"])
        dist = {k: _frac(v, sc) for k, v in (oa["sol"] or [])}
        if oa["status"] != "UNBOUNDED":
            if dist.get(s) is None or dist[s] < 0:
                j.fail(fn, "negative_source_distance", f"status {oa['status']} with distance {dist.get(s)} (scaled) from the "
                       "start to itself")
            elif ref_status == "UNBOUNDED":
                if R.get("feas:bf") is not True:
                    j.fail(fn, "missed_negative_cycle:not_a_potential",
                           f"status {oa['status']} although an exactly negative cycle is reachable, and the reported "
                           f"distances violate d[v] <= d[u] + w + eps on some edge (eps={eps}/{sc})")
                else:
                    ctx.count("fp:tolerated:tiny_negative_cycle")
            else:
                want = {v: ref_dist[v] for v in range(n) if ref_dist[v] is not None}
                if set(dist) != set(want) or any(not close(dist[v], want[v]) for v in want):
                    j.fail(fn, "distances_wrong:fp", f"distances {oa['sol']} differ from the exact ones {want}/{sc} by more "
                           f"than eps={eps}/{sc}")
                else:
                    ctx.count("cert_checked_impl")
        elif ref_status != "UNBOUNDED":
            if R["refd"] != "UNBOUNDED":
                j.fail(fn, "false_unbounded", f"UNBOUNDED although every reachable cycle of k edges weighs at least k*eps "
                       f"(eps={eps}/{sc})")
            else:
                ctx.count("fp:tolerated:near_zero_cycle")
    if "err" not in ot and "err" not in oa and case["bf_target"] is not None:
        t = case["bf_target"]
        if (ot["status"] == "UNBOUNDED") != (oa["status"] == "UNBOUNDED"):
            j.fail(fn, "modes_disagree", f"target mode says {ot['status']}, all-distances mode {oa['status']}")
        elif ot["status"] == "INFEASIBLE":
            if ref_dist[t] is not None and ref_status != "UNBOUNDED":
                j.fail(fn, "false_infeasible", f"INFEASIBLE although target {t} is reachable")
        elif ot["status"] == "OPTIMAL" and ot["sol"] is not None:
            found_ok(fn, ot, R["c:bellman_ford"], ref_dist[t] if ref_status != "UNBOUNDED" else None)
        elif ot["status"] != "UNBOUNDED":
            j.fail(fn, "bad_status", f"unexpected status/solution {ot['status']}")

    # ---- floyd_warshall ------------------------------------------------------------------------------
    fn = "floyd_warshall"
    o = out[fn]
    unb, mat, _ = R["fwref"]
    if "err" in o:
        j.fail(fn, "raises:" + o["err"], f"valid input raised {o['err']}: {o.get('msg')}")
    else:
        ctx.count("fp:floyd_warshall:" + o["status"])
        if o["status"] == "UNBOUNDED":
            if not unb and not R["fwrefd"]:
                j.fail(fn, "false_unbounded", f"UNBOUNDED although every cycle of k edges weighs at least k*eps (eps={eps}/{sc})")
        elif o["sol"] is None:
            j.fail(fn, "bad_status", f"status {o['status']} without a matrix")
        else:
            got = [[(None if x == "inf" else _frac(x, sc)) for x in row] for row in o["sol"]]
            if any(got[i][i] is None or got[i][i] < 0 for i in range(n)):
                j.fail(fn, "negative_source_distance", "a diagonal entry is negative / infinite without UNBOUNDED")
            elif unb:
                if not all(R.get(f"feas:fw:{i}") is True for i in range(n)):
                    j.fail(fn, "missed_negative_cycle:not_a_potential",
                           f"status {o['status']} although an exactly negative cycle is present, and a row of the matrix "
                           f"is not a feasible potential within eps={eps}/{sc}")
                else:
                    ctx.count("fp:tolerated:tiny_negative_cycle")
            else:
                bad = [(i, k) for i in range(n) for k in range(n)
                       if (got[i][k] is None) != (mat[i][k] is None) or (mat[i][k] is not None and not close(got[i][k], mat[i][k]))]
                if bad:
                    j.fail(fn, "distances_wrong:fp", f"entries {bad[:4]} differ from the exact distances by more than eps={eps}/{sc}")
                else:
                    ctx.count("cert_checked_impl")

    # ---- dijkstra / astar / dijkstra_edges (non-negative weights) --------------------------------------
    if nonneg:
        fin = [ref_dist[t] for t in T if ref_dist[t] is not None]
        opt = min(fin) if fin else None
        for fn in ("dijkstra", "astar", "dijkstra_edges"):
            o = out.get(fn)
            if o is None or (fn == "dijkstra_edges" and gm != "value"):
                continue
            if "err" in o:
                j.fail(fn, "raises:" + o["err"], f"valid input raised {o['err']}: {o.get('msg')}")
                continue
            ctx.count(f"fp:{fn}:{o['status']}")
            if o["status"] == "INFEASIBLE":
                if opt is not None:
                    j.fail(fn, "false_infeasible", "INFEASIBLE although a goal node is reachable")
            elif o["status"] == "OPTIMAL" and o["sol"] is not None:
                if opt is None:
                    j.fail(fn, "path_uses_missing_edge", "a path was returned although no goal node is reachable")
                else:
                    found_ok(fn, o, R["c:" + fn], opt)
            else:
                j.fail(fn, "bad_status", f"unexpected status {o['status']}")
        o = out.get("dijkstra_edges")
        if o is not None and gm != "value" and "err" not in o:
            got = {k: _frac(v, sc) for k, v in o["sol"]}
            want = {v: ref_dist[v] for v in range(n) if ref_dist[v] is not None}
            if set(got) != set(want) or any(not close(got[v], want[v]) for v in want):
                j.fail("dijkstra_edges", "distances_wrong:fp", f"all-distances differ from the exact ones by more than eps={eps}/{sc}")
            else:
                ctx.count("cert_checked_impl")


def judge_graph(ctx, case, out, reply, keys):
    R = dict(zip(keys, reply))
    for k, v in R.items():
        if isinstance(v, list) and v and v[0] == "error":
            raise Infra(f"model rejected sub-query {k}: {v}")
    j = J(ctx, case, out, R)
    if not isinstance(out, dict):
        raise Infra(f"worker returned {out!r}")
    n, sc, s = case["n"], case["scale"], case["s"]
    T, gm = case["goal"]["set"], case["goal"]["mode"]
    nonneg = all(e[2] >= 0 for e in case["edges"])
    ref_status, ref_dist, negc = R["ref"]
    hop = R["hop"]
    if nonneg and ref_status != "OPTIMAL":
        raise Infra("reference Bellman-Ford reports UNBOUNDED on non-negative weights (model bug)")
    if ref_status == "UNBOUNDED" and not (negc and negc[2]):
        raise Infra(f"model could not certify its UNBOUNDED verdict with a negative cycle: {negc}")
    if ref_status == "UNBOUNDED":
        ctx.count("cert_checked_model")
    ctx.count("goal:" + gm)
    ctx.count("weights:" + ("nonneg" if nonneg else "negative"))
    ctx.count("labels:" + case["labels"].split("@")[0])
    if case["max_iter"] is not None:
        ctx.count("opt:max_iter")
    if case["max_cost"] is not None:
        ctx.count("opt:max_cost")
    reach = [v for v in range(n) if hop[v] is not None]

    # model-side certificates (the mirror's own answer checked by the verified checkers)
    for k, v in R.items():
        if k.startswith("m:") and k[2:] in ("bfs", "dfs", "dijkstra", "astar", "bfs_edges", "dfs_edges") and isinstance(v, list) and len(v) >= 5:
            if v[4] is True:
                ctx.count("cert_checked_model")
            elif v[4] is False:
                consistent = k != "m:astar" or (case["h"]["kind"] not in ("bad", "exact_rounded") and case["aw"] == [1, 1])
                if consistent:
                    raise Infra(f"mirror {k} produced an answer its own certificate rejects: {v} on {case}")
            if k in ("m:dijkstra", "m:astar") and v[5]:
                raise Infra(f"mirror {k} ran out of fuel on {case}")

    # ---- bfs / dfs ---------------------------------------------------------
    for fn, okst, optimal in (("bfs", "OPTIMAL", True), ("dfs", "FEASIBLE", False)):
        o, m = out[fn], R["m:" + fn]
        if gm == "none":
            if "err" in o:
                j.fail(fn, "raises:" + o["err"], f"valid input raised {o['err']}")
                continue
            ctx.count(f"{fn}:explore")
            cut = case["max_iter"] is not None and case["max_iter"] <= n
            if o["status"] != "OPTIMAL":
                j.fail(fn, "bad_status", f"goal=None returned status {o['status']}")
            if any(x < 0 for x in o["sol"]) or not set(o["sol"]) <= set(reach) or s not in o["sol"]:
                j.fail(fn, "visited_not_reachable", f"visited set {o['sol']} is not a set of reachable nodes containing the start")
            elif not cut and o["sol"] != reach:
                j.fail(fn, "visited_incomplete", f"goal=None visited {o['sol']} but the reachable set is {reach}")
            if o["sol"] != m[3]:
                j.tdiv(fn, o["sol"], m[3])
            else:
                ctx.count("r_trace_agree")
        else:
            judge_search(j, fn, o, m, R["c:" + fn], okst, optimal, n, case["max_iter"], None, 1, True)
            if "err" not in o and o["status"] == okst and o["sol"] is not None and scaled(o["obj"], 1) != len(o["sol"]) - 1:
                j.fail(fn, "objective_not_hops", f"objective {o['obj']} is not len(path)-1")
    for fn, okst, optimal in (("bfs_edges", "OPTIMAL", True), ("dfs_edges", "FEASIBLE", False)):
        o, m = out[fn], R["m:" + fn]
        if gm == "value":
            judge_search(j, fn, o, m, R["c:" + fn], okst, optimal, n, None, None, 1, True)
        else:
            if "err" in o:
                j.fail(fn, "raises:" + o["err"], f"valid input raised {o['err']}")
                continue
            ctx.count(f"{fn}:explore")
            if o["sol"] != reach:
                j.fail(fn, "visited_incomplete", f"target=None returned {o['sol']}, the sorted reachable set is {reach}")
            if o["sol"] != m[3]:
                j.tdiv(fn, o["sol"], m[3])
            else:
                ctx.count("r_trace_agree")

    if case.get("fp"):
        judge_fp(j, ctx, case, out, R, ref_status, ref_dist)
        canon = ["fp", case["n"], case["edges"], case["scale"], case["s"], case["goal"], case["h"], case["bf_target"],
                 case["fw_directed"]]
        bfc = R["m:bellman_ford"][4] if len(R["m:bellman_ford"]) > 4 else 0
        ctx.case(canon, bfc >= 1, {"case": case, "impl": {k: (v if k != "floyd_warshall" else v.get("status"))
                                                          for k, v in out.items()}, "ref_dist": ref_dist})
        return

    # ---- dijkstra / astar --------------------------------------------------
    rerelax = 0
    if nonneg and gm != "none":
        md = R["m:dijkstra"]
        rerelax = md[3]
        judge_search(j, "dijkstra", out["dijkstra"], md, R["c:dijkstra"], "OPTIMAL", True, n, case["max_iter"],
                     case["max_cost"], sc, False)
        hk, aw = case["h"]["kind"], case["aw"]
        consistent = hk != "bad"
        ctx.count(f"astar:h={hk}:w={aw[0]}/{aw[1]}")
        ma = R["m:astar"]
        rerelax = max(rerelax, ma[3])
        okst = "OPTIMAL" if aw == [1, 1] else "FEASIBLE"
        if consistent and aw == [1, 1]:
            judge_search(j, "astar", out["astar"], ma, R["c:astar"], okst, True, n, case["max_iter"], case["max_cost"], sc, False)
        else:
            # excluded region of the property (inconsistent heuristic or weight != 1): validity of what is returned
            ctx.count("excluded_region:astar")
            o = out["astar"]
            if "err" in o:
                j.fail("astar", "raises:" + o["err"], f"valid input raised {o['err']}")
            else:
                if o["status"] == okst and o["sol"] is not None:
                    check_found(j, "astar", o, R["c:astar"], False, case["max_cost"], sc, False)
                elif o["status"] == "INFEASIBLE" and case["max_cost"] is None and not R["c:astar"][3]:
                    j.fail("astar", "false_infeasible", "INFEASIBLE although a goal node is reachable")
                elif o["status"] not in ("INFEASIBLE", "MAX_ITER", okst):
                    j.fail("astar", "bad_status", f"unexpected status {o['status']}")
                iv, mv = {"status": o["status"], "sol": o["sol"]}, {"status": ma[0], "sol": ma[1]}
                if iv != mv:
                    j.tdiv("astar", iv, mv)
    if nonneg:
        o, m = out["dijkstra_edges"], R["m:dijkstra_edges"]
        if gm == "value":
            judge_search(j, "dijkstra_edges", o, m, R["c:dijkstra_edges"], "OPTIMAL", True, n, None, None, sc, False)
        elif "err" in o:
            j.fail("dijkstra_edges", "raises:" + o["err"], f"valid input raised {o['err']}")
        else:
            got = {k: scaled(v, sc) for k, v in o["sol"]}
            want = {v: ref_dist[v] for v in range(n) if ref_dist[v] is not None}
            if got != want:
                j.fail("dijkstra_edges", "distances_wrong", f"all-distances {o['sol']} differ from the exact distances {want} (scaled by {sc})")
            else:
                ctx.count("cert_checked_impl")
            if m is None or {v: m[v] for v in range(n) if m[v] is not None} != got:
                j.tdiv("dijkstra_edges", o["sol"], m)

    # ---- bellman_ford ------------------------------------------------------
    o, m = out["bellman_ford"], R["m:bellman_ford"]
    if "err" in o:
        j.fail("bellman_ford", "no_return" if o["err"] == "Timeout" else "raises:" + o["err"],
               f"bellman_ford did not return / raised on a valid input: {o.get('msg')}")
    else:
        ctx.count("bellman_ford:" + o["status"])
        t = case["bf_target"]
        if ref_status == "UNBOUNDED":
            if o["status"] != "UNBOUNDED":
                j.fail("bellman_ford", "missed_negative_cycle",
                       f"status {o['status']} although the negative cycle {negc[1]} is reachable via {negc[0]}")
        elif o["status"] == "UNBOUNDED":
            j.fail("bellman_ford", "false_unbounded", "UNBOUNDED although no negative cycle is reachable from the start "
                   "(the reference distances are a feasible potential)")
        elif t is None:
            got = {k: scaled(v, sc) for k, v in (o["sol"] or [])}
            want = {v: ref_dist[v] for v in range(n) if ref_dist[v] is not None}
            if o["status"] != "OPTIMAL" or got != want:
                j.fail("bellman_ford", "distances_wrong", f"distances {o['sol']} differ from the exact distances {want} (scaled by {sc})")
            else:
                ctx.count("cert_checked_impl")
        else:
            c = R["c:bellman_ford"]
            if o["status"] == "INFEASIBLE":
                if not c[3]:
                    j.fail("bellman_ford", "false_infeasible", f"INFEASIBLE although target {t} is reachable")
            elif o["status"] == "OPTIMAL" and o["sol"] is not None:
                if check_found(j, "bellman_ford", o, c, True, None, sc, False):
                    ctx.count("cert_checked_impl")
            else:
                j.fail("bellman_ford", "bad_status", f"unexpected status/solution {o['status']}")
        if "sol" in o:
            iv = {"status": o["status"], "sol": o["sol"] if (t is not None or o["sol"] is None) else None}
            mv = {"status": m[0], "sol": m[2]}
            if iv != mv:
                j.tdiv("bellman_ford", iv, mv)
            else:
                ctx.count("r_trace_agree")

    # ---- floyd_warshall ----------------------------------------------------
    o, m = out["floyd_warshall"], R["m:floyd_warshall"]
    unb, mat, ncok = R["fwref"]
    if unb and not ncok:
        raise Infra("model could not certify the negative cycle behind its Floyd-Warshall UNBOUNDED verdict")
    if "err" in o:
        j.fail("floyd_warshall", "raises:" + o["err"], f"valid input raised {o['err']}: {o.get('msg')}")
    else:
        ctx.count("floyd_warshall:" + o["status"] + (":directed" if case["fw_directed"] else ":undirected"))
        if unb:
            if o["status"] != "UNBOUNDED":
                j.fail("floyd_warshall", "missed_negative_cycle", f"status {o['status']} although a negative cycle is present")
        elif o["status"] == "UNBOUNDED":
            j.fail("floyd_warshall", "false_unbounded", "UNBOUNDED although the graph has no negative cycle")
        elif o["sol"] is None or o["status"] != "OPTIMAL":
            j.fail("floyd_warshall", "bad_status", f"status {o['status']} / no matrix although no negative cycle is present")
        else:
            got = [[(None if x == "inf" else scaled(x, sc)) for x in row] for row in o["sol"]]
            if got != mat:
                j.fail("floyd_warshall", "distances_wrong" + ("" if case["fw_directed"] else ":undirected"),
                       f"matrix {got} differs from the exact all-pairs distances {mat} (scaled by {sc})")
            else:
                ctx.count("cert_checked_impl")
        mm = m[1]
        got = None if o["sol"] is None else [[(None if x == "inf" else scaled(x, sc)) for x in row] for row in o["sol"]]
        if (o["status"], got) != (m[0], mm):
            j.tdiv("floyd_warshall", {"status": o["status"], "sol": got}, {"status": m[0], "sol": mm})
        else:
            ctx.count("r_trace_agree")

    # ---- all solvers agree on the shared query ------------------------------
    if nonneg and gm == "value":
        t = T[0]
        costs = {}
        for fn in ("dijkstra", "astar", "dijkstra_edges"):
            oo = out.get(fn)
            if oo and "err" not in oo and oo["status"] == "OPTIMAL" and (fn != "astar" or (case["h"]["kind"] != "bad")):
                costs[fn] = scaled(oo["obj"], sc)
        oo = out["floyd_warshall"]
        if case["fw_directed"] and "err" not in oo and oo["sol"] is not None:
            x = oo["sol"][s][t]
            if x != "inf":
                costs["floyd_warshall"] = scaled(x, sc)
        if case["bf_target"] == t and "err" not in out["bellman_ford"] and out["bellman_ford"]["status"] == "OPTIMAL":
            costs["bellman_ford"] = scaled(out["bellman_ford"]["obj"], sc)
        if case["max_cost"] is None and len(set(costs.values())) > 1:
            j.fail("dijkstra", "solvers_disagree", f"solvers disagree on dist({s},{t}): {costs}")
        elif len(costs) > 1:
            ctx.count("solvers_agree_checked")
    canon = [case["n"], case["edges"], case["scale"], case["s"], case["goal"], case["max_iter"], case["max_cost"],
             case["h"], case["aw"], case["bf_target"], case["fw_directed"], case["labels"]]
    bfc = R["m:bellman_ford"][4] if len(R["m:bellman_ford"]) > 4 else 0
    ctx.case(canon, rerelax >= 1 or bfc >= 1,
             {"case": case, "impl": {k: (v if k != "floyd_warshall" else v.get("status")) for k, v in out.items()},
              "ref_dist": ref_dist})


def judge_grid(ctx, case, out, reply):
    if reply and reply[0] == "error":
        raise Infra(f"model rejected grid request: {reply} for {case}")
    (ex_status, ex_opt, ex_path, ex_cert, m_status, m_path, m_bits, m_fuel,
     ip_cost, ends, sum_ok, opt_ok) = reply
    fn = "astar_grid"
    j = J(ctx, case, {fn: out}, reply)
    if ex_cert is not True:
        raise Infra(f"exact grid optimum not certified by its own certificate: {reply} on {case}")
    if m_fuel:
        raise Infra(f"grid mirror ran out of fuel on {case}")
    ctx.count("cert_checked_model")
    g = case["grid"]
    ncell = len(g) * (len(g[0]) if g else 0)
    d8, h = case["directions"] == 8, case["heuristic"]
    ctx.count(f"grid:dirs={case['directions']}:h={h}")
    if "big" in case:
        ctx.count(f"grid:big:family{case['big']}")
    cheap = case["costs"] is not None and any(Fraction(v[0], v[1]) < 1 for v in case["costs"].values())
    admissible = case["weight"] == [1, 1] and not cheap and not (d8 and h == "manhattan")
    if not admissible:
        ctx.count("excluded_region:astar_grid")
    if "err" in out:
        j.fail(fn, "raises:" + out["err"], f"valid input raised {out['err']}: {out.get('msg')}")
        return
    st = out["status"]
    ctx.count(f"{fn}:{st}")
    okst = "OPTIMAL" if case["weight"] == [1, 1] else "FEASIBLE"
    if not out["unchanged"]:
        j.fail(fn, "input_modified", "the grid was modified")
    if st == "MAX_ITER":
        if case["max_iter"] is None or case["max_iter"] > ncell:
            j.fail(fn, "spurious_max_iter", f"MAX_ITER with max_iter={case['max_iter']} on {ncell} cells")
    elif st == "INFEASIBLE":
        if ex_status != "INFEASIBLE":
            j.fail(fn, "false_infeasible", f"INFEASIBLE although the goal is reachable, e.g. via {ex_path}")
    elif st == okst and out["sol"] is not None:
        if not ends:
            j.fail(fn, "path_endpoints", f"path {out['sol']} does not run from start to goal")
        elif ip_cost is None:
            j.fail(fn, "path_uses_missing_edge", f"path {out['sol']} leaves the grid, enters a blocked cell or jumps")
        elif sum_ok is not True:
            j.fail(fn, "path_sum_mismatch", f"reported cost {out['obj']} is not within 1e-9(1+cost) of the path's weight "
                   f"{ip_cost[0]}+{ip_cost[1]}*sqrt2 (scaled)")
        elif admissible and opt_ok is not True:
            j.fail(fn, "cost_not_optimal", f"reported cost {out['obj']} is not within 1e-9(1+cost) of the exact optimum "
                   f"{ex_opt[0]}+{ex_opt[1]}*sqrt2 (scaled)")
        else:
            ctx.count("cert_checked_impl")
    else:
        j.fail(fn, "bad_status", f"unexpected status {st} / solution")
    # R_trace: the float mirror returns the same status, path and cost bits
    if h != "euclidean" or SQRT_IS_POW:
        iv = {"status": st, "sol": out["sol"], "bits": out["bits"] if out["sol"] is not None else None}
        mv = {"status": m_status, "sol": m_path, "bits": m_bits}
        if iv != mv:
            j.tdiv(fn, iv, mv)
        else:
            ctx.count("r_trace_agree")
    nontrivial = ex_path is not None and len(ex_path) >= 4 and (d8 or case["costs"] is not None or
                                                                  any(x != 0 for r in g for x in r))
    ctx.case(["grid", case], nontrivial, {"case": case, "impl": out, "exact": ex_opt})


# ---------------------------------------------------------------------------
# driver
# ---------------------------------------------------------------------------

class Collector:
    """Stands in for the run context while a case is judged: histogram / coverage calls go to the real context (if
    any), failed clauses are collected so that the failing case can be shrunk before it is reported."""

    def __init__(self, ctx=None):
        self.ctx, self.fails = ctx, []

    def count(self, *a, **k):
        if self.ctx is not None:
            self.ctx.count(*a, **k)

    def case(self, *a, **k):
        if self.ctx is not None:
            self.ctx.case(*a, **k)

    def tdiv(self, *a, **k):
        if self.ctx is not None:
            self.ctx.tdiv(*a, **k)

    def fail(self, fn, klass, what, rep):
        self.fails.append((fn, klass, what, rep))


def evaluate(cases, ctx=None):
    """Run implementation and model on `cases`; returns, per case, the list of failed clauses
    `(function, class, what, replay_body)`."""
    outs = run_pool(impl, cases, timeout=30.0)
    reqs, keyss = [], []
    for c, o in zip(cases, outs):
        val = o[1] if o[0] == "ok" else None
        if c["kind"] == "graph":
            rq, ks = graph_request(c, val or {})
        else:
            rq, ks = grid_request(c, val or {}), None
        reqs.append(rq)
        keyss.append(ks)
    replies = Driver("Path").run(reqs, chunks=12)
    res = []
    for c, o, rp, ks in zip(cases, outs, replies, keyss):
        if isinstance(rp, list) and rp and rp[0] == "error":
            raise Infra(f"model rejected request: {rp} for {c}")
        col = Collector(ctx)
        if o[0] != "ok":
            fn = "astar_grid" if c["kind"] == "grid" else "graph_solvers"
            col.fail(fn, "raises:" + err_kind(o), f"valid input raised/timed out in the worker: {o[1]}",
                     {"case": c, "impl": o, "model": rp})
        elif c["kind"] == "graph":
            judge_graph(col, c, o[1], rp, ks)
        else:
            judge_grid(col, c, o[1], rp)
        res.append(col.fails)
    return res


# ---------------------------------------------------------------------------
# replay shrinker (structural; a candidate is kept only if the SAME clause of the SAME function still fails)
# ---------------------------------------------------------------------------

SHRINK_SECONDS = 20.0
SHRINK_MAX_PER_RUN = 2


def _graph_candidates(c):
    out = []
    n, E = c["n"], c["edges"]

    def mk(**kw):
        d = {**c, **kw}
        hv = d["h"]["vals"]
        ok = all(x >= 0 for x in hv) and all(hv[u] <= w + hv[v] for u, v, w in d["edges"]) \
            and all(hv[t] == 0 for t in d["goal"]["set"])
        if d["h"]["kind"] != "bad" and not ok:  # the candidate broke consistency: astar is then held to validity only
            d["h"] = {**d["h"], "kind": "bad"}
        out.append(d)

    # fewer nodes: drop the last node if nothing refers to it
    last = n - 1
    if n > 1 and last != c["s"] and last not in c["goal"]["set"] and c["bf_target"] != last \
            and all(u != last and v != last for u, v, _ in E):
        mk(n=n - 1, h={**c["h"], "vals": c["h"]["vals"][:n - 1]})
    # halves of the edge list, then single edges
    if len(E) > 3:
        mk(edges=E[:len(E) // 2])
        mk(edges=E[len(E) // 2:])
    for k in range(len(E)):
        mk(edges=E[:k] + E[k + 1:])
    # options towards their defaults
    if c["max_iter"] is not None:
        mk(max_iter=None)
    if c["max_cost"] is not None:
        mk(max_cost=None)
    if c["aw"] != [1, 1]:
        mk(aw=[1, 1])
    if any(c["h"]["vals"]):
        mk(h={"kind": "zero", "vals": [0] * n})
    if c["labels"] != "int":
        mk(labels="int")
    if c["bf_target"] is not None:
        mk(bf_target=None)
    if not c["fw_directed"]:
        mk(fw_directed=True)
    if c["goal"]["mode"] == "pred" and len(c["goal"]["set"]) > 1:
        for t in c["goal"]["set"]:
            mk(goal={"mode": "pred", "set": [t]})
    # weights towards 0 / one unit
    sc = c["scale"]
    for k, (u, v, w) in enumerate(E):
        for w2 in (0, sc if w > 0 else -sc):
            if abs(w2) < abs(w):
                mk(edges=E[:k] + [[u, v, w2]] + E[k + 1:])
    if sc != 1 and all(w % sc == 0 for _, _, w in E) and (c["max_cost"] is None or c["max_cost"] % sc == 0) \
            and all(x % sc == 0 for x in c["h"]["vals"]):
        mk(scale=1, edges=[[u, v, w // sc] for u, v, w in E], max_cost=None if c["max_cost"] is None else c["max_cost"] // sc,
           h={**c["h"], "vals": [x // sc for x in c["h"]["vals"]]})
    return out


def _grid_candidates(c):
    out = []
    g = c["grid"]
    R, C = len(g), len(g[0]) if g else 0
    (sr, sc_), (gr, gc) = c["start"], c["goal"]

    def crop(top, bottom, left, right):
        r0, r1, c0, c1 = top, R - bottom, left, C - right
        if r0 <= min(sr, gr) and max(sr, gr) < r1 and c0 <= min(sc_, gc) and max(sc_, gc) < c1 and r1 - r0 >= 1 and c1 - c0 >= 1:
            d = {**c, "grid": [row[c0:c1] for row in g[r0:r1]], "start": [sr - r0, sc_ - c0], "goal": [gr - r0, gc - c0]}
            d.pop("big", None)
            out.append(d)

    for k in sorted({R // 2, R // 4, 3, 1}, reverse=True):
        if k >= 1:
            crop(k, 0, 0, 0)
            crop(0, k, 0, 0)
    for k in sorted({C // 2, C // 4, 3, 1}, reverse=True):
        if k >= 1:
            crop(0, 0, k, 0)
            crop(0, 0, 0, k)
    if c["costs"] is not None:
        out.append({**c, "costs": None})
    if c["max_iter"] is not None:
        out.append({**c, "max_iter": None})
    if c["weight"] != [1, 1]:
        out.append({**c, "weight": [1, 1]})
    cells = [(r, k) for r in range(R) for k in range(C) if g[r][k] != 0 and [r, k] != c["start"] and [r, k] != c["goal"]]
    if len(cells) > 1:  # clear whole rows / columns of obstacles first, then single cells
        for r in sorted({r for r, _ in cells})[:12]:
            out.append({**c, "grid": [[0] * C if i == r else row for i, row in enumerate(g)]})
    for r, k in cells[:40]:
        out.append({**c, "grid": [[(0 if (i, j2) == (r, k) else x) for j2, x in enumerate(row)] for i, row in enumerate(g)]})
    return out


def shrink_case(case, fn, klass, deadline):
    """Greedy delta-debugging over the generator's structure.  Returns (smaller case, its failure record, steps)."""
    import time
    cur, cur_rec, steps = case, None, 0
    while time.time() < deadline:
        cands = (_graph_candidates if cur["kind"] == "graph" else _grid_candidates)(cur)
        if not cands:
            break
        found = None
        for k in range(0, len(cands), 48):
            batch = cands[k:k + 48]
            try:
                results = evaluate(batch)
            except Infra:
                results = [[] for _ in batch]  # a candidate outside the model's domain: not a smaller witness
            for cand, fails in zip(batch, results):
                hit = [f for f in fails if f[0] == fn and f[1] == klass]
                if hit:
                    found = (cand, hit[0])
                    break
            if found or time.time() > deadline:
                break
        if not found:
            break
        cur, cur_rec = found
        steps += 1
    return cur, cur_rec, steps


def run_cases(ctx, cases, shrink=True):
    import time
    for c, fails in zip(cases, evaluate(cases, ctx)):
        for fn, klass, what, rep in fails:
            if shrink and ctx.known_match(fn, klass) is None and getattr(ctx, "_c11_shrunk", 0) < SHRINK_MAX_PER_RUN \
                    and len(ctx.violations) < 20:
                ctx._c11_shrunk = getattr(ctx, "_c11_shrunk", 0) + 1
                small, rec, steps = shrink_case(c, fn, klass, time.time() + SHRINK_SECONDS)
                if rec is not None:
                    what, rep = rec[2], {**rec[3], "original_case": c, "shrink_steps": steps}
                    ctx.count("shrunk_replays")
            ctx.fail(fn, klass, what, rep)


def malformed(_):
    """inputs outside the documented domain: only the error kind is recorded (never judged)"""
    from solvor.bellman_ford import bellman_ford
    from solvor.floyd_warshall import floyd_warshall
    probes = {
        "bellman_ford:n=0": lambda: bellman_ford(0, [], 0, backend="python"),
        "bellman_ford:start_out_of_range": lambda: bellman_ford(5, [(0, 1, 1.0)], 3, backend="python"),
        "bellman_ford:edge_out_of_range": lambda: bellman_ford(0, [(0, 7, 1.0)], 3, backend="python"),
        "bellman_ford:target_out_of_range": lambda: bellman_ford(0, [(0, 1, 1.0)], 3, target=9, backend="python"),
        "floyd_warshall:n=0": lambda: floyd_warshall(0, [], backend="python"),
        "floyd_warshall:edge_out_of_range": lambda: floyd_warshall(2, [(0, 2, 1.0)], backend="python"),
    }
    out = {}
    for k, f in probes.items():
        try:
            f()
            out[k] = "accepted"
        except Exception as e:  # noqa: BLE001
            out[k] = type(e).__name__
    return out


def run(ctx, budget):
    ctx.cov["rule"] = RULE
    for r in run_pool(malformed, [0], timeout=20.0):
        if r[0] == "ok":
            for k, v in r[1].items():
                ctx.count(f"malformed:{k}:{v}")
    cases = list(edge_cases()) + [c["case"] for c in core.load_corpus("C11")]
    big = ctx.tier == "thorough"
    ng, nq = 10000 * budget, 4000 * budget
    cases += [gen_graph(ctx.rng, big and i % 3 == 0) for i in range(ng)]
    cases += [gen_grid(ctx.rng, big and i % 3 == 0) for i in range(nq)]
    cases += [gen_graph_fp(ctx.rng) for _ in range(2500 * budget)]
    # a fixed small number of LARGE structured grids, spread evenly so that they land in different driver chunks
    nbig = 12 if budget <= 1 else 36
    bigs = [gen_big_grid(ctx.rng, i) for i in range(nbig)]
    step = max(1, len(cases) // nbig)
    for k, b in enumerate(bigs):
        cases.insert(min(len(cases), k * (step + 1)), b)
    run_cases(ctx, cases)
    ctx.cov["sqrt_is_pow_on_grid_range"] = SQRT_IS_POW
    ctx.cov["missing_theorems"] = []
    h = ctx.cov["histogram"]
    for k in ("cert_checked_model", "cert_checked_impl", "r_trace_agree"):
        ctx.cov[k] = h.get(k, 0)


def replay(ctx, body):
    ctx.cov["rule"] = RULE
    run_cases(ctx, [body["case"]], shrink=False)
