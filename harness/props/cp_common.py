"""Shared machinery of C05 / C06 (solvor/cp.py, solvor/cp_encoder.py against Solvor/Cp).

A *case* is a JSON-able recipe at the level of the public operators:

  {"vars": [[lb, ub], ...],              variable i is named "x<i>"
   "cons": [recipe, ...],                see `build_con`
   "hidden": [i, ...] (optional)          variables declared without a name (`_v<i>`, hidden from results)
   "hints": {"x0": 1, ...} | None,
   "limit": 1 | 3 | 100,
   "solver": "auto" | "dfs" | "sat"}

Expression recipes are evaluated with the *real* operators of IntVar/Expr (so the constraint
tuples are whatever the library builds); the built tuples are then translated to the protocol
syntax of Solvor/Cp/Drive.lean by `proto_con`.
"""
from __future__ import annotations

import signal

from core import Driver
from pool import err_kind, run_pool

SAT_TIMEOUT = 4.0  # seconds for one solve_sat call (pure Python, signal-interruptible)
DOMAINS = [(-2, 1), (3, 5), (0, 3), (0, 1), (0, 2), (1, 4), (-1, 1), (2, 2), (0, 4), (-3, -1), (1, 3), (0, 5)]


# ---------------------------------------------------------------------------
# building a model from a recipe with the real operators
# ---------------------------------------------------------------------------

def build_expr(e, xs):
    k = e[0]
    if k == "v":
        return xs[e[1]]
    if k == "c":
        return e[1]
    a, b = build_expr(e[1], xs), build_expr(e[2], xs)
    if k == "+":
        return a + b
    if k == "-":
        return a - b
    if k == "*":
        return a * b
    raise ValueError(k)


ANY_STYLES = ["list", "tuple", "gen", "map", "reversed", "iter", "dictvalues", "scratch"]
SIZED_STYLES = ["list", "tuple", "dictvalues", "scratch"]  # no_overlap / cumulative call len() on their arguments


def present(items, style, scratch):
    """The same collection presented to a constructor in different ways (the constraint means its
    contents at the time of the call)."""
    items = list(items)
    if style in (None, "list"):
        return items
    if style == "tuple":
        return tuple(items)
    if style == "gen":
        return (x for x in items)
    if style == "map":
        return map(lambda x: x, items)
    if style == "reversed":
        return reversed(items[::-1])
    if style == "iter":
        return iter(items)
    if style == "dictvalues":
        return {i: x for i, x in enumerate(items)}.values()
    if style == "scratch":  # a list the caller reuses: cleared and refilled after add()
        scratch.clear()
        scratch.extend(items)
        return scratch
    raise ValueError(style)


def styles_for(c, rng):
    """A random presentation style for a collection-taking constructor (None for the others)."""
    if c[0] in ("alldiff", "sumeq", "sumle", "sumge", "circuit"):
        return rng.choice(ANY_STYLES)
    if c[0] in ("noov", "cum"):
        return rng.choice(SIZED_STYLES)
    return None


def build_con(m, c, xs, style=None, scratch=None):
    k = c[0]
    scratch = [] if scratch is None else scratch
    P = lambda items: present(items, style, scratch)  # noqa: E731
    if k == "==":
        return build_expr(c[1], xs) == build_expr(c[2], xs)
    if k == "!=":
        return build_expr(c[1], xs) != build_expr(c[2], xs)
    if k == "alldiff":
        return m.all_different(P([xs[i] for i in c[1]]))
    if k == "sumeq":
        return m.sum_eq(P([xs[i] for i in c[1]]), c[2])
    if k == "sumle":
        return m.sum_le(P([xs[i] for i in c[1]]), c[2])
    if k == "sumge":
        return m.sum_ge(P([xs[i] for i in c[1]]), c[2])
    if k == "circuit":
        return m.circuit(P([xs[i] for i in c[1]]))
    if k == "noov":
        # (one scratch list per argument position)
        return m.no_overlap(P([xs[i] for i in c[1]]), present(c[2], style if style != "scratch" else "list", None))
    if k == "cum":
        q = style if style != "scratch" else "list"
        return m.cumulative(P([xs[i] for i in c[1]]), present(c[2], q, None), present(c[3], q, None), c[4])
    raise ValueError(k)


def add_cons(m, xs, cons, styles, scratch, built=None):
    for j, c in enumerate(cons):
        st = styles[j] if styles and j < len(styles) else None
        t = build_con(m, c, xs, st, scratch)
        if built is not None:
            built.append(t)
        m.add(t)
        if st == "scratch":  # the caller reuses its list
            scratch.clear()
            scratch.extend(xs)


def build_model(case):
    """Returns (Model, [IntVar], [built constraint tuples])."""
    from solvor.cp import Model
    m = Model()
    hidden = set(case.get("hidden") or [])
    xs = [m.int_var(lb, ub) if i in hidden else m.int_var(lb, ub, f"x{i}") for i, (lb, ub) in enumerate(case["vars"])]
    built = []
    add_cons(m, xs, case["cons"], case.get("styles"), [], built)
    return m, xs, built


class NotProto(Exception):
    pass


def proto_expr(d, idx):
    """Expression data (IntVar | int | tuple) -> protocol syntax."""
    from solvor.cp import IntVar
    if isinstance(d, IntVar):
        return ["v", idx[id(d)]]
    if isinstance(d, bool):
        raise NotProto("bool")
    if isinstance(d, int):
        return ["c", d]
    if isinstance(d, tuple) and d and d[0] in ("add", "sub") and len(d) == 3:
        return [d[0], proto_expr(d[1], idx), proto_expr(d[2], idx)]
    if isinstance(d, tuple) and d and d[0] in ("rsub", "mul") and len(d) == 3 and isinstance(d[2], int):
        return [d[0], proto_expr(d[1], idx), d[2]]
    raise NotProto(repr(d)[:80])


def proto_con(t, idx):
    """Built constraint tuple -> protocol syntax (the tuples exactly as Model.add receives them)."""
    if not isinstance(t, tuple):
        raise NotProto(f"not a tuple: {t!r}")
    k = t[0]
    v = lambda x: idx[id(x)]  # noqa: E731
    if k == "all_different":
        return ["alldiff", [v(x) for x in t[1]]]
    if k == "eq_const":
        return ["eqc", v(t[1]), t[2]]
    if k == "ne_const":
        return ["nec", v(t[1]), t[2]]
    if k == "eq_var":
        return ["eqv", v(t[1]), v(t[2])]
    if k == "ne_var":
        return ["nev", v(t[1]), v(t[2])]
    if k == "ne_expr":
        return ["rel", proto_expr(t[1], idx), proto_expr(t[2], idx), bool(t[3])]
    if k in ("sum_eq", "sum_le", "sum_ge"):
        return [{"sum_eq": "sumeq", "sum_le": "sumle", "sum_ge": "sumge"}[k], [v(x) for x in t[1]], t[2]]
    if k == "circuit":
        return ["circuit", [v(x) for x in t[1]]]
    if k == "no_overlap":
        return ["noov", [v(x) for x in t[1]], list(t[2])]
    if k == "cumulative":
        return ["cum", [v(x) for x in t[1]], list(t[2]), list(t[3]), t[4]]
    raise NotProto(k)


def proto_model(case):
    m, xs, built = build_model({k: v for k, v in case.items() if k != "styles"})
    idx = {id(x): i for i, x in enumerate(xs)}
    return [proto_con(t, idx) for t in built]


# ---------------------------------------------------------------------------
# tags: constraint kind x expression shape (for coverage table and failure classes)
# ---------------------------------------------------------------------------

def _ops(e, acc):
    if e[0] in ("v", "c"):
        return
    acc.add(e[0])
    _ops(e[1], acc)
    if isinstance(e[2], list):
        _ops(e[2], acc)


def _nvars(e):
    if e[0] == "v":
        return 1
    if e[0] == "c":
        return 0
    return _nvars(e[1]) + (_nvars(e[2]) if isinstance(e[2], list) else 0)


def tag_of(pc):
    """Tag of a *protocol* constraint: kind, and for linear relations the shape as the library built it."""
    k = pc[0]
    if k == "rel":
        ops = set()
        _ops(pc[1], ops)
        _ops(pc[2], ops)
        return "rel:%s:%s:L%dR%d" % ("ne" if pc[3] else "eq", "+".join(sorted(ops)) or "none", _nvars(pc[1]),
                                     _nvars(pc[2]))
    if k in ("alldiff", "circuit", "sumeq", "sumle", "sumge"):
        return f"{k}:{min(len(pc[1]), 5)}"
    if k in ("noov", "cum"):
        return f"{k}:{min(len(pc[1]), 5)}"
    return k


# ---------------------------------------------------------------------------
# implementation side (worker process)
# ---------------------------------------------------------------------------

def preload():
    """Import the library in the parent, so that forked workers do not each pay the import (on a loaded
    machine 16 simultaneous imports can eat a large part of the per-call time limit)."""
    import solvor.cp  # noqa: F401
    import solvor.cp_encoder  # noqa: F401
    import solvor.sat  # noqa: F401


class SatTimeout(Exception):
    pass


def _alarm(signum, frame):
    raise SatTimeout()


def solve_observed(m, xs, case, hidden=()):
    """One observed `Model.solve`: status, returned assignments (in the order of `xs`), what SATEncoder hands
    to solve_sat, what solve_sat returned, whether a SATEncoder was created."""
    import solvor.cp_encoder as enc_mod
    names = [x.name for x in xs]
    litmap = [[[v, b] for v, b in x.bool_vars.items()] for x in xs]
    cap = {"cnf": None, "assumptions": [], "sat_models": None, "sat_status": None, "sat_timeout": False,
           "used_sat": False}
    real = enc_mod.solve_sat
    real_init = enc_mod.SATEncoder.__init__

    def init_wrapper(self, model):
        cap["used_sat"] = True  # the back-end that answers: a SATEncoder was created
        real_init(self, model)

    def wrapper(clauses, **kw):
        cap["cnf"] = [[int(l) for l in c] for c in clauses]
        cap["assumptions"] = [int(l) for l in (kw.get("assumptions") or [])]
        old = signal.signal(signal.SIGALRM, _alarm)
        signal.setitimer(signal.ITIMER_REAL, SAT_TIMEOUT * (8 if case.get("big") else 1))
        try:
            r = real(clauses, **kw)
        finally:
            signal.setitimer(signal.ITIMER_REAL, 0)
            signal.signal(signal.SIGALRM, old)
        cap["sat_status"] = r.status.name
        mods = None
        if r.solutions is not None:
            mods = list(r.solutions)
        elif isinstance(r.solution, dict):
            mods = [r.solution]
        if mods is not None:
            cap["sat_models"] = [sorted(int(k) for k, v in s.items() if v) for s in mods]
        return r

    enc_mod.solve_sat = wrapper
    enc_mod.SATEncoder.__init__ = init_wrapper
    try:
        kw = {"solution_limit": case["limit"], "solver": case["solver"]}
        if case.get("hints") is not None:
            kw["hints"] = dict(case["hints"])
        try:
            r = m.solve(**kw)
        except SatTimeout:
            cap["sat_timeout"] = True
            out = dict(cap)
            out.update({"status": "SAT_TIMEOUT", "sols": None, "litmap": litmap})
            return out
    finally:
        enc_mod.solve_sat = real
        enc_mod.SATEncoder.__init__ = real_init
    out = dict(cap)
    hidden = set(hidden)

    def canon(sol):
        if not isinstance(sol, dict):
            return None
        # unknown keys, and hidden variables showing up, make the assignment malformed (extra entry)
        extra = [k for k in sol if k not in names or k.startswith("_")]
        return [None if i in hidden else sol.get(n) for i, n in enumerate(names)] + ([None] if extra else [])

    if r.solutions is not None:
        sols = [canon(s) for s in r.solutions]
    elif r.solution is not None:
        sols = [canon(r.solution)]
    else:
        sols = None
    out.update({"status": r.status.name, "sols": sols, "litmap": litmap})
    return out


def impl(case):
    """Build the model with the real operators, solve it, capture what SATEncoder hands to solve_sat."""
    m, xs, _ = build_model(case)
    return solve_observed(m, xs, case, case.get("hidden") or [])


def impl_history(hcase):
    """A history on ONE Model object: every round declares new variables, adds constraints (each collection
    argument in its presentation style) and solves.  Returns one pool-style outcome per round."""
    import traceback
    from solvor.cp import Model
    m = Model()
    xs, scratch, outs = [], [], []
    for rnd in hcase["history"]:
        try:
            for lb, ub in rnd.get("new_vars") or []:
                xs.append(m.int_var(lb, ub, f"x{len(xs)}"))
            add_cons(m, xs, rnd.get("cons") or [], rnd.get("styles"), scratch)
            outs.append(("ok", solve_observed(m, xs, rnd)))
        except SatTimeout:
            raise
        except BaseException as e:  # noqa: BLE001 - the error kind is an observable
            outs.append(("err", f"{type(e).__name__}: {e}"[:300] + "\n" + traceback.format_exc(limit=3)[-400:]))
            break
    return outs


def snapshots(hcase):
    """The model AS IT IS at each solve of a history, as plain cases."""
    vars_, cons, snaps = [], [], []
    for r, rnd in enumerate(hcase["history"]):
        vars_ = vars_ + [list(v) for v in (rnd.get("new_vars") or [])]
        cons = cons + list(rnd.get("cons") or [])
        snaps.append({"vars": vars_, "cons": cons, "hints": rnd.get("hints"), "limit": rnd["limit"],
                      "solver": rnd["solver"], "family": "history", "round": r})
    return snaps


def flatten_histories(hcases, houts):
    """(plain snapshot cases, pool-style outcomes, owner index) for all rounds of all histories."""
    cases, outs, owner = [], [], []
    for i, (h, ho) in enumerate(zip(hcases, houts)):
        snaps = snapshots(h)
        for r, sc in enumerate(snaps):
            if ho[0] != "ok":
                o = ho
            elif r < len(ho[1]):
                o = tuple(ho[1][r])
            else:
                break  # an earlier round raised: later rounds were not run
            cases.append(sc)
            outs.append(o)
            owner.append(i)
    return cases, outs, owner


# ---------------------------------------------------------------------------
# model side
# ---------------------------------------------------------------------------

def hint_pairs(case):
    h = case.get("hints") or {}
    n = len(case["vars"])
    hidden = set(case.get("hidden") or [])
    out = []
    for name, val in h.items():
        if (name.startswith("x") and name[1:].isdigit() and int(name[1:]) < n and int(name[1:]) not in hidden
                and isinstance(val, int)):
            out.append([int(name[1:]), val])
    return out


def to_request(case, pcons, out, mode):
    ok = out[0] == "ok"
    o = out[1] if ok else {}
    sols = list(o.get("sols") or [])
    if case.get("plant") is not None:  # judged by the verified evaluator as the last entry
        sols.append(list(case["plant"]))
    litmap = o.get("litmap")
    if litmap is None:  # implementation failed before anything came back: the encoder's documented numbering
        litmap, b = [], 1
        for lb, ub in case["vars"]:
            litmap.append([[v, b + v - lb] for v in range(lb, ub + 1)])
            b += max(0, ub - lb + 1)
    return ["case", [list(v) for v in case["vars"]], pcons, hint_pairs(case), int(case["limit"]), sols,
            o.get("cnf"), o.get("assumptions") or [], o.get("sat_models") or [], litmap, mode,
            sorted(case.get("hidden") or [])]


def normalise_cnf(cnf):
    return sorted(sorted(c) for c in cnf)


def run_model(cases, outs, mode):
    """Returns (protocol constraints per case, parsed replies).  A case marked `"big": true` (routing
    family, domains too large for exhaustive enumeration) is sent with mode bit 3 (no enumeration)."""
    pcs = [proto_model(c) for c in cases]
    def m(c, o):  # routing family: never run the DFS mirror (it would search for minutes), big: no enumeration
        mm = (mode & ~2) if c.get("family") == "routing" else mode
        if c.get("big"):
            return mm | 8
        # the reference DPLL is only needed to attribute an INFEASIBLE answer of the SAT path
        if o[0] == "ok" and o[1].get("status") == "INFEASIBLE" and o[1].get("cnf") is not None:
            mm |= 16
        return mm
    reqs = [to_request(c, pc, o, m(c, o)) for c, pc, o in zip(cases, pcs, outs)]
    replies = Driver("Cp").run(reqs, chunks=16)
    for rp in replies:
        if rp and rp[0] == "error":
            raise RuntimeError(f"model rejected request: {rp}")
    return pcs, replies


def unpack(reply):
    sols, hint_sols, checks, mirror, choose_sat, dfs, info = reply
    d = {"sols": sols, "hint_sols": hint_sols, "checks": checks, "mirror": mirror, "choose_sat": choose_sat,
         "dfs": dfs, "wf": None, "sat_under_assumptions": None, "sat_model_checks": [], "proj": None}
    if info is not None:
        d["wf"], d["sat_under_assumptions"], d["sat_model_checks"], d["proj"] = info
    return d


def path_of(case, choose_sat):
    """Which back-end answers according to the mirror (`choose_sat` = [auto rule, dfs fallback]):
    solver='sat' -> sat; 'auto' -> `_choose_solver`; 'dfs' -> sat only when a SAT-only kind is present."""
    if case["solver"] == "sat":
        return "sat"
    return "sat" if choose_sat[0 if case["solver"] == "auto" else 1] else "dfs"


def nontrivial(case):
    return len(case["cons"]) >= 1 and sum(1 for lb, ub in case["vars"] if ub > lb) >= 2


# ---------------------------------------------------------------------------
# generator (grammar-directed over the public operators)
# ---------------------------------------------------------------------------

def gen_expr(rng, nv, depth, need_var=False):
    """Random operator-level expression; well-typedness is decided by the real operators."""
    r = rng.random()
    if depth <= 0 or r < 0.35:
        if need_var or rng.random() < 0.75:
            return ["v", rng.randrange(nv)]
        return ["c", rng.randint(-3, 5)]
    op = rng.choice(["+", "+", "-", "-", "*"])
    if op == "*":
        a = gen_expr(rng, nv, depth - 1, need_var)
        k = ["c", rng.choice([-2, -1, 0, 1, 2, 2, 3])]
        return ["*", a, k] if rng.random() < 0.5 else ["*", k, a]
    a = gen_expr(rng, nv, depth - 1, need_var)
    b = gen_expr(rng, nv, depth - 1)
    return [op, a, b] if rng.random() < 0.6 else [op, b, a]


def eval_expr(e, a):
    k = e[0]
    if k == "v":
        return a[e[1]]
    if k == "c":
        return e[1]
    x, y = eval_expr(e[1], a), eval_expr(e[2], a)
    return x + y if k == "+" else x - y if k == "-" else x * y


def has_var(e):
    return e[0] == "v" or (e[0] not in ("c",) and (has_var(e[1]) or has_var(e[2])))


def _buildable(vars_, c):
    try:
        pc = proto_model({"vars": vars_, "cons": [c], "hidden": []})
        return pc[0]
    except (TypeError, NotProto):
        return None


def gen_rel(rng, vars_, plant):
    nv = len(vars_)
    for _ in range(30):
        depth = rng.choice([0, 1, 1, 2, 2, 3])
        lhs = gen_expr(rng, nv, depth, need_var=True)
        rhs = gen_expr(rng, nv, rng.choice([0, 0, 1, 1, 2])) if rng.random() < 0.7 else ["c", rng.randint(-4, 8)]
        if rng.random() < 0.3:
            lhs, rhs = rhs, lhs
        op = "==" if rng.random() < 0.6 else "!="
        if op == "==" and rng.random() < 0.6:  # make the planted assignment a solution
            d = eval_expr(lhs, plant) - eval_expr(rhs, plant)
            if d != 0:
                if rhs[0] == "c":
                    rhs = ["c", rhs[1] + d]
                elif rng.random() < 0.5:
                    rhs = ["+", rhs, ["c", d]]
                else:
                    lhs = ["-", lhs, ["c", d]]
        c = [op, lhs, rhs]
        if not (has_var(lhs) or has_var(rhs)):
            continue
        if _buildable(vars_, c) is not None:
            return c
    return ["==", ["v", 0], ["v", 0]]


def pick_vars(rng, nv, k, distinct=True):
    if distinct and k <= nv:
        return rng.sample(range(nv), k)
    return [rng.randrange(nv) for _ in range(k)]


def gen_global(rng, vars_, plant, kind, big=False):
    nv = len(vars_)
    if kind == "alldiff":
        k = rng.randint(1, min(4, nv + 1))
        return ["alldiff", pick_vars(rng, nv, k, distinct=rng.random() < 0.93)]
    if kind in ("sumeq", "sumle", "sumge"):
        k = rng.randint(1, 5 if big else 4)
        vs = pick_vars(rng, nv, k, distinct=rng.random() < 0.7)
        s = sum(plant[i] for i in vs)
        t = s + (0 if rng.random() < 0.6 else rng.randint(-3, 3))
        if rng.random() < 0.05:
            vs = []
            t = rng.choice([0, 0, 1, -1])
        return [kind, vs, t]
    if kind == "circuit":
        k = rng.randint(1, min(5 if big else 4, nv))
        return ["circuit", pick_vars(rng, nv, k, distinct=True)]
    if kind == "noov":
        k = rng.randint(1, min(4, nv))
        return ["noov", pick_vars(rng, nv, k, distinct=rng.random() < 0.9), [rng.choice([0, 1, 1, 2, 2, 3]) for _ in range(k)]]
    if kind == "cum":
        k = rng.randint(1, min(4, nv))
        ds = [rng.choice([0, 1, 2, 2, 3, 4 if big else 3]) for _ in range(k)]
        dm = [rng.choice([0, 1, 1, 2, 3]) for _ in range(k)]
        cap = rng.choice([0, 1, 2, 2, 3, 3, 4, 5])
        return ["cum", pick_vars(rng, nv, k, distinct=rng.random() < 0.9), ds, dm, cap]
    raise ValueError(kind)


def gen_simple(rng, vars_, plant):
    nv = len(vars_)
    k = rng.choice(["eqc", "nec", "eqv", "nev"])
    i = rng.randrange(nv)
    if k in ("eqc", "nec"):
        lb, ub = vars_[i]
        c = plant[i] if (k == "eqc" and rng.random() < 0.6) else rng.randint(lb - 1, ub + 1)
        e = [("==" if k == "eqc" else "!="), ["v", i], ["c", c]]
        if rng.random() < 0.3:
            e = [e[0], e[2], e[1]]  # constant on the left
        return e
    j = rng.randrange(nv)
    return [("==" if k == "eqv" else "!="), ["v", i], ["v", j]]


def circuit_vars(rng, n):
    """Domains for circuit successor variables: mostly 0..n-1, sometimes arbitrary."""
    out = []
    for _ in range(n):
        r = rng.random()
        if r < 0.6:
            out.append([0, n - 1])
        elif r < 0.8:
            out.append([rng.choice([0, 1]), n - 1 + rng.choice([0, 1])])
        else:
            out.append([rng.randint(-1, 1), rng.randint(n - 2, n + 1)])
    return [v if v[0] <= v[1] else [v[1], v[0]] for v in out]


def gen_model(rng, weights, big=False):
    """One model recipe (variables + constraints + planted assignment)."""
    kinds, ws = zip(*weights.items())
    ncons = rng.choice([0, 1, 1, 1, 2, 2, 3, 4])
    chosen = [rng.choices(kinds, ws)[0] for _ in range(ncons)]
    if "circuit" in chosen:
        n = rng.randint(1, 5 if big else 4)
        vars_ = circuit_vars(rng, n)
        while len(vars_) < n + rng.choice([0, 0, 1]) and len(vars_) < 5:
            vars_.append(list(rng.choice(DOMAINS)))
    else:
        nv = rng.choice([1, 2, 2, 3, 3, 4])
        vars_ = [list(rng.choice(DOMAINS)) for _ in range(nv)]
        if any(k in chosen for k in ("noov", "cum")) and rng.random() < 0.7:
            vars_ = [[0, rng.choice([2, 3, 4, 5 if big else 4])] for _ in range(nv)]
    if rng.random() < 0.025:  # an empty domain (lb > ub): the model has no solution
        i = rng.randrange(len(vars_))
        vars_[i] = [vars_[i][1] + rng.choice([1, 2]), vars_[i][1]]
    plant = [rng.randint(lb, ub) if lb <= ub else lb for lb, ub in vars_]
    cons = []
    for k in chosen:
        if k == "rel":
            cons.append(gen_rel(rng, vars_, plant))
        elif k == "simple":
            cons.append(gen_simple(rng, vars_, plant))
        elif k == "circuit":
            n = min(len(vars_), rng.randint(1, 5 if big else 4))
            # successor variables are the first n variables (mostly in order)
            vs = list(range(n))
            if rng.random() < 0.2:
                rng.shuffle(vs)
            cons.append(["circuit", vs])
        else:
            cons.append(gen_global(rng, vars_, plant, k, big))
    return vars_, cons, plant


def gen_routing(rng, big_ok=True):
    """Family where the back-end chosen by solver='auto' matters: an operator-built sum over k variables
    (random association, reversed operands, unit coefficients) ==/!= a target, with all_different, over domains
    large enough that a leaf-check-only DFS does not finish; a planted assignment keeps `==` feasible."""
    k = rng.choice([2, 3, 3, 4, 5, 6, 6, 7]) if big_ok else rng.choice([2, 3, 3, 4])
    d = k + rng.choice([1, 2, 3])
    vars_ = [[0, d] for _ in range(k)]
    top = list(range(d - k + 1, d + 1))
    plant = top if rng.random() < 0.7 else rng.sample(range(0, d + 1), k)
    plant = list(plant)
    rng.shuffle(plant)
    terms = [["v", i] for i in range(k)]
    if rng.random() < 0.3:
        j = rng.randrange(k)
        terms[j] = ["*", terms[j], ["c", 1]] if rng.random() < 0.5 else ["*", ["c", 1], terms[j]]
    rng.shuffle(terms)
    e = terms[0]
    for t in terms[1:]:
        e = ["+", e, t] if rng.random() < 0.6 else ["+", t, e]
    target = sum(plant)
    r = rng.random()
    if r < 0.7:
        con = ["==", e, ["c", target]] if rng.random() < 0.7 else ["==", ["c", target], e]
    elif r < 0.85:
        con = ["!=", e, ["c", target]]
        plant = None
    else:  # a variable cancels: one term fewer after merging
        # (Expr - IntVar is a TypeError in the library, Expr - Expr is not)
        con = ["==", ["-", e, ["+", ["v", 0], ["c", 0]]], ["c", target - plant[0]]]
    cons = [["alldiff", list(range(k))], con]
    if rng.random() < 0.5:
        cons.reverse()
    if plant is not None and len(set(plant)) != k:
        plant = None
    return vars_, cons, plant, (d + 1) ** k > 30000


def gen_history(rng, solvers=("auto", "dfs", "sat"), big=False):
    """A history on one Model: 2-3 rounds; each round declares 0-2 new variables, adds 0-2 constraints (over
    all variables declared so far, collection arguments in random presentation styles) and solves.  Half of
    the histories follow the pattern "a solve that creates auxiliary variables (sum / linear relation over >= 3
    variables / circuit) via SAT, then NEW variables and constraints on them, then SAT again"."""
    rounds = rng.choice([2, 2, 3])
    aux_first = rng.random() < 0.5
    nv = rng.choice([3, 3, 4]) if aux_first else rng.choice([1, 2, 3])
    vars_ = [list(rng.choice(DOMAINS[:9])) for _ in range(nv)]
    plant = [rng.randint(lb, ub) for lb, ub in vars_]
    hist = []

    def some_cons(n, new_from=None):
        cons = []
        for _ in range(n):
            k = rng.choice(["rel", "rel", "simple", "simple", "alldiff", "sumeq", "sumle", "sumge", "noov", "cum"])
            if k == "rel":
                c = gen_rel(rng, vars_, plant)
            elif k == "simple":
                c = gen_simple(rng, vars_, plant)
            else:
                c = gen_global(rng, vars_, plant, k, big)
            if new_from is not None and rng.random() < 0.6:  # tie a new variable to the rest
                j = rng.randrange(new_from, len(vars_))
                i = rng.randrange(len(vars_))
                c = rng.choice([["!=", ["v", j], ["v", i]], ["alldiff", sorted({i, j})], ["sumge", [j, i], plant[i] + plant[j] - 1],
                                ["==", ["v", j], ["c", plant[j]]]])
            cons.append(c)
        return cons

    for r in range(rounds):
        if r == 0:
            new_vars = [list(v) for v in vars_]
            if aux_first:
                idx = rng.sample(range(nv), 3)
                tot = sum(plant[i] for i in idx)
                first = rng.choice([
                    ["sumeq", idx, tot], ["sumle", idx, tot], ["sumge", idx, tot],
                    ["==", ["+", ["+", ["v", idx[0]], ["v", idx[1]]], ["v", idx[2]]], ["c", tot]],
                    ["!=", ["+", ["v", idx[0]], ["+", ["v", idx[1]], ["v", idx[2]]]], ["c", tot + 1]],
                ])
                cons = [first] + some_cons(rng.choice([0, 0, 1]))
                solver = rng.choice(["sat", "sat", "auto"])
            else:
                cons = some_cons(rng.choice([0, 1, 1, 2]))
                solver = rng.choice(solvers)
        else:
            k = rng.choice([1, 1, 2]) if (aux_first and r == 1) else rng.choice([0, 0, 1, 2])
            start = len(vars_)
            new_vars = [list(rng.choice(DOMAINS[:9])) for _ in range(k)]
            vars_.extend(new_vars)
            plant.extend(rng.randint(lb, ub) for lb, ub in new_vars)
            cons = some_cons(rng.choice([0, 1, 1, 2]), new_from=start if k else None)
            solver = rng.choice(["sat", "sat", "auto"]) if aux_first else rng.choice(solvers)
        styles = [styles_for(c, rng) if rng.random() < 0.7 else None for c in cons]
        hist.append({"new_vars": new_vars, "cons": cons, "styles": styles, "solver": solver,
                     "limit": rng.choice([1, 3, 100, 100]), "hints": None})
    return {"history": hist}


BIG_BASES = [2 ** 53, -(2 ** 53), 2 ** 53 - 2, 2 ** 62, -(2 ** 62), 10 ** 18, -(10 ** 18), 2 ** 63, 2 ** 64 + 1, 3 * 2 ** 54]


def gen_numeric_edge(rng):
    """Small domains (2-5 values) located at huge values (+-2**53 +- k, +-2**62, +-10**18, ...), mixed with ordinary
    ones; constants of such magnitudes in linear ==/!=, eq/ne_const, sum targets, no_overlap/cumulative starts.
    Coefficients stay small whenever the encoder needs partial-sum auxiliaries (their range grows with
    |coefficient| x width); two-term relations also get huge coefficients.  Everything is exact integer arithmetic."""
    V = lambda i: ["v", i]  # noqa: E731
    C = lambda n: ["c", n]  # noqa: E731
    nv = rng.choice([2, 2, 3, 3, 4])
    base = rng.choice(BIG_BASES) + rng.randint(-3, 3)
    same_place = rng.random() < 0.6  # all huge variables in one neighbourhood (needed for time-indexed kinds)
    vars_ = []
    for _ in range(nv):
        if rng.random() < 0.75:
            b = base if same_place else rng.choice(BIG_BASES) + rng.randint(-3, 3)
            lo = b + rng.randint(-2, 2)
            vars_.append([lo, lo + rng.choice([1, 2, 3, 4])])
        else:
            vars_.append(list(rng.choice(DOMAINS[:9])))
    plant = [rng.randint(lb, ub) for lb, ub in vars_]
    cons = []
    for _ in range(rng.choice([1, 1, 2])):
        kind = rng.choice(["rel2", "rel2", "rel2k", "const", "sum", "opsum", "alldiff", "noov", "cum", "relbigcoef", "lin1", "lin1"])
        x, y = rng.sample(range(nv), 2)
        op = "==" if rng.random() < 0.6 else "!="
        slack = 0 if rng.random() < 0.7 else rng.choice([-1, 1, 2])
        if kind == "rel2":
            c = plant[x] - plant[y] + slack
            form = rng.randrange(5)
            if form == 0:
                con = [op, V(x), ["+", V(y), C(c)]]
            elif form == 1:
                con = [op, ["-", V(x), V(y)], C(c)]
            elif form == 2:
                con = [op, ["+", C(c), V(y)], V(x)]
            elif form == 3:
                con = [op, ["+", V(x), C(-c)], V(y)]
            else:
                con = [op, ["+", V(x), V(y)], C(plant[x] + plant[y] + slack)]
        elif kind == "rel2k":
            k = rng.choice([2, 3, -2])
            con = [op, ["*", C(k), V(x)], ["+", ["*", V(y), C(k)], C(k * (plant[x] - plant[y]) + slack)]]
        elif kind == "relbigcoef":
            k = rng.choice([2 ** 53 + 1, -(2 ** 62), 10 ** 18 + 7])
            con = [op, ["*", V(x), C(k)], ["+", ["*", C(k), V(y)], C(k * (plant[x] - plant[y]) + slack)]]
        elif kind == "lin1":
            # linear ==/!= that flattens to ONE variable with a huge constant: k*x ~ c, x + c1 ~ c2, x + x ~ c, c ~ k*x
            # (divisible and non-divisible constants; exact integer division is needed above 2**53)
            k = rng.choice([1, 2, 3, -2, 3])
            form = rng.randrange(5)
            if form == 0:
                con = [op, ["*", C(k), V(x)], C(k * plant[x] + slack)]
            elif form == 1:
                c1 = rng.choice([1, -7, 2 ** 53 + 1, -(10 ** 18)])
                con = [op, ["+", V(x), C(c1)], C(plant[x] + c1 + slack)]
            elif form == 2:
                con = [op, ["+", V(x), V(x)], C(2 * plant[x] + slack)]
            elif form == 3:
                con = [op, C(k * plant[x] + slack), ["*", V(x), C(k)]]
            else:
                c1 = rng.choice([3, -5, 2 ** 54 + 3])
                con = [op, ["+", ["*", C(k), V(x)], C(c1)], C(k * plant[x] + c1 + slack)]
        elif kind == "const":
            con = [op, V(x), C(plant[x] + slack)] if rng.random() < 0.5 else [op, C(plant[x] + slack), V(x)]
        elif kind == "sum":
            vs = pick_vars(rng, nv, rng.randint(1, 4), distinct=rng.random() < 0.7)
            con = [rng.choice(["sumeq", "sumle", "sumge"]), vs, sum(plant[i] for i in vs) + slack]
        elif kind == "opsum" and nv >= 3:
            a, b, c3 = rng.sample(range(nv), 3)
            e = ["+", ["+", V(a), V(b)], V(c3)] if rng.random() < 0.5 else ["+", V(a), ["+", ["*", C(2), V(b)], V(c3)]]
            tot = eval_expr(e, plant)
            con = [op, e, C(tot + slack)] if rng.random() < 0.6 else [op, C(tot + slack), e]
        elif kind == "alldiff":
            con = ["alldiff", pick_vars(rng, nv, rng.randint(2, nv), distinct=True)]
        elif kind == "noov":
            vs = pick_vars(rng, nv, rng.randint(2, min(3, nv)), distinct=True)
            con = ["noov", vs, [rng.choice([0, 1, 2, 2 ** 53, 10 ** 18]) for _ in vs]]
        elif kind == "cum" and same_place:
            vs = [i for i in range(nv) if abs(vars_[i][0] - base) <= 8][:3]
            if len(vs) < 1:
                continue
            con = ["cum", vs, [rng.choice([0, 1, 2, 3]) for _ in vs], [rng.choice([0, 1, 2]) for _ in vs], rng.choice([1, 2, 3])]
        else:
            continue
        if _buildable(vars_, con) is not None:
            cons.append(con)
    hints = None
    if rng.random() < 0.2:
        i = rng.randrange(nv)
        hints = {f"x{i}": plant[i] if rng.random() < 0.7 else vars_[i][1] + 2 ** 53}
    return vars_, cons, hints


def gen_scaled(rng):
    """Shape family with EQUAL non-unit coefficients on two variables and constants that are / are not
    divisible by the coefficient: k*x +- c ~ k*y +- d, k*(x - y) ~ c, k*x - k*y ~ c, (x+x) ~ (y+y) + c,
    for == and !=, alone or together with x == y / x != y / all_different; small domains."""
    nv = rng.choice([2, 2, 3])
    lo = rng.choice([-2, 0, 0, 1])
    vars_ = [[lo, lo + rng.choice([1, 2, 3])] for _ in range(nv)]
    x, y = rng.sample(range(nv), 2)
    k = rng.choice([2, 3, -2])
    c = rng.choice([-3, -2, -1, 0, 1, 2, 3, 4])
    d = rng.choice([0, 0, 1, -1, 2])
    V = lambda i: ["v", i]  # noqa: E731
    C = lambda n: ["c", n]  # noqa: E731
    kx = ["*", C(k), V(x)] if rng.random() < 0.5 else ["*", V(x), C(k)]
    ky = ["*", C(k), V(y)] if rng.random() < 0.5 else ["*", V(y), C(k)]
    form = rng.choice(["kx+c~ky+d", "k(x-y)~c", "kx-ky~c", "x+x~y+y+c", "kx~ky+c"])
    if form == "kx+c~ky+d":
        lhs = ["+", kx, C(c)] if rng.random() < 0.5 else ["-", kx, C(-c)]
        rhs = ["+", ky, C(d)] if rng.random() < 0.5 else ["-", ky, C(-d)]
    elif form == "k(x-y)~c":
        lhs = ["*", ["-", V(x), V(y)], C(k)] if rng.random() < 0.5 else ["*", C(k), ["-", V(x), V(y)]]
        rhs = C(c)
    elif form == "kx-ky~c":
        lhs, rhs = ["-", kx, ky], C(c)
    elif form == "x+x~y+y+c":
        lhs = ["+", V(x), V(x)]
        rhs = ["+", ["+", V(y), V(y)], C(c)] if rng.random() < 0.5 else ["+", C(c), ["+", V(y), V(y)]]
    else:
        lhs, rhs = kx, (["+", ky, C(c)] if rng.random() < 0.5 else ["+", C(c), ky])
    if rng.random() < 0.3:
        lhs, rhs = rhs, lhs
    op = "==" if rng.random() < 0.5 else "!="
    cons = [[op, lhs, rhs]]
    if _buildable(vars_, cons[0]) is None:  # e.g. a constant on the left of `-`: fall back to a plain form
        cons = [[op, ["-", kx, ky], C(c)]]
    extra = rng.random()
    if extra < 0.25:
        cons.append(["==", V(x), V(y)])
    elif extra < 0.4:
        cons.append(["!=", V(x), V(y)])
    elif extra < 0.6:
        cons.append(["alldiff", list(range(nv))])
    elif extra < 0.7:
        cons.append(gen_simple(rng, vars_, [lb for lb, _ in vars_]))
    if rng.random() < 0.5:
        cons.reverse()
    return vars_, cons


def gen_hidden(rng, vars_):
    """Mostly none; sometimes a few variables are declared without a name."""
    if rng.random() < 0.88:
        return []
    return [i for i in range(len(vars_)) if rng.random() < 0.45]


def gen_hints(rng, vars_, plant):
    r = rng.random()
    if r < 0.55:
        return None
    if r < 0.6:
        return {}
    h = {}
    for i, (lb, ub) in enumerate(vars_):
        if rng.random() < 0.5:
            q = rng.random()
            if q < 0.5:
                h[f"x{i}"] = plant[i]
            elif q < 0.8:
                h[f"x{i}"] = rng.randint(lb, ub) if lb <= ub else lb
            else:
                h[f"x{i}"] = rng.choice([lb - 1, ub + 1, ub + 5])
    if rng.random() < 0.15:
        h["nope"] = 1
    return h


# ---------------------------------------------------------------------------
# structural shrinking (delta debugging over the generator's structure)
# ---------------------------------------------------------------------------

def _expr_variants(e):
    """Smaller expressions: a child in place of the node, constants towards 0/1, children shrunk."""
    if e[0] == "c":
        return [["c", v] for v in (0, 1) if abs(v) < abs(e[1]) or (v == 0 and e[1] != 0)]
    if e[0] == "v":
        return []
    out = [e[1], e[2]]
    out += [[e[0], a, e[2]] for a in _expr_variants(e[1])]
    out += [[e[0], e[1], b] for b in _expr_variants(e[2])]
    return out


def _con_variants(c):
    k = c[0]
    if k in ("==", "!="):
        return [[k, a, c[2]] for a in _expr_variants(c[1])] + [[k, c[1], b] for b in _expr_variants(c[2])]
    out = []
    if k in ("alldiff", "circuit"):
        out += [[k, c[1][:i] + c[1][i + 1:]] for i in range(len(c[1]))]
    elif k in ("sumeq", "sumle", "sumge"):
        out += [[k, c[1][:i] + c[1][i + 1:], c[2]] for i in range(len(c[1]))]
        out += [[k, c[1], t] for t in (0, c[2] - 1, c[2] + 1) if abs(t) < abs(c[2])]
    elif k == "noov":
        out += [[k, c[1][:i] + c[1][i + 1:], c[2][:i] + c[2][i + 1:]] for i in range(len(c[1]))]
        out += [[k, c[1], c[2][:i] + [c[2][i] - 1] + c[2][i + 1:]] for i in range(len(c[2])) if c[2][i] > 0]
    elif k == "cum":
        out += [[k, c[1][:i] + c[1][i + 1:], c[2][:i] + c[2][i + 1:], c[3][:i] + c[3][i + 1:], c[4]]
                for i in range(len(c[1]))]
        out += [[k, c[1], c[2][:i] + [c[2][i] - 1] + c[2][i + 1:], c[3], c[4]] for i in range(len(c[2])) if c[2][i] > 0]
        out += [[k, c[1], c[2], c[3][:i] + [c[3][i] - 1] + c[3][i + 1:], c[4]] for i in range(len(c[3])) if c[3][i] > 0]
        if c[4] > 0:
            out.append([k, c[1], c[2], c[3], c[4] - 1])
    return out


def _used_vars(c, acc):
    if c[0] in ("==", "!="):
        def walk(e):
            if e[0] == "v":
                acc.add(e[1])
            elif e[0] != "c":
                walk(e[1])
                walk(e[2])
        walk(c[1])
        walk(c[2])
    else:
        acc.update(c[1])


def _renumber(c, mp):
    if c[0] in ("==", "!="):
        def walk(e):
            if e[0] == "v":
                return ["v", mp[e[1]]]
            if e[0] == "c":
                return e
            return [e[0], walk(e[1]), walk(e[2])]
        return [c[0], walk(c[1]), walk(c[2])]
    return [c[0], [mp[i] for i in c[1]]] + list(c[2:])


def shrink_candidates(case):
    """One-step smaller cases (each JSON-able like `case`); planted assignments are dropped."""
    base = {k: v for k, v in case.items() if k not in ("plant",)}
    out = []

    def mk(**kw):
        d = dict(base)
        d.update(kw)
        out.append(d)

    cons = case["cons"]
    styles = case.get("styles")
    if styles and any(styles):
        mk(styles=None)
    for i in range(len(cons)):  # drop a constraint (and its presentation style)
        if styles:
            mk(cons=cons[:i] + cons[i + 1:], styles=styles[:i] + styles[i + 1:])
        else:
            mk(cons=cons[:i] + cons[i + 1:])
    if case.get("hints"):
        mk(hints=None)
        for k in case["hints"]:
            mk(hints={a: b for a, b in case["hints"].items() if a != k})
    if case.get("hidden"):
        mk(hidden=[])
    if case["limit"] != 1:
        mk(limit=1)
    used = set()
    for c in cons:
        _used_vars(c, used)
    n = len(case["vars"])
    for i in range(n):  # drop an unused variable (and renumber)
        if i not in used and n > 1:
            mp = {j: (j if j < i else j - 1) for j in range(n) if j != i}
            hints = case.get("hints")
            if hints:
                hints = {(f"x{mp[int(k[1:])]}" if k[1:].isdigit() and int(k[1:]) in mp and k.startswith("x") else k): v
                         for k, v in hints.items() if k != f"x{i}"}
            mk(vars=case["vars"][:i] + case["vars"][i + 1:], cons=[_renumber(c, mp) for c in cons], hints=hints,
               hidden=[mp[j] for j in (case.get("hidden") or []) if j != i])
    for i, (lb, ub) in enumerate(case["vars"]):  # shrink a domain
        if ub > lb:
            mk(vars=case["vars"][:i] + [[lb + 1, ub]] + case["vars"][i + 1:])
            mk(vars=case["vars"][:i] + [[lb, ub - 1]] + case["vars"][i + 1:])
    for i, c in enumerate(cons):  # simplify a constraint
        for c2 in _con_variants(c):
            mk(cons=cons[:i] + [c2] + cons[i + 1:])
    # keep only candidates the real operators can build
    good = []
    for d in out:
        try:
            proto_model(d)
            good.append(d)
        except (TypeError, NotProto, IndexError, ValueError):
            pass
    return good


def minimise(case, fails_with, rounds=40, per_round=80):
    """Greedy shrinking: `fails_with(cases) -> [bool]` says which candidates still show the same symptom.
    Returns (smallest case found, number of accepted steps)."""
    steps = 0
    for _ in range(rounds):
        cands = shrink_candidates(case)[:per_round]
        if not cands:
            break
        verdicts = fails_with(cands)
        nxt = next((c for c, v in zip(cands, verdicts) if v), None)
        if nxt is None:
            break
        case = nxt
        steps += 1
    return case, steps


__all__ = [n for n in dir() if not n.startswith("__")]
