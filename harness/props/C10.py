"""C10 — Hungarian assignment (solvor/hungarian.py) against the certifying mirror (Solvor/Assign).

Per case the Lean driver returns the mirror's assignment and potentials of the padded square, the
verdict of the verified checker `chkAssignment` on the mirror's own answer, and the verdict of the
same checker on the IMPLEMENTATION's assignment (with the mirror's potentials).  By
`chkAssignment_sound` a `true` verdict is a proof, for that input, that the assignment is a
matching of size min(rows, cols) of optimal total cost.  A brute-force enumeration (Python, small
sizes) is a cross-check of the framework only; it never decides.
"""
from __future__ import annotations

import copy
import itertools
from fractions import Fraction

import core
from core import Driver
from pool import err_kind, run_pool

AREAS = ["Assign"]
LEVEL = "proof"
ASSUMPTIONS = [
    "solve_hungarian's float arithmetic modelled over Rat: the generator draws integers and dyadic rationals "
    "(denominator <= 16, |value| < 2^41), on which every +, -, comparison of the code is exact in IEEE doubles",
    "Python lists of length n+1 modelled as functions Nat -> value with point updates; float('inf') as Option.none",
    "degenerate inputs with no rows or no columns ([], [[]], [[],[]]): the code returns ([], 0.0); mirrored, "
    "not judged against '-1 for unassigned rows' (excluded region, counted as excluded_region_hits)",
]
RULE = ("random r x c matrices, r,c in 1..6 (1..9 in a third of the thorough cases), entries integers or dyadic "
        "rationals of both signs drawn from value families with heavy ties (0/1, tiny ranges, rank-one a_i+b_j, "
        "duplicated rows/columns, zeros, constants, large magnitudes), both senses, ints sent as int or float, "
        "plus 1 x n, n x 1, 1 x 1 and empty shapes; non-trivial = max(r,c) >= 3, some final potential non-zero and "
        "the mirror needed more while-iterations than rows (an alternating path through a matched column); "
        "distinct by canonical (matrix, sense)")
FN = "solve_hungarian"


# ---------------------------------------------------------------------------
# generator (every choice from ctx.rng)
# ---------------------------------------------------------------------------

def _val(rng, fam):
    """one entry as a Fraction"""
    if fam == "bin":
        return Fraction(rng.randint(0, 1))
    if fam == "tiny":
        return Fraction(rng.randint(-2, 2))
    if fam == "small":
        return Fraction(rng.randint(0, 9))
    if fam == "signed":
        return Fraction(rng.randint(-20, 20))
    if fam == "neg":
        return Fraction(-rng.randint(0, 12))
    if fam == "dyadic":
        return Fraction(rng.randint(-40, 40), 2 ** rng.randint(0, 4))
    if fam == "halves":
        return Fraction(rng.randint(-6, 6), 2)
    if fam == "big":
        return Fraction(rng.randint(-10 ** 6, 10 ** 6) * rng.choice([1, 1000, 10 ** 6]))
    if fam == "bigdy":
        return Fraction(rng.randint(-2 ** 30, 2 ** 30), 16)
    raise ValueError(fam)


FAMS = ["bin", "tiny", "small", "signed", "neg", "dyadic", "halves", "big", "bigdy"]


def gen_case(rng, big: bool):
    hi = 9 if big else 6
    shape = rng.random()
    if shape < 0.08:
        r, c = 1, rng.randint(1, hi)
    elif shape < 0.16:
        r, c = rng.randint(1, hi), 1
    elif shape < 0.5:
        r = c = rng.randint(2, hi)
    else:
        r, c = rng.randint(1, hi), rng.randint(1, hi)
    fam = rng.choice(FAMS)
    struct = rng.random()
    if struct < 0.12:      # rank one: every assignment of the square part ties
        a = [_val(rng, fam) for _ in range(r)]
        b = [_val(rng, fam) for _ in range(c)]
        m = [[a[i] + b[j] for j in range(c)] for i in range(r)]
        if rng.random() < 0.5:  # perturb one cell
            m[rng.randrange(r)][rng.randrange(c)] += _val(rng, "tiny")
    elif struct < 0.18:    # constant matrix
        x = _val(rng, fam)
        m = [[x] * c for _ in range(r)]
    else:
        m = [[_val(rng, fam) for _ in range(c)] for _ in range(r)]
    if rng.random() < 0.25:  # zeros sprinkled in
        for i in range(r):
            for j in range(c):
                if rng.random() < 0.3:
                    m[i][j] = Fraction(0)
    if r >= 2 and rng.random() < 0.2:   # duplicate row
        m[rng.randrange(r)] = list(m[rng.randrange(r)])
    if c >= 2 and rng.random() < 0.2:   # duplicate column
        a, b = rng.randrange(c), rng.randrange(c)
        for row in m:
            row[a] = row[b]
    if rng.random() < 0.1:  # a dominant diagonal of very cheap / very dear cells
        x = _val(rng, fam) * 3
        for i in range(min(r, c)):
            m[i][(i + 1) % c] = x
    return {"rows": [[core.rat(x) for x in row] for row in m], "minimize": rng.random() < 0.5,
            "as_int": rng.random() < 0.4}


def edge_cases():
    def mk(rows, mn=True, as_int=True):
        return {"rows": [[core.rat(x) for x in row] for row in rows], "minimize": mn, "as_int": as_int}
    for mn in (True, False):
        yield mk([], mn)
        yield mk([[]], mn)
        yield mk([[], []], mn)
        yield mk([[5]], mn)
        yield mk([[-5]], mn, False)
        yield mk([[0]], mn)
        yield mk([[3, 1, 2]], mn)
        yield mk([[3], [1], [2]], mn)
        yield mk([[-3], [-1], [-2]], mn)
        yield mk([[10, 5, 13], [3, 9, 18], [10, 6, 12]], mn)          # docstring example
        yield mk([[10, 5, 13], [3, 9, 18]], mn)
        yield mk([[0, 0], [0, 0]], mn)
        yield mk([[1, 1, 1], [1, 1, 1], [1, 1, 1], [1, 1, 1]], mn)
        yield mk([[-1, -2], [-3, -4], [-5, -6]], mn)                   # negative costs, padding 0 is *dearer*
        yield mk([[1, 2], [3, 4], [5, 6]], mn)                          # positive costs, padding 0 is cheaper
        yield mk([[-1, 2, -3, 4], [5, -6, 7, -8]], mn)
        yield mk([[Fraction(1, 2), Fraction(-3, 4)], [Fraction(5, 8), Fraction(-7, 16)]], mn, False)
        yield mk([[4, 1, 3], [2, 0, 5], [3, 2, 2]], mn)
        yield mk([[7, 7, 7, 1], [7, 7, 1, 7], [7, 1, 7, 7], [1, 7, 7, 7]], mn)
        yield mk([[1, 2, 3, 4, 5], [2, 3, 4, 5, 6], [3, 4, 5, 6, 7], [4, 5, 6, 7, 8], [5, 6, 7, 8, 9]], mn)


# ---------------------------------------------------------------------------
# implementation side (worker process)
# ---------------------------------------------------------------------------

def _matrix(case):
    out = []
    for row in case["rows"]:
        r = []
        for num, den in row:
            if den == 1 and case.get("as_int"):
                r.append(int(num))
            else:
                x = num / den
                assert Fraction(x) == Fraction(num, den), "generator produced a value that is not a double"
                r.append(x)
        out.append(r)
    return out


def _brute(case):
    """exact optimum over all matchings of size min(r, c) by enumeration (cross-check only)"""
    rows = case["rows"]
    r = len(rows)
    c = len(rows[0]) if rows else 0
    if r == 0 or c == 0:
        return None
    small, big_ = min(r, c), max(r, c)
    cnt = 1
    for t in range(small):
        cnt *= big_ - t
    if cnt > 41000:
        return None
    m = [[Fraction(a, b) * 16 for a, b in row] for row in rows]
    if any(x.denominator != 1 for row in m for x in row):
        return None
    mi = [[int(x) for x in row] for row in m]
    if r > c:  # transpose so that rows are the small side
        mi = [[mi[i][j] for i in range(r)] for j in range(c)]
    best = None
    mn = case["minimize"]
    rng_small = range(small)
    for perm in itertools.permutations(range(big_), small):
        s = 0
        for i in rng_small:
            s += mi[i][perm[i]]
        if best is None or (s < best if mn else s > best):
            best = s
    return core.rat(Fraction(best, 16))


def impl(case):
    from solvor.hungarian import solve_hungarian
    m = _matrix(case)
    m0 = copy.deepcopy(m)
    r1 = solve_hungarian(m, minimize=case["minimize"])
    unchanged = m == m0 and all(type(a) is type(b) for ra, rb in zip(m, m0) for a, b in zip(ra, rb))
    r2 = solve_hungarian(m, minimize=case["minimize"])

    def canon(r):
        sol = r.solution
        well_typed = isinstance(sol, list) and all(type(x) is int for x in sol)
        return {"assignment": [int(x) for x in sol] if well_typed else repr(sol), "well_typed": well_typed,
                "objective": core.rat(r.objective), "iterations": r.iterations, "evaluations": r.evaluations,
                "status": r.status.name}

    a, b = canon(r1), canon(r2)
    return {"res": a, "unchanged": unchanged, "same_again": a == b, "brute": _brute(case)}


def to_request(case, out):
    asg = None
    if out[0] == "ok" and out[1]["res"]["well_typed"]:
        asg = out[1]["res"]["assignment"]
    return ["case", case["rows"], bool(case["minimize"]), asg]


# ---------------------------------------------------------------------------
# comparison
# ---------------------------------------------------------------------------

def judge(ctx, case, out, reply):
    rows = case["rows"]
    r = len(rows)
    c = len(rows[0]) if rows else 0
    n = max(r, c)
    mn = bool(case["minimize"])
    sense = "min" if mn else "max"
    rep = {"case": case, "impl": out, "model": reply}
    (m_asg, m_obj, m_iters, m_evals, m_u, m_v, stuck, rect, chk_model, impl_valid, impl_chk, impl_obj) = reply
    if not rect:
        raise core.Infra("generator produced a ragged matrix")
    if stuck or (not chk_model and min(r, c) > 0):
        # contradicts the theorem `hungarian_certifies`; without a certificate nothing can be decided
        raise core.Infra(f"mirror produced no valid certificate on {case}")
    if min(r, c) > 0:
        ctx.count("cert_checked_model")
    ctx.count("sense:" + sense)
    ctx.count("shape:" + ("empty" if n == 0 or min(r, c) == 0 else "square" if r == c else "wide" if r < c else "tall"))
    ctx.count(f"n:{n}")
    if out[0] != "ok":
        ctx.fail(FN, "raises:" + err_kind(out), f"valid input raised/timed out: {out[1]}", rep)
        ctx.case([rows, mn], False)
        return
    o = out[1]
    res = o["res"]
    ctx.count("status:" + res["status"])
    if not o["unchanged"]:
        ctx.fail(FN, "input_modified", "the cost matrix passed in was modified", rep)
    if not o["same_again"]:
        ctx.fail(FN, "nondeterministic", "second call on the same input gave a different answer", rep)
    m_objf = core.unrat(m_obj)
    obj = core.unrat(res["objective"])
    if o["brute"] is not None:
        ctx.count("brute_cross_checked")
        if core.unrat(o["brute"]) != m_objf:
            raise core.Infra(f"certified optimum {m_objf} differs from brute force {core.unrat(o['brute'])} on {case}")

    if not res["well_typed"]:
        ctx.fail(FN, "assignment_not_int_list", f"assignment is not a list of ints: {res['assignment']}", rep)
        ctx.case([rows, mn], False)
        return
    asg = res["assignment"]
    if min(r, c) == 0:
        # excluded region: no rows or no columns.  Pinned only: nothing assigned, objective 0.
        ctx.count("excluded_region_hits")
        if any(a != -1 for a in asg) or len(asg) not in (0, r):
            ctx.fail(FN, "empty_matrix_assigns", f"assignment {asg} for a matrix without cells", rep)
        if obj != 0:
            ctx.fail(FN, "objective_not_sum", f"objective {obj} for a matrix without cells", rep)
        if asg != m_asg:
            ctx.tdiv(FN, {"case": case, "impl": res, "mirror": {"assignment": m_asg}})
        else:
            ctx.count("r_trace_agree")
        ctx.case([rows, mn], False)
        return

    ctx.count("cert_checked_impl")
    ok = True
    if not impl_valid:
        ok = False
        if len(asg) != r:
            k = "wrong_length"
        elif any(not (a == -1 or 0 <= a < c) for a in asg):
            k = "entry_out_of_range"
        elif len([a for a in asg if a != -1]) != len({a for a in asg if a != -1}):
            k = "column_used_twice"
        else:
            k = "wrong_number_of_pairs"
        ctx.fail(FN, "not_a_matching:" + k,
                 f"assignment {asg} is not a matching of size min({r},{c}) (verified checker validAsgB: {k})", rep)
    else:
        if obj != core.unrat(impl_obj):
            ok = False
            ctx.fail(FN, "objective_not_sum",
                     f"objective {obj} is not the sum {core.unrat(impl_obj)} of the chosen entries", rep)
        if not impl_chk:
            ok = False
            ctx.fail(FN, "not_optimal:" + sense,
                     f"assignment {asg} has total {core.unrat(impl_obj)}, the certified optimum is {m_objf} "
                     f"(verified checker chkAssignment rejects it against the mirror's potentials)", rep)
        elif core.unrat(impl_obj) != m_objf:
            raise core.Infra(f"two certified optima differ: {impl_obj} vs {m_obj} on {case}")
    if ok:
        ctx.count("r_prop_agree")
    # R_trace: the particular optimal assignment (ties!) is pinned only here
    if asg != m_asg:
        ctx.tdiv(FN, {"case": case, "impl": res, "mirror": {"assignment": m_asg, "objective": m_obj}})
    else:
        ctx.count("r_trace_agree")
    # counters are not part of any relation; recorded for information only
    if (res["iterations"], res["evaluations"]) == (m_iters, m_evals):
        ctx.count("counters_agree")
    else:
        ctx.count("counters_differ")
    nonzero_pot = any(core.unrat(x) != 0 for x in m_u + m_v)
    nontrivial = n >= 3 and nonzero_pot and m_iters > n
    if m_iters > n:
        ctx.count("rerouted")
    if nonzero_pot:
        ctx.count("nonzero_potentials")
    ctx.case([rows, mn], nontrivial,
             {"case": case, "impl": res, "mirror_assignment": m_asg, "certified_optimum": m_obj,
              "potentials": [m_u, m_v]})


def run_cases(ctx, cases):
    outs = run_pool(impl, cases, timeout=60.0)
    reqs = [to_request(c, o) for c, o in zip(cases, outs)]
    replies = Driver("Assign").run(reqs, chunks=8)
    for c, o, rp in zip(cases, outs, replies):
        if rp and rp[0] == "error":
            raise core.Infra(f"model rejected request: {rp}")
        judge(ctx, c, o, rp)
    h = ctx.cov["histogram"]
    for k in ("cert_checked_model", "cert_checked_impl", "r_prop_agree", "r_trace_agree", "excluded_region_hits"):
        ctx.cov[k] = h.get(k, 0)


def run(ctx, budget):
    ctx.cov["rule"] = RULE
    ctx.cov["missing_theorems"] = MISSING
    note = ("excluded region: for a matrix with rows but no columns ([[]], [[], []]) solve_hungarian returns "
            "assignment [] (not [-1] * rows) and objective 0.0; mirrored (hungarian_empty), not judged")
    if note not in ctx.notes:
        ctx.notes.append(note)
    cases = list(edge_cases()) + [c["case"] for c in core.load_corpus("C10")]
    n = 6000 * budget
    cases += [gen_case(ctx.rng, big=(ctx.tier == "thorough" and i % 3 == 0)) for i in range(n)]
    run_cases(ctx, cases)


def replay(ctx, body):
    ctx.cov["rule"] = RULE
    run_cases(ctx, [body["case"]])


MISSING = []   # hungarian_certifies ([S]) is proved: every [C] and [S] theorem of DESIGN §4 C10 is discharged
