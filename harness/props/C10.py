"""C10 — Hungarian assignment (solvor/hungarian.py) against the certifying mirror (Solvor/Assign).

A *case* is a HISTORY: 1–4 consecutive calls of solve_hungarian inside one worker process, on related
inputs (the same matrix object minimised then maximised, the same input twice, new content written in
place into the same list objects, a different shape, an equal but freshly built matrix), each input
PRESENTED in one of the forms the annotated contract `Sequence[Sequence[float]]` allows (outer list or
tuple; rows lists, tuples or mixed; equal rows aliased to one object; entries int, float or mixed).
Every call is one judged *unit*: the matrix is snapshotted (exact rationals) right before the call and
that snapshot is what the Lean driver receives, so each result is judged on its own actual input.

Per unit the Lean driver returns the mirror's assignment and potentials of the padded square, the
verdict of the verified checker `chkAssignment` on the mirror's own answer, and the verdict of the
same checker on the IMPLEMENTATION's assignment (with the mirror's potentials).  By
`chkAssignment_sound` a `true` verdict is a proof, for that input, that the assignment is a matching
of size min(rows, cols) of optimal total cost.  A brute-force enumeration (Python, small sizes) is a
cross-check of the framework only; it never decides.  A failing unit is re-run alone in a fresh
process; if it passes there the class gets the suffix `:after_previous_call`.
"""
from __future__ import annotations

import itertools
from fractions import Fraction

import core
from core import Driver
from pool import err_kind, run_pool

AREAS = ["Assign"]
LEVEL = "proof"
ASSUMPTIONS = [
    "solve_hungarian's float arithmetic modelled over Rat: the generator draws integers and dyadic rationals "
    "with 4 * n^2 * max|entry| / (common denominator) < 2^53 (checked per matrix), on which every +, -, "
    "comparison of the code is exact in IEEE doubles",
    "Python lists of length n+1 modelled as functions Nat -> value with point updates; float('inf') as Option.none",
    "degenerate inputs with no rows or no columns ([], [[]], [[],[]]): the code returns ([], 0.0); mirrored, "
    "not judged against '-1 for unassigned rows' (excluded region, counted as excluded_region_hits)",
]
RULE = ("histories of 1-4 consecutive solve_hungarian calls per worker call (same object min then max, same input "
        "twice, content rewritten in place, other shape, equal fresh matrix), each matrix presented as list/tuple "
        "outer, list/tuple/mixed rows, equal rows aliased, entries int/float/mixed; matrices r x c with r,c in 1..6 "
        "(1..9 in a third of the thorough cases) plus a fixed share of 15..30 per side, entries integers or dyadic "
        "rationals of both signs from value families with heavy ties (0/1, tiny ranges, rank-one a_i+b_j, duplicated "
        "rows/columns, zeros, constants), large magnitudes (1e6..1e13) and near-ties at relative 1e-9 (1e13 + small, "
        "1 + k/2^30, k/2^30), both senses, plus 1 x n, n x 1, 1 x 1 and empty shapes; every call is one evaluation; "
        "non-trivial = max(r,c) >= 3, some final potential non-zero and the mirror needed more while-iterations "
        "than rows (an alternating path through a matched column); distinct by canonical (matrix, sense)")
FN = "solve_hungarian"
MISSING = []   # hungarian_certifies ([S]) is proved: every [C] and [S] theorem of DESIGN §4 C10 is discharged


# ---------------------------------------------------------------------------
# generator (every choice from ctx.rng)
# ---------------------------------------------------------------------------

def _val(rng, fam, base=0):
    """one entry as a Fraction"""
    if fam == "bin":
        return Fraction(rng.randint(0, 1))
    if fam == "tiny":
        return Fraction(rng.randint(-2, 2))
    if fam == "small":
        return Fraction(rng.randint(0, 9))
    if fam == "signed":
        return Fraction(rng.randint(-20, 20))
    if fam == "neg":
        return Fraction(-rng.randint(0, 12))
    if fam == "dyadic":
        return Fraction(rng.randint(-40, 40), 2 ** rng.randint(0, 4))
    if fam == "halves":
        return Fraction(rng.randint(-6, 6), 2)
    if fam == "big":
        return Fraction(rng.randint(-10 ** 6, 10 ** 6) * rng.choice([1, 1000, 10 ** 6]))
    if fam == "bigdy":
        return Fraction(rng.randint(-2 ** 30, 2 ** 30), 16)
    if fam == "huge":            # magnitudes around 1e13 (1e12 for the large matrices)
        return Fraction(rng.randint(-base, base))
    if fam == "nearint":         # near-ties at relative 1e-9 of a large integer
        return Fraction(base + rng.randint(-(abs(base) // 10 ** 9), abs(base) // 10 ** 9) * rng.choice([1, 1, 2]))
    if fam == "neardy":          # 1 + k/2^30: near-ties at relative 1e-9
        return 1 + Fraction(rng.randint(-3, 3), 2 ** 30)
    if fam == "tinyabs":         # k/2^30: differences below 1e-9 in absolute terms
        return Fraction(rng.randint(-4, 4), 2 ** 30)
    raise ValueError(fam)


FAMS = ["bin", "tiny", "small", "signed", "neg", "dyadic", "halves", "big", "bigdy",
        "huge", "nearint", "neardy", "tinyabs"]
LARGE_FAMS = ["bin", "tiny", "small", "signed", "dyadic", "big", "huge", "nearint", "neardy", "tinyabs"]


def _exact_safe(m):
    """every intermediate value of the algorithm is an integer combination of entries bounded by a small
    multiple of n * max|entry|; demand a wide margin below 2^53 units of the common denominator"""
    if not m or not m[0]:
        return True
    n = max(len(m), len(m[0]))
    q = max(x.denominator for row in m for x in row)
    if q & (q - 1):
        return False
    mx = max(abs(x) for row in m for x in row)
    return 4 * n * n * mx * q < 2 ** 53 and all((x * q).denominator == 1 for row in m for x in row)


def gen_matrix(rng, r, c, fams=FAMS, large=False):
    """r x c matrix of Fractions with structure (ties, rank one, duplicates, zeros)"""
    while True:
        fam = rng.choice(fams)
        base = (10 ** 12 if large else 10 ** 13) * rng.choice([1, 1, -1] if fam == "nearint" else [1])
        val = lambda f=fam: _val(rng, f, abs(base) if f == "huge" else base)  # noqa: E731
        struct = rng.random()
        if struct < 0.12 and fam not in ("nearint", "huge"):   # rank one: every assignment of the square part ties
            a = [val() for _ in range(r)]
            b = [val() for _ in range(c)]
            m = [[a[i] + b[j] for j in range(c)] for i in range(r)]
            if rng.random() < 0.5:  # perturb one cell
                m[rng.randrange(r)][rng.randrange(c)] += _val(rng, "tinyabs" if fam in ("neardy", "tinyabs") else "tiny")
        elif struct < 0.18:    # constant matrix
            x = val()
            m = [[x] * c for _ in range(r)]
        elif struct < 0.26 and large:   # band: cheap cells next to the diagonal, long alternating paths
            m = [[val() + (0 if (j - i) % c in (0, 1) else 50) for j in range(c)] for i in range(r)]
        else:
            m = [[val() for _ in range(c)] for _ in range(r)]
        if rng.random() < 0.25:  # zeros sprinkled in
            for i in range(r):
                for j in range(c):
                    if rng.random() < 0.3:
                        m[i][j] = Fraction(0)
        if r >= 2 and rng.random() < 0.3:   # duplicate rows (aliasing candidates)
            for _ in range(rng.randint(1, 2)):
                m[rng.randrange(r)] = list(m[rng.randrange(r)])
        if c >= 2 and rng.random() < 0.2:   # duplicate column
            a, b = rng.randrange(c), rng.randrange(c)
            for row in m:
                row[a] = row[b]
        if rng.random() < 0.1 and fam not in ("nearint", "huge"):  # a diagonal of very cheap / very dear cells
            x = val() * 3
            for i in range(min(r, c)):
                m[i][(i + 1) % c] = x
        if _exact_safe(m):
            return m, fam


def _style(rng):
    return {"num": rng.choice(["int", "float", "mixed"]), "mix_seed": rng.randrange(1 << 30),
            "outer": rng.choice(["list", "list", "tuple"]),
            "rowstyle": rng.choice(["list", "list", "tuple", "mixed"]), "alias": rng.random() < 0.5}


def _step(rng, m, minimize, reuse="new", style=None):
    st = dict(style) if style else _style(rng)
    st.update({"rows": [[core.rat(x) for x in row] for row in m], "minimize": bool(minimize), "reuse": reuse})
    return st


def _shape(rng, hi):
    s = rng.random()
    if s < 0.08:
        return 1, rng.randint(1, hi)
    if s < 0.16:
        return rng.randint(1, hi), 1
    if s < 0.5:
        k = rng.randint(2, hi)
        return k, k
    return rng.randint(1, hi), rng.randint(1, hi)


def gen_history(rng, big: bool, large: bool = False):
    hi = 9 if big else 6
    if large:
        r = rng.randint(15, 30)
        c = r if rng.random() < 0.5 else rng.randint(15, 30)
        fams = LARGE_FAMS
    else:
        r, c = _shape(rng, hi)
        fams = FAMS
    m, fam = gen_matrix(rng, r, c, fams, large)
    mn = rng.random() < 0.5
    steps = [_step(rng, m, mn)]
    kinds = []
    extra = 0 if rng.random() < 0.35 else rng.choice([1, 1, 1, 2, 2, 3])
    if large:
        extra = min(extra, 1)
    for _ in range(extra):
        prev = steps[-1]
        kind = rng.choice(["same_flip", "same_flip", "same_again", "inplace", "new_shape", "fresh_equal_flip"])
        if kind == "same_flip":        # the very same object, other sense
            steps.append(dict(prev, minimize=not prev["minimize"], reuse="same"))
        elif kind == "same_again":     # the very same object, same sense
            steps.append(dict(prev, reuse="same"))
        elif kind == "inplace":        # same list objects, new content of the same shape
            pr, pc = len(prev["rows"]), len(prev["rows"][0]) if prev["rows"] else 0
            m2, _ = gen_matrix(rng, pr, pc, fams, large)
            st = {k: prev[k] for k in ("num", "mix_seed", "outer", "rowstyle", "alias")}
            steps.append(_step(rng, m2, rng.random() < 0.5, "inplace", st))
        elif kind == "new_shape":      # narrow -> wide, wide -> narrow, transposed, smaller, larger
            pr, pc = len(prev["rows"]), len(prev["rows"][0]) if prev["rows"] else 0
            if large:
                r2, c2 = pc, pr
            else:
                r2, c2 = rng.choice([(pc, pr), _shape(rng, hi), (max(1, pr - 1), pc + 1), (pr + 1, max(1, pc - 1))])
            m2, _ = gen_matrix(rng, max(1, r2), max(1, c2), fams, large)
            steps.append(_step(rng, m2, rng.random() < 0.5))
        else:                          # equal content, freshly built with another presentation, other sense
            st = _step(rng, [], not prev["minimize"])
            st["rows"] = prev["rows"]
            steps.append(st)
        kinds.append(kind)
    return {"steps": steps, "kinds": kinds, "fam": fam, "large": large}


def edge_histories():
    def mk(rows, mn=True, num="int", outer="list", rowstyle="list"):
        return {"steps": [{"rows": [[core.rat(x) for x in row] for row in rows], "minimize": mn, "reuse": "new",
                           "num": num, "mix_seed": 7, "outer": outer, "rowstyle": rowstyle, "alias": True}],
                "kinds": [], "fam": "edge", "large": False}
    for mn in (True, False):
        yield mk([], mn)
        yield mk([], mn, outer="tuple")
        yield mk([[]], mn)
        yield mk([[]], mn, outer="tuple", rowstyle="tuple")
        yield mk([[], []], mn)
        yield mk([[5]], mn)
        yield mk([[-5]], mn, "float")
        yield mk([[0]], mn)
        yield mk([[3, 1, 2]], mn, "mixed", "tuple", "tuple")
        yield mk([[3], [1], [2]], mn)
        yield mk([[-3], [-1], [-2]], mn)
        yield mk([[10, 5, 13], [3, 9, 18], [10, 6, 12]], mn)          # docstring example
        yield mk([[10, 5, 13], [3, 9, 18]], mn)
        yield mk([[0, 0], [0, 0]], mn)
        yield mk([[1, 1, 1], [1, 1, 1], [1, 1, 1], [1, 1, 1]], mn)     # four aliased rows
        yield mk([[-1, -2], [-3, -4], [-5, -6]], mn)                   # negative costs, padding 0 is *dearer*
        yield mk([[1, 2], [3, 4], [5, 6]], mn)                          # positive costs, padding 0 is cheaper
        yield mk([[-1, 2, -3, 4], [5, -6, 7, -8]], mn)
        yield mk([[Fraction(1, 2), Fraction(-3, 4)], [Fraction(5, 8), Fraction(-7, 16)]], mn, "float")
        yield mk([[4, 1, 3], [2, 0, 5], [3, 2, 2]], mn)
        yield mk([[7, 7, 7, 1], [7, 7, 1, 7], [7, 1, 7, 7], [1, 7, 7, 7]], mn)
        yield mk([[1, 2, 3, 4, 5], [2, 3, 4, 5, 6], [3, 4, 5, 6, 7], [4, 5, 6, 7, 8], [5, 6, 7, 8, 9]], mn)
        yield mk([[10 ** 13, 10 ** 13 + 10 ** 4], [10 ** 13 + 10 ** 4, 10 ** 13 + 3 * 10 ** 4]], mn, "float")
        yield mk([[1, 1 + Fraction(1, 2 ** 30)], [1 + Fraction(1, 2 ** 30), 1 + Fraction(3, 2 ** 30)]], mn, "float")
    # the docstring matrix minimised, then maximised, then minimised again on the same object
    h = mk([[10, 5, 13], [3, 9, 18], [10, 6, 12]], True)
    s0 = h["steps"][0]
    h["steps"] += [dict(s0, minimize=False, reuse="same"), dict(s0, reuse="same")]
    h["kinds"] = ["same_flip", "same_flip"]
    yield h


# ---------------------------------------------------------------------------
# implementation side (worker process)
# ---------------------------------------------------------------------------

def _build(step):
    """the Python object passed as cost_matrix, built from the presentation recipe"""
    import random
    mix = random.Random(step.get("mix_seed", 0))
    num = step.get("num", "float")
    rows = []
    for row in step["rows"]:
        r = []
        for a, b in row:
            f = Fraction(a, b)
            as_int = f.denominator == 1 and (num == "int" or (num == "mixed" and mix.random() < 0.5))
            if as_int:
                r.append(int(f))
            else:
                x = f.numerator / f.denominator
                assert Fraction(x) == f, "generator produced a value that is not a double"
                r.append(x)
        rows.append(r)
    rowstyle = step.get("rowstyle", "list")
    out, seen = [], []
    for i, r in enumerate(rows):
        as_tuple = rowstyle == "tuple" or (rowstyle == "mixed" and mix.random() < 0.5)
        obj = None
        if step.get("alias"):
            for vals, o in seen:   # an equal row built earlier: present the SAME object again
                if vals == r and all(type(x) is type(y) for x, y in zip(vals, r)):
                    obj = o
                    break
        if obj is None:
            obj = tuple(r) if as_tuple else list(r)
            seen.append((r, obj))
        out.append(obj)
    return tuple(out) if step.get("outer") == "tuple" else out


def _snapshot(obj):
    return [[core.rat(x) for x in row] for row in obj]


def _brute(rows, mn, limit):
    """exact optimum over all matchings of size min(r, c) by enumeration (cross-check only)"""
    r = len(rows)
    c = len(rows[0]) if rows else 0
    if r == 0 or c == 0:
        return None
    small, big_ = min(r, c), max(r, c)
    cnt = 1
    for t in range(small):
        cnt *= big_ - t
        if cnt > limit:
            return None
    q = max(b for row in rows for _, b in row)
    mi = [[a * (q // b) for a, b in row] for row in rows]
    if any(q % b for row in rows for _, b in row):
        return None
    if r > c:  # transpose so that rows are the small side
        mi = [[mi[i][j] for i in range(r)] for j in range(c)]
    best = None
    rng_small = range(small)
    for perm in itertools.permutations(range(big_), small):
        s = 0
        for i in rng_small:
            s += mi[i][perm[i]]
        if best is None or (s < best if mn else s > best):
            best = s
    return core.rat(Fraction(best, q))


def impl(case):
    from solvor.hungarian import solve_hungarian
    obj = None
    units = []
    for k, step in enumerate(case["steps"]):
        reuse = step.get("reuse", "new")
        if reuse == "same" and obj is not None:
            pass
        elif (reuse == "inplace" and isinstance(obj, list) and len(obj) == len(step["rows"])
              and all(isinstance(r, list) for r in obj)):
            fresh = _build(dict(step, alias=False, outer="list", rowstyle="list"))
            done = set()
            for r_old, r_new in zip(obj, fresh):
                if id(r_old) in done:      # aliased row object: written once (last writer would win anyway)
                    continue
                done.add(id(r_old))
                r_old[:] = r_new
        else:
            obj = _build(step)
        try:
            snap = _snapshot(obj)
        except (ValueError, OverflowError, TypeError) as e:   # an earlier call left non-finite junk in the input
            units.append({"snap": None, "err": f"snapshot failed: {e}"})
            obj = None
            continue
        mn = bool(step["minimize"])
        u = {"snap": snap, "minimize": mn, "style": [step.get("outer"), step.get("rowstyle"), step.get("num"),
                                                      bool(step.get("alias")), reuse]}
        try:
            r = solve_hungarian(obj, minimize=mn)
        except BaseException as e:  # noqa: BLE001 - the error kind is an observable
            u["err"] = f"{type(e).__name__}: {e}"[:300]
            units.append(u)
            continue
        sol = r.solution
        well_typed = isinstance(sol, list) and all(type(x) is int for x in sol)
        try:
            objective = core.rat(r.objective)
        except (ValueError, OverflowError, TypeError):
            objective = None
        u["res"] = {"assignment": [int(x) for x in sol] if well_typed else repr(sol), "well_typed": well_typed,
                    "objective": objective, "objective_repr": repr(r.objective), "iterations": r.iterations,
                    "evaluations": r.evaluations, "status": r.status.name}
        try:
            u["modified"] = _snapshot(obj) != snap
        except (ValueError, OverflowError, TypeError):
            u["modified"] = True
        u["brute"] = _brute(snap, mn, 41000 if k == 0 else 6000)
        units.append(u)
    return units


def to_request(unit):
    asg = None
    if "res" in unit and unit["res"]["well_typed"]:
        asg = unit["res"]["assignment"]
    return ["case", unit["snap"], bool(unit["minimize"]), asg]


# ---------------------------------------------------------------------------
# comparison
# ---------------------------------------------------------------------------

def verdict(unit, reply):
    """R_prop / R_trace of one unit: (failures [(klass, what)], trace_divergence or None, info dict)."""
    rows = unit["snap"]
    r = len(rows)
    c = len(rows[0]) if rows else 0
    n = max(r, c)
    mn = bool(unit["minimize"])
    sense = "min" if mn else "max"
    (m_asg, m_obj, m_iters, m_evals, m_u, m_v, stuck, rect, chk_model, impl_valid, impl_chk, impl_obj) = reply
    if not rect:
        raise core.Infra(f"ragged matrix reached the model: {rows}")
    if stuck or (not chk_model and min(r, c) > 0):
        # contradicts the theorem `hungarian_certifies`; without a certificate nothing can be decided
        raise core.Infra(f"mirror produced no valid certificate on {rows} minimize={mn}")
    info = {"r": r, "c": c, "n": n, "sense": sense, "m_iters": m_iters,
            "nonzero_pot": any(core.unrat(x) != 0 for x in m_u + m_v), "trace_ok": None, "counters": None}
    fails = []
    if "err" in unit:
        kind = unit["err"].split(":", 1)[0]
        fails.append(("raises:" + kind, f"valid input raised: {unit['err']}"))
        return fails, None, info
    res = unit["res"]
    m_objf = core.unrat(m_obj)
    if unit.get("brute") is not None and core.unrat(unit["brute"]) != m_objf:
        raise core.Infra(f"certified optimum {m_objf} differs from brute force {core.unrat(unit['brute'])} on {rows}")
    if not res["well_typed"]:
        fails.append(("assignment_not_int_list", f"assignment is not a list of ints: {res['assignment']}"))
        return fails, None, info
    asg = res["assignment"]
    obj = core.unrat(res["objective"]) if res["objective"] is not None else None
    if min(r, c) == 0:
        # excluded region: no rows or no columns.  Pinned only: nothing assigned, objective 0.
        info["excluded"] = True
        if any(a != -1 for a in asg) or len(asg) not in (0, r):
            fails.append(("empty_matrix_assigns", f"assignment {asg} for a matrix without cells"))
        if obj != 0:
            fails.append(("objective_not_sum", f"objective {res['objective_repr']} for a matrix without cells"))
        tdiv = None if asg == m_asg else {"impl": res, "mirror": {"assignment": m_asg}}
        info["trace_ok"] = tdiv is None
        return fails, tdiv, info
    if not impl_valid:
        if len(asg) != r:
            k = "wrong_length"
        elif any(not (a == -1 or 0 <= a < c) for a in asg):
            k = "entry_out_of_range"
        elif len([a for a in asg if a != -1]) != len({a for a in asg if a != -1}):
            k = "column_used_twice"
        else:
            k = "wrong_number_of_pairs"
        fails.append(("not_a_matching:" + k,
                      f"assignment {asg} is not a matching of size min({r},{c}) (verified checker validAsgB: {k})"))
    else:
        if obj != core.unrat(impl_obj):
            fails.append(("objective_not_sum", f"objective {res['objective_repr']} is not the sum "
                          f"{core.unrat(impl_obj)} of the chosen entries"))
        if not impl_chk:
            fails.append(("not_optimal:" + sense,
                          f"assignment {asg} has total {core.unrat(impl_obj)}, the certified optimum is {m_objf} "
                          f"(verified checker chkAssignment rejects it against the mirror's potentials)"))
        elif core.unrat(impl_obj) != m_objf:
            raise core.Infra(f"two certified optima differ: {impl_obj} vs {m_obj} on {rows}")
    # R_trace: the particular optimal assignment (ties!) is pinned only here
    tdiv = None if asg == m_asg else {"impl": res, "mirror": {"assignment": m_asg, "objective": m_obj}}
    info["trace_ok"] = tdiv is None
    info["counters"] = (res["iterations"], res["evaluations"]) == (m_iters, m_evals)
    info["sample"] = {"impl": res, "mirror_assignment": m_asg, "certified_optimum": m_obj,
                      "potentials": [m_u, m_v] if n <= 6 else "omitted"}
    return fails, tdiv, info


def _alone(unit):
    """does the same input, presented the same way, pass when it is the only call of a fresh process?"""
    outer, rowstyle, num, alias, _ = unit["style"]
    single = {"steps": [{"rows": unit["snap"], "minimize": unit["minimize"], "reuse": "new", "num": num,
                         "mix_seed": 0, "outer": outer, "rowstyle": rowstyle, "alias": alias}]}
    out = run_pool(impl, [single], timeout=120.0, procs=1)[0]
    if out[0] != "ok" or not out[1] or out[1][0].get("snap") is None:
        return False
    u = out[1][0]
    reply = Driver("Assign").run([to_request(u)])[0]
    if reply and reply[0] == "error":
        return False
    fails, _, _ = verdict(u, reply)
    return not fails


_PROBES = {"left": 40, "memo": {}}


def _suffix(ctx, unit, fails):
    """`:after_previous_call` iff the unit passes alone in a fresh process.  At most 40 fresh-process probes per
    run; afterwards the verdict already seen for the same failure class is reused."""
    key = fails[0][0]
    if _PROBES["left"] > 0:
        _PROBES["left"] -= 1
        ctx.count("fresh_process_probes")
        _PROBES["memo"][key] = ":after_previous_call" if _alone(unit) else ""
    return _PROBES["memo"].get(key, "")


def judge_history(ctx, case, out, units, replies):
    ctx.count(f"history:len:{len(case['steps'])}")
    for k in case.get("kinds", []):
        ctx.count("history:kind:" + k)
    ctx.count("fam:" + str(case.get("fam")))
    if case.get("large"):
        ctx.count("large_history")
    if out[0] != "ok":
        ctx.fail(FN, "raises:" + err_kind(out), f"a history of valid calls raised/timed out as a whole: {out[1]}",
                 {"case": case, "impl": out})
        return
    for idx, (unit, reply) in enumerate(zip(units, replies)):
        if unit.get("snap") is None:   # an earlier call corrupted the shared input beyond representation
            ctx.fail(FN, "input_corrupted_by_previous_call", unit["err"], {"case": case, "unit": idx, "impl": units})
            continue
        fails, tdiv, info = verdict(unit, reply)
        rep = {"case": case, "unit": idx, "impl": units, "model": reply}
        outer, rowstyle, num, alias, reuse = unit["style"]
        n, r, c = info["n"], info["r"], info["c"]
        ctx.count("sense:" + info["sense"])
        ctx.count("shape:" + ("empty" if min(r, c) == 0 else "square" if r == c else "wide" if r < c else "tall"))
        ctx.count(f"n:{n}" if n <= 9 else "n:15-30" if n >= 15 else f"n:{n}")
        ctx.count("style:outer:" + str(outer))
        ctx.count("style:rows:" + str(rowstyle))
        ctx.count("style:num:" + str(num))
        ctx.count("style:reuse:" + str(reuse))
        if alias and len({tuple(map(tuple, row)) for row in unit["snap"]}) < len(unit["snap"]):
            ctx.count("style:aliased_equal_rows")
        if n >= 15:
            ctx.count("large_units")
        if unit.get("modified"):
            ctx.count("input_modified_by_call")       # information only: not a clause of C10
        if "res" in unit:
            ctx.count("status:" + unit["res"]["status"])
        if unit.get("brute") is not None:
            ctx.count("brute_cross_checked")
        if min(r, c) > 0:
            ctx.count("cert_checked_model")
            if "res" in unit and unit["res"]["well_typed"]:
                ctx.count("cert_checked_impl")
        if info.get("excluded"):
            ctx.count("excluded_region_hits")
        if fails:
            suffix = _suffix(ctx, unit, fails)
            for klass, what in fails:
                ctx.fail(FN, klass + suffix, what + (" [passes when run alone in a fresh process]" if suffix else ""), rep)
        else:
            ctx.count("r_prop_agree")
        if tdiv is not None and not fails:
            ctx.tdiv(FN, {"case": case, "unit": idx, **tdiv})
        elif info["trace_ok"]:
            ctx.count("r_trace_agree")
        if info["counters"] is not None:   # counters are not part of any relation; recorded for information only
            ctx.count("counters_agree" if info["counters"] else "counters_differ")
        if info["m_iters"] > n:
            ctx.count("rerouted")
        if info["nonzero_pot"]:
            ctx.count("nonzero_potentials")
        nontrivial = n >= 3 and info["nonzero_pot"] and info["m_iters"] > n and not fails
        sample = None
        if n <= 6 and "sample" in info:
            sample = {"rows": unit["snap"], "minimize": unit["minimize"], "presentation": unit["style"], **info["sample"]}
        ctx.case([unit["snap"], unit["minimize"]], nontrivial, sample)


def _run_impl(ctx, cases):
    """the histories of one chunk through the worker pool; a timeout is re-run once alone (DESIGN §2.4) before it
    counts.  Returns (outcomes, confirmed timeouts)."""
    outs = run_pool(impl, cases, timeout=20.0)
    slow = [i for i, o in enumerate(outs) if o[0] == "timeout"]
    confirmed = 0
    if slow:
        again = slow[:8]
        redo = run_pool(impl, [cases[i] for i in again], timeout=60.0, procs=len(again))
        for i, o in zip(again, redo):
            outs[i] = o
            if o[0] == "timeout":
                confirmed += 1
            else:
                ctx.count("timeouts_not_reproduced")
        for i in slow[8:]:
            ctx.count("timeouts_not_rerun")
            outs[i] = None
    return outs, confirmed


def _judge_chunk(ctx, cases, outs):
    keep = [(c, o) for c, o in zip(cases, outs) if o is not None]
    reqs, spans = [], []
    for _, o in keep:
        units = o[1] if o[0] == "ok" else []
        spans.append((len(reqs), units))
        reqs += [to_request(u) for u in units if u.get("snap") is not None]
    replies = Driver("Assign").run(reqs, chunks=8)
    for rp in replies:
        if rp and rp[0] == "error":
            raise core.Infra(f"model rejected request: {rp}")
    for (c, o), (start, units) in zip(keep, spans):
        reps, k = [], start
        for u in units:
            if u.get("snap") is None:
                reps.append(None)
            else:
                reps.append(replies[k])
                k += 1
        judge_history(ctx, c, o, units, reps)


def run_cases(ctx, cases, first_chunk=None):
    """chunked so that an implementation that stops returning is reported after the first (small) chunk instead
    of spending the whole budget on timeouts"""
    sizes = ([first_chunk] if first_chunk else []) + [4000] * (len(cases) // 4000 + 1)
    pos = confirmed = 0
    for size in sizes:
        chunk = cases[pos:pos + size]
        pos += size
        if not chunk:
            break
        outs, conf = _run_impl(ctx, chunk)
        confirmed += conf
        _judge_chunk(ctx, chunk, outs)
        if confirmed >= 4 and pos < len(cases):
            ctx.notes.append(f"stopped after {pos} of {len(cases)} histories: {confirmed} calls did not return "
                             "within 20 s and again not within 60 s when re-run alone")
            break
    h = ctx.cov["histogram"]
    for k in ("cert_checked_model", "cert_checked_impl", "r_prop_agree", "r_trace_agree", "excluded_region_hits"):
        ctx.cov[k] = h.get(k, 0)
    ctx.cov["timeouts"] = h.get("known_finding:solve_hungarian:raises:Timeout", 0) + confirmed


def _as_history(case):
    """corpus / old replay files hold a single matrix: {"rows", "minimize", "as_int"}"""
    if "steps" in case:
        return case
    return {"steps": [{"rows": case["rows"], "minimize": case["minimize"], "reuse": "new",
                       "num": "int" if case.get("as_int") else "float", "mix_seed": 0, "outer": "list",
                       "rowstyle": "list", "alias": False}], "kinds": [], "fam": "corpus", "large": False}


def run(ctx, budget):
    ctx.cov["rule"] = RULE
    ctx.cov["missing_theorems"] = MISSING
    note = ("excluded region: for a matrix with rows but no columns ([[]], [[], []]) solve_hungarian returns "
            "assignment [] (not [-1] * rows) and objective 0.0; mirrored (hungarian_empty), not judged")
    if note not in ctx.notes:
        ctx.notes.append(note)
    cases = list(edge_histories()) + [_as_history(c["case"]) for c in core.load_corpus("C10")]
    smoke = len(cases)
    n = 2500 * budget
    cases += [gen_history(ctx.rng, big=(ctx.tier == "thorough" and i % 3 == 0)) for i in range(n)]
    cases += [gen_history(ctx.rng, big=False, large=True) for _ in range(24 * budget)]   # fixed share: 15..30 per side
    run_cases(ctx, cases, first_chunk=smoke)


def replay(ctx, body):
    ctx.cov["rule"] = RULE
    run_cases(ctx, [_as_history(body["case"])])
