"""C05 — CP Model.solve never returns an assignment that breaks an added constraint
(solvor/cp.py, cp_encoder.py) against the spec `Cp.Sem` (verified evaluator / exhaustive enumerator)."""
from __future__ import annotations

import json

import core
from pool import err_kind, run_pool

from props import cp_common as K

AREAS = ["Cp"]
LEVEL = "proof"
ASSUMPTIONS = [
    "the executable DFS mirror (Solvor/Cp/Prop.lean) tries values in ascending order; CPython's set iteration "
    "order is not reproduced, so only order-independent observables are compared (solution *sets*, feasibility); "
    "the DFS theorems hold for every variable selection / value order (dfs_returns_solutions, dfs_complete, "
    "dfs_order_independent), so they do not depend on it",
    "unnamed variables (int_var without a name, hidden from results) are generated; for them the returned values "
    "must extend to a solution (verified enumerator); empty domains (lb > ub) are generated (the model then has "
    "no solution)",
    "hints are hard restrictions in the code (domain cut / SAT assumptions); INFEASIBLE is judged against the "
    "solutions compatible with the in-domain hints (DESIGN §4 C05: 'hints only restrict')",
    "failures caused purely by solve_sat (a returned assignment that is not a model of the captured CNF, "
    "INFEASIBLE/timeout on a CNF the verified DPLL satisfies) are classified `sat_backend:*` (property C01/C02)",
]
RULE = ("grammar-directed over the public operators (IntVar/Expr +,-,*, reversed operands, constants either side, "
        "depth <= 3), 1-4 variables with domains such as -2..1, 3..5, 0..3, 0-4 constraints per model out of "
        "==/!= relations, eq/ne const/var, all_different, sum_eq/le/ge, circuit, no_overlap, cumulative (1-4 "
        "arguments), hints in/out of domain/unknown name, solution_limit in {1,3,100}; every model is solved with "
        "solver=auto, dfs and sat; plus a routing family (operator sums over 2-8 all_different variables with domains up "
        "to 0..10, where a DFS run would not finish; judged by the verified evaluator on the returned and a planted "
        "assignment, the back-end actually used is compared with the Cp.Choose mirror) and a scaled-coefficient family "
        "(k*x+-c ~ k*y+-d, k*(x-y) ~ c, k*x-k*y ~ c, x+x ~ y+y+c with k in {2,3,-2}, constants divisible or not, ==/!=, "
        "alone or with x==y / x!=y / all_different); a numeric-edge family (500 x budget models: domains of 2-5 values "
        "located at +-2**53+-k, +-2**62, +-10**18, 2**63, 2**64+1 mixed with ordinary ones, constants/targets/durations "
        "and two-term coefficients of such magnitudes; exact integers end to end); collection arguments of all_different/sum_*/circuit/no_overlap/"
        "cumulative are presented as list, tuple, generator, map, reversed, iter, dict values view or a scratch list "
        "that is cleared and refilled after add() (30% of the plain models, 70% of the history constraints); 1200 "
        "(quick) HISTORIES on one Model object (2-3 rounds of: declare variables, add constraints, solve with a varying "
        "back-end; half of them start with a SAT solve that creates auxiliary variables), every solve judged against "
        "Cp.Sem of the model as it is at that solve, class suffix :after_previous_solve when the same model passes "
        "when built fresh (thorough: 600 x budget); non-trivial = >=1 constraint and >=2 variables with non-singleton domains; "
        "distinct by (model, hints, limit, solver)")
FN = "Model.solve"
WEIGHTS = {"rel": 45, "simple": 18, "alldiff": 10, "sumeq": 5, "sumle": 4, "sumge": 4, "circuit": 5, "noov": 5, "cum": 4}


def gen_cases(rng, n_models, big):
    cases = []
    for _ in range(n_models):
        vars_, cons, plant = K.gen_model(rng, WEIGHTS, big)
        hints = K.gen_hints(rng, vars_, plant)
        hidden = K.gen_hidden(rng, vars_)
        if hints and hidden:
            hints = {k: v for k, v in hints.items() if not (k[1:].isdigit() and int(k[1:]) in hidden)}
        limit = rng.choice([1, 1, 3, 100])
        styles = [K.styles_for(c, rng) for c in cons] if rng.random() < 0.3 else None
        for solver in ("auto", "dfs", "sat"):
            cases.append({"vars": vars_, "cons": cons, "hints": hints, "limit": limit, "solver": solver, "hidden": hidden,
                          "styles": styles})
    return cases


def gen_routing_cases(rng, n):
    cases = []
    for _ in range(n):
        vars_, cons, plant, big = K.gen_routing(rng)
        solvers = ("auto", "sat") if big else ("auto", "dfs", "sat")
        for solver in solvers:
            c = {"vars": vars_, "cons": cons, "hints": None, "limit": 1, "solver": solver, "family": "routing"}
            if big:
                c["big"] = True
            if plant is not None:
                c["plant"] = plant
            cases.append(c)
    return cases


def gen_scaled_cases(rng, n):
    cases = []
    for _ in range(n):
        vars_, cons = K.gen_scaled(rng)
        limit = rng.choice([1, 3, 100, 100])
        for solver in ("auto", "dfs", "sat"):
            cases.append({"vars": vars_, "cons": cons, "hints": None, "limit": limit, "solver": solver,
                          "family": "scaled"})
    return cases


def gen_numeric_cases(rng, n):
    cases = []
    for _ in range(n):
        vars_, cons, hints = K.gen_numeric_edge(rng)
        limit = rng.choice([1, 3, 100, 100])
        for solver in ("auto", "dfs", "sat"):
            cases.append({"vars": vars_, "cons": cons, "hints": hints, "limit": limit, "solver": solver,
                          "family": "numeric_edge"})
    return cases


def edge_cases():
    V = lambda i: ["v", i]  # noqa: E731
    C = lambda k: ["c", k]  # noqa: E731
    ms = [
        # the module docstring's example
        ([[0, 9], [0, 9]], [["alldiff", [0, 1]], ["==", ["+", V(0), V(1)], C(10)]]),
        ([[0, 5], [0, 5]], [["==", ["-", V(0), V(1)], C(2)]]),
        ([[0, 3], [0, 3]], [["==", ["*", C(2), V(0)], ["+", V(1), C(1)]]]),
        ([[0, 3], [0, 3]], [["==", ["-", C(3), V(0)], V(1)]]),
        ([[0, 3], [0, 3], [0, 3]], [["==", V(0), ["+", V(1), V(2)]]]),
        ([[0, 3], [0, 3], [0, 3], [0, 3]], [["circuit", [0, 1, 2, 3]]]),
        ([[0, 0]], [["circuit", [0]]]),
        ([[1, 5]], [["circuit", []]]),
        ([[0, 2], [0, 2]], []),
        ([[0, 1]], [["!=", V(0), C(0)]]),
        ([[3, 2], [0, 1]], []),  # empty domain
        ([[3, 2], [0, 1]], [["!=", V(1), C(0)]]),
    ]
    for vars_, cons in ms:
        for solver in ("auto", "dfs", "sat"):
            for limit in (1, 100):
                yield {"vars": vars_, "cons": cons, "hints": None, "limit": limit, "solver": solver}
    yield {"vars": [[0, 1]], "cons": [["!=", V(0), C(0)]], "hints": {"x0": 0}, "limit": 1, "solver": "dfs"}
    yield {"vars": [[0, 1]], "cons": [["!=", V(0), C(0)]], "hints": {"x0": 7, "zz": 1}, "limit": 1, "solver": "sat"}
    # unnamed (hidden) variables: three of them over 0..1 cannot be all different
    for solver in ("auto", "dfs", "sat"):
        yield {"vars": [[0, 1], [0, 1], [0, 1], [0, 1]], "cons": [["alldiff", [1, 2, 3]]], "hints": None, "limit": 1,
               "solver": solver, "hidden": [1, 2, 3]}
        yield {"vars": [[0, 2], [0, 2]], "cons": [["==", ["+", V(0), V(1)], C(3)]], "hints": None, "limit": 100,
               "solver": solver, "hidden": [1]}


# ---------------------------------------------------------------------------
# comparison
# ---------------------------------------------------------------------------

def first_judgement(case, pcs, out, d):
    """R_prop for one case. Returns a list of (klass, what, needs_attribution)."""
    path = K.path_of(case, d["choose_sat"])
    tags = [K.tag_of(pc) for pc in pcs]
    res = []
    if out[0] == "timeout":
        return [(f"{path}:timeout", f"no answer within the wall-clock limit ({out[1]} s)", True)]
    if out[0] != "ok":
        return [(f"{path}:raises:{err_kind(out)}", f"valid model raised: {out[1][:300]}", True)]
    o = out[1]
    st = o["status"]
    big = bool(case.get("big"))  # no exhaustive enumeration: only returned assignments are judged
    if st == "SAT_TIMEOUT":
        return [("sat_backend:timeout", f"solve_sat did not return within {K.SAT_TIMEOUT} s on the captured CNF", False)]
    sols = o["sols"]
    if st == "INFEASIBLE":
        if big and case.get("plant") is not None:
            res.append((f"{path}:false_infeasible", f"INFEASIBLE although the planted assignment {case['plant']} "
                        "satisfies every constraint (verified evaluator)", True))
        if d["hint_sols"]:
            if path == "sat" and o["cnf"] is not None and d["sat_under_assumptions"]:
                res.append(("sat_backend:false_unsat", "solve_sat reported INFEASIBLE on a CNF that the verified DPLL "
                            "satisfies under the same assumptions", False))
            else:
                res.append((f"{path}:false_infeasible", f"INFEASIBLE although {len(d['hint_sols'])} solution(s) exist "
                            f"(compatible with the in-domain hints), e.g. {d['hint_sols'][0]}", True))
        if sols:
            res.append((f"{path}:infeasible_with_solution", "INFEASIBLE reported together with a solution", False))
    elif st in ("OPTIMAL", "FEASIBLE"):
        if not sols:
            res.append((f"{path}:ok_without_solution", "usable status without a solution", False))
        for i, (s, code) in enumerate(zip(sols or [], d["checks"])):
            if code == 0:
                continue
            if path == "sat" and i < len(d["sat_model_checks"]) and not d["sat_model_checks"][i]:
                res.append(("sat_backend:non_model", f"solve_sat returned an assignment that is not a model of the "
                            f"captured CNF (decoded to {s})", False))
            elif code == 1000:
                res.append((f"{path}:violated:no_hidden_extension", f"returned values {s} do not extend, on the unnamed "
                            "variables, to an assignment satisfying the constraints", True))
            elif code == 1:
                res.append((f"{path}:bad_value", f"returned assignment {s} does not give every named variable one "
                            "value inside its domain", True))
            else:
                res.append((f"{path}:violated:{tags[code - 2]}", f"returned assignment {s} violates constraint "
                            f"#{code - 2} {pcs[code - 2]} (verified evaluator)", False))
    elif st == "MAX_ITER":
        pass  # counted; the property does not speak about cut-offs
    else:
        res.append((f"{path}:bad_status", f"unexpected status {st}", False))
    # de-duplicate classes within one case
    seen, uniq = set(), []
    for r in res:
        if r[0] not in seen:
            seen.add(r[0])
            uniq.append(r)
    return uniq


def symptom(klass):
    return ":".join(klass.split(":")[:2])


def evaluate(cases):
    """(failures, replay dict) per case, without side effects on ctx (used by the shrinker)."""
    outs = run_pool(K.impl, cases, timeout=K.SAT_TIMEOUT * (8 if any(c.get("big") for c in cases) else 1) + 20.0)
    pcss, replies = K.run_model(cases, outs, mode=0)
    res = []
    for case, pcs, out, rp in zip(cases, pcss, outs, replies):
        d = K.unpack(rp)
        rep = {"case": case, "proto": pcs, "impl": out,
               "model": {k: d[k] for k in ("sols", "hint_sols", "checks", "choose_sat", "sat_under_assumptions",
                                           "sat_model_checks")}}
        res.append((first_judgement(case, pcs, out, d), rep, pcs))
    return res


def report(ctx, case, klass, what, rep):
    """ctx.fail, after shrinking the first few failing inputs (same symptom must persist)."""
    if case.get("family") == "history":
        # does the same model fail when it is built and solved fresh?  If not, the history is to blame
        fresh = {k: v for k, v in case.items() if k not in ("family", "round")}
        if not any(symptom(k) == symptom(klass) for k, _, _ in evaluate([fresh])[0][0]):
            klass += ":after_previous_solve"
        return ctx.fail(FN, klass, what, rep)
    if getattr(ctx, "_shrunk", 0) >= 5 or ctx.known_match(FN, klass) is not None or case.get("big"):
        return ctx.fail(FN, klass, what, rep)
    ctx._shrunk = getattr(ctx, "_shrunk", 0) + 1
    sym = symptom(klass)

    def fails_with(cands):
        return [any(symptom(k) == sym for k, _, _ in f) for f, _, _ in evaluate(cands)]

    small, steps = K.minimise({k: v for k, v in case.items() if k != "plant"}, fails_with)
    if steps:
        fails, rep2, pcs = evaluate([small])[0]
        hit = next(((k, w, n) for k, w, n in fails if symptom(k) == sym), None)
        if hit is not None:
            k2, w2, needs = hit
            if needs:
                k2 += ":" + (K.tag_of(pcs[0]) if len(pcs) == 1 else "none" if not pcs else klass.split(":", 2)[-1])
            rep2["shrunk_from"] = {"case": case, "class": klass, "steps": steps}
            ctx.count("shrunk_failures")
            return ctx.fail(FN, k2, w2, rep2)
    return ctx.fail(FN, klass, what, rep)


def run_histories(ctx, hcases):
    """Histories on one Model object: every solve is judged against the model as it is at that solve."""
    K.preload()
    houts = run_pool(K.impl_history, hcases, timeout=3 * K.SAT_TIMEOUT + 20.0)
    cases, outs, owner = K.flatten_histories(hcases, houts)
    run_cases(ctx, cases, outs=outs, hist=[hcases[i] for i in owner])


def run_cases(ctx, cases, attribute=True, outs=None, hist=None):
    K.preload()
    if outs is None:
        outs = run_pool(K.impl, cases, timeout=K.SAT_TIMEOUT * (8 if any(c.get("big") for c in cases) else 1) + 20.0)
    pcss, replies = K.run_model(cases, outs, mode=2)
    hist = hist or [None] * len(cases)
    hist_of = {id(c): h for c, h in zip(cases, hist)}
    pending = []  # (case, klass, what, rep)
    groups = {}
    cov = ctx.cov.setdefault("coverage_table", {})
    for case, pcs, out, rp in zip(cases, pcss, outs, replies):
        d = K.unpack(rp)
        if case.get("plant") is not None:  # the planted assignment was judged as an extra entry
            plant_ok = d["checks"][-1] == 0
            d["checks"] = d["checks"][:-1]
            if not plant_ok:
                case = {k: v for k, v in case.items() if k != "plant"}
        path = K.path_of(case, d["choose_sat"])
        rep = {"case": case, "proto": pcs, "impl": out, "model": {k: d[k] for k in ("sols", "hint_sols", "checks", "choose_sat", "dfs",
                                                                                "sat_under_assumptions", "sat_model_checks")}}
        if hist_of.get(id(case)) is not None:  # replay needs the whole history; the judged model is the snapshot
            rep = {**rep, "case": hist_of[id(case)], "snapshot": case, "round": case["round"]}
            ctx.count(f"history_round:{case['round']}:{case['solver']}->{path}")
        if case.get("styles") and any(case["styles"]):
            ctx.count("presentation_styles:plain_case")
        st = out[1]["status"] if out[0] == "ok" else err_kind(out)
        ctx.count(f"status:{st}")
        ctx.count(f"solver:{case['solver']}->{path}")
        if case.get("family") == "numeric_edge":
            ctx.count(f"numeric_edge_family:{case['solver']}->{path}")
        if case.get("family") == "scaled":
            ctx.count(f"scaled_family:{case['solver']}->{path}")
        if case.get("family") == "routing":
            ctx.count(f"routing_family:{case['solver']}->{path}" + (":big" if case.get("big") else ""))
        # R_trace on the chosen back-end: a SATEncoder was created iff the mirror routes to SAT
        if out[0] == "ok" and out[1].get("used_sat") != (path == "sat"):
            ctx.tdiv(FN, {"case": case, "what": "chosen back-end differs from the Cp.Choose mirror",
                          "impl_used_sat": out[1].get("used_sat"), "mirror_path": path})
        elif out[0] == "ok":
            ctx.cov["r_trace_agree"] = ctx.cov.get("r_trace_agree", 0) + 1
        ctx.count(f"limit:{case['limit']}")
        ctx.count("hints:" + ("none" if case["hints"] is None else "some" if case["hints"] else "empty"))
        ctx.count("truth:" + ("not_enumerated" if case.get("big") else "feasible" if d["sols"] else "infeasible"))
        ctx.count("hidden_vars:" + ("some" if case.get("hidden") else "none"))
        for pc in pcs:
            key = f"{K.tag_of(pc)}|{case['solver']}->{path}"
            cov[key] = cov.get(key, 0) + 1
        if not pcs:
            cov[f"no_constraint|{case['solver']}->{path}"] = cov.get(f"no_constraint|{case['solver']}->{path}", 0) + 1
        fails = first_judgement(case, pcs, out, d)
        for klass, what, needs in fails:
            if needs and attribute and len(pcs) >= 1:
                pending.append((case, pcs, klass, what, rep))
            else:
                tagset = "" if not needs else ":" + ("none" if not pcs else "+".join(sorted({K.tag_of(p) for p in pcs})))
                report(ctx, case, klass + tagset, what, rep)
        # agreement of the back-ends on satisfiability (same model, hints, limit)
        if out[0] == "ok" and st in ("OPTIMAL", "FEASIBLE", "INFEASIBLE"):
            key = json.dumps([case["vars"], case["cons"], case["hints"], case["limit"], case.get("hidden")], sort_keys=True)
            groups.setdefault(key, []).append((case["solver"], st != "INFEASIBLE", bool(fails)))
        if case.get("round") is not None:
            pass
        elif out[0] == "ok" and out[1]["sols"] is not None and len(out[1]["sols"]) > case["limit"]:
            ctx.tdiv(FN, {"case": case, "what": "more solutions returned than solution_limit", "impl": out[1]["sols"]})
        # R_trace (order-insensitive): with a limit above the number of solutions every back-end returns each
        # hint-compatible solution exactly once (DFS: theorem dfs_enumerates_all; mirror = dfsSolve)
        # (not on later rounds of a history: auxiliaries of earlier encodings stay registered in the Model and
        # multiply the returned assignments - recorded observation, the property does not demand distinctness)
        if (out[0] == "ok" and st in ("OPTIMAL", "FEASIBLE") and not case.get("big") and not case.get("hidden")
                and len(d["hint_sols"]) < case["limit"] and not fails and not case.get("round")):
            got = sorted(tuple(s) for s in (out[1]["sols"] or []))
            want = sorted(tuple(s) for s in (d["dfs"] if (path == "dfs" and d["dfs"] is not None) else d["hint_sols"]))
            if got == want:
                ctx.count(f"all_solutions_enumerated:{path}")
            else:
                ctx.tdiv(FN, {"case": case, "what": f"{path} back-end with a limit above the number of solutions did not "
                              "return each solution exactly once", "impl": got, "mirror": want})
        canon = [case["vars"], case["cons"], case["hints"], case["limit"], case["solver"], case.get("hidden") or [],
                 case.get("styles"), case.get("round"), (hist_of.get(id(case)) or {}).get("history")]
        ctx.case(canon, K.nontrivial(case), {"case": case, "impl_status": st, "impl_sols": (out[1]["sols"] if out[0] == "ok" else None),
                                             "n_solutions": len(d["sols"]), "path": path})
    for g in groups.values():
        if len(g) >= 2:
            verdicts = {sat for _, sat, _ in g}
            if len(verdicts) > 1:
                ctx.count("backends_disagree_on_satisfiability")
                if not any(f for _, _, f in g):  # cannot happen: each verdict was compared with the same ground truth
                    raise core.Infra("back-ends disagree although each agrees with the verified enumerator")
            else:
                ctx.count("backends_agree_on_satisfiability")
    # attribution: which single constraint (kept alone, same variables/hints/solver) shows the same failure?
    if pending:
        subs, owners = [], []
        for n, (case, pcs, klass, what, rep) in enumerate(pending):
            if len(case["cons"]) == 1:
                continue
            for i in range(len(case["cons"])):
                sub = {**case, "cons": [case["cons"][i]]}
                if case.get("styles"):
                    sub["styles"] = [case["styles"][i]] if i < len(case["styles"]) else None
                subs.append(sub)
                owners.append((n, i))
        found = {}
        if subs:
            souts = run_pool(K.impl, subs, timeout=K.SAT_TIMEOUT + 20.0)
            spcss, sreplies = K.run_model(subs, souts, mode=0)
            for (n, i), sc, spcs, so, srp in zip(owners, subs, spcss, souts, sreplies):
                if n in found:
                    continue
                ks = [k for k, _, _ in first_judgement(sc, spcs, so, K.unpack(srp))]
                if pending[n][2] in ks:
                    found[n] = i
        for n, (case, pcs, klass, what, rep) in enumerate(pending):
            if len(pcs) == 1:
                tag = K.tag_of(pcs[0])
            elif n in found:
                tag = K.tag_of(pcs[found[n]])
                rep = {**rep, "attributed_to_constraint": found[n]}
            else:
                tag = "combination:" + "+".join(sorted({K.tag_of(p) for p in pcs}))
            report(ctx, case, f"{klass}:{tag}", what, rep)


def _malformed(kind):
    """Malformed / edge uses of the public API (not part of R_prop): the outcome kind is recorded."""
    from solvor.cp import Model
    m = Model()
    x, y = m.int_var(0, 2, "x"), m.int_var(0, 2, "y")
    if kind == "unknown_solver":
        return m.solve(solver="cdcl").status.name
    if kind == "no_overlap_lengths":
        return str(m.no_overlap([x, y], [1]))
    if kind == "cumulative_lengths":
        return str(m.cumulative([x, y], [1, 1], [1], 2))
    if kind == "expr_minus_var":
        return str((x + 1) - y)
    if kind == "int_minus_expr":
        return str(3 - (x + 1))
    if kind == "expr_times_expr":
        return str((x + 1) * (y + 1))
    if kind == "hint_unknown_and_out_of_domain":
        m.add(x != y)
        return m.solve(hints={"zz": 1, "x": 9}).status.name
    if kind == "solve_twice_sat_then_dfs":  # auxiliaries of the first encoding stay in the model
        m.add(m.sum_eq([x, y, x], 3))
        a = m.solve(solver="sat").status.name
        m2 = Model()
        u, v = m2.int_var(0, 2, "u"), m2.int_var(0, 2, "v")
        m2.add(u + v == 2)
        b1 = m2.solve(solver="sat").solution
        b2 = m2.solve(solver="dfs", solution_limit=10)
        return a + ":" + str(b1 is not None) + ":" + str(len(b2.solutions or [b2.solution]))
    if kind == "resolve_same_model_after_sat":
        # observation (not judged: the property does not demand distinct CP solutions): the encoder leaves its
        # auxiliary variables in model._vars, so a second solve of the SAME Model returns the same named
        # assignment several times
        zs = [m.int_var(0, 2, f"z{i}") for i in range(3)]
        m.add(zs[0] + zs[1] + zs[2] == 4)
        out = []
        for solver in ("sat", "sat", "auto"):
            r = m.solve(solver=solver, solution_limit=100)
            sols = list(r.solutions) if r.solutions is not None else [r.solution]
            out.append(f"{solver}:returned={len(sols)},distinct={len({tuple(sorted(x.items())) for x in sols})}")
        return " ".join(out)
    raise KeyError(kind)


def run_malformed(ctx):
    kinds = ["resolve_same_model_after_sat", "unknown_solver", "no_overlap_lengths", "cumulative_lengths", "expr_minus_var", "int_minus_expr",
             "expr_times_expr", "hint_unknown_and_out_of_domain", "solve_twice_sat_then_dfs"]
    outs = run_pool(_malformed, kinds, timeout=20.0)
    rec = ctx.cov.setdefault("malformed_stream", {})
    for k, o in zip(kinds, outs):
        rec[k] = o[1] if o[0] == "ok" else err_kind(o)


def run(ctx, budget):
    ctx.cov["rule"] = RULE
    K.preload()
    run_malformed(ctx)
    cases = list(edge_cases()) + [c["case"] for c in core.load_corpus("C05")]
    run_cases(ctx, cases)
    # batches bound the memory of a thorough run; every batch is generated from ctx.rng only
    for _ in range(5 * budget):
        run_cases(ctx, gen_cases(ctx.rng, 1000, big=(ctx.tier == "thorough")))
    run_cases(ctx, gen_routing_cases(ctx.rng, 60 * budget))
    run_cases(ctx, gen_scaled_cases(ctx.rng, 400 * budget))
    run_cases(ctx, gen_numeric_cases(ctx.rng, 500 * budget))
    # fixed share, both tiers: histories on one Model (solve, extend, solve again) with presentation styles
    for _ in range(budget):
        run_histories(ctx, [K.gen_history(ctx.rng) for _ in range(1200 if ctx.tier == "quick" else 600)])
    summarise(ctx)


def summarise(ctx):
    """Aggregate the (kind:shape | solver) table to (kind | solver) for a quick look."""
    agg = {}
    for k, v in ctx.cov.get("coverage_table", {}).items():
        tag, sv = k.split("|")
        kind = ":".join(tag.split(":")[:2]) if tag.startswith("rel") else tag.split(":")[0]
        agg[f"{kind}|{sv}"] = agg.get(f"{kind}|{sv}", 0) + v
    ctx.cov["coverage_kinds"] = dict(sorted(agg.items()))


def replay(ctx, body):
    ctx.cov["rule"] = RULE
    ctx._shrunk = 5  # replay exactly the recorded input, no further shrinking
    if "history" in body["case"]:
        return run_histories(ctx, [body["case"]])
    run_cases(ctx, [body["case"]])
