"""C01 — every assignment `solve_sat` hands back is a model of clauses and assumptions, and the entries of
`solutions` are pairwise distinct.  Verdicts come from the verified checkers `evalCnf` / `distinctB`
(Solvor/Sat, theorems evalCnf_iff, evalCnf_models, distinctB_iff) evaluated in Lean on each returned value."""
from __future__ import annotations

from props import sat_common as S

AREAS = S.AREAS
LEVEL = "proof"
ASSUMPTIONS = S.ASSUMPTIONS

WEIGHTS = {"small_scope": 30, "mixed": 34, "planted3sat": 8, "threshold3sat": 6, "pigeonhole": 4, "xor": 5,
           "colouring": 12, "many_models": 0.25}


def run(ctx, budget):
    S.run_prop(ctx, "C01", budget, WEIGHTS, n_quick=12000)


def replay(ctx, body):
    S.replay_prop(ctx, "C01", body)
