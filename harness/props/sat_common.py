"""Shared machinery of C01 / C02: generators for CNF inputs, the runner for the real `solve_sat`
(worker processes, wall-clock limit), the request to the Lean driver (proved reference DPLL + verified
checkers) and the comparison R_prop.  Nothing here decides a verdict on its own: models are accepted
or rejected by `evalCnf`/`distinctB` (Lean, proved), INFEASIBLE is compared with `Sat.solve` (proved
sound and complete)."""
from __future__ import annotations

import inspect
import itertools
import time

import core
from core import Driver
from pool import err_kind, run_pool

FN = "solve_sat"
AREAS = ["Sat"]

ASSUMPTIONS = [
    "the CDCL search itself (watches, 1-UIP analysis, VSIDS heap, reduce_db) is mirrored by the executable model "
    "Sat.Cdcl (R_trace: same status and same assignments in the same order on every explored input); proved about "
    "that mirror for all inputs and parameters: every returned assignment passes evalCnf (cdcl_returns_models_partial, "
    "inputs without repeated literals in a clause) and its INFEASIBLE is certified by a verified unit-propagation "
    "refutation over the learned clauses, each justified by a resolution chain (cdcl_infeasible_sound_partial); "
    "and it never runs out of fuel (cdcl_fuel_suffices_partial: at most loopFuel(max_conflicts, solution_limit, "
    "n_vars) iterations); an enumeration it returns is pairwise distinct because it runs distinctB on it before "
    "returning (guardDistinct); still open: repeated literals, and that the mirror's other give-up exit (GUARD: a "
    "certificate check - learned-clause chain, refutation before INFEASIBLE, distinctness - or a post-condition "
    "of analyze fails) never fires - so the "
    "implementation's answers are in addition judged per input by the verified checkers and the proved reference DPLL",
    "heapq modelled as 'pop the least (-activity, var) entry'; VSIDS activities are IEEE doubles on both sides",
    "termination ('the solver always comes back') is observed as a wall-clock limit per call in a worker process "
    "(5 s for inputs that take milliseconds, 20 s for the budgeted hard families; a timeout is re-run alone with "
    "3x the limit before it is reported); the Luby loop's termination is proved on the regenerated source",
    "family reduce_db_single (250-variable threshold 3-SAT, beyond the reference DPLL's reach): 'satisfiable' is "
    "taken from the planted assignment, accepted by the verified checker evalCnf in the same request, instead of "
    "Sat.solve; INFEASIBLE on such an input is the failure false_infeasible, returned assignments are checked by "
    "evalCnf as everywhere, and the CDCL mirror still runs on it (R_trace); the learned-clause entailment check "
    "(entailsB, <= 60 variables) does not apply there",
    "family long_run (thorough tier: pigeonhole 9 into 8, also selector-relaxed under an assumption; the reference "
    "DPLL would need minutes): 'unsatisfiable' is taken from the certifying CDCL mirror's INFEASIBLE, which is proved "
    "sound for these inputs (cdcl_infeasible_sound_partial: no repeated literal in a clause, non-zero assumptions); "
    "if the mirror ends otherwise the case is judged without a verdict",
    "presentation of the input: clauses and assumptions are handed over as lists or tuples (the annotated contract "
    "Sequence[Sequence[int]] / Sequence[int]; generators and other one-shot iterables are outside it and not used), "
    "with the same list object at several positions in a fixed share of the cases; whether solve_sat leaves the "
    "caller's lists untouched is not part of C01/C02 and is not checked",
    "MAX_ITER on a satisfiable input counts as a failure only for <= 16 variables with budgets >= the defaults "
    "(100000 conflicts / 10000 restarts), the DESIGN's decidable reading of 'budgets not exhausted'",
]

RULE = ("corpus + hand-written edge cases, then seeded families: random sample of the small scope (<=4 variables, <=4 clauses "
        "of length <=3, tautologies and duplicate clauses included), mixed-length random CNF (units and binaries "
        "over-represented, gaps in the numbering, duplicate literals), planted-solution and near-threshold 3-SAT, "
        "pigeonhole, random 3-XOR systems, graph colouring, CP-encoder style exactly-one grids, many-model "
        "enumerations (>2000 blocking clauses so reduce_db fires); plus a fixed number per run (quick 6+26, thorough 10+64, "
        "extended search 12+160) of reduce_db inputs: all 352 solutions of 9-queens under a random renaming "
        "(solution_limit > 352, luby_factor 1/2: > 4000 learned clauses between the models) and planted threshold "
        "3-SAT with 250 variables / 1062 clauses (luby_factor 1/2, max_conflicts 30000) - the mirror's counter "
        "`reduce_db` says how often the clause database was actually reduced (histogram reduce_db_fired, "
        "reduce_db_fired>=2:{enumeration,single}; such a case counts as non-trivial only if it was); thorough tier only: 3 long-run UNSAT cases (pigeonhole 9 "
        "into 8 with shuffled clause order, one of them selector-relaxed under an assumption: > 20000 conflicts in one call); 20 % of the "
        "generated and small-scope cases in a non-plain presentation (histogram present:*): the same list object at "
        "2-3 positions (duplicated next to itself, appended again, or by-value duplicates sharing one object), clauses "
        "as tuples or tuples and lists mixed, the formula as a tuple, the assumptions as a tuple; assumptions none/random/contradictory/"
        "negated-pure-literal/variable-beyond-the-formula; solution_limit in {1,2,3,10,10^4}, luby_factor in {1,2,100}, "
        "max_conflicts/max_restarts default or tiny. Non-trivial = the CDCL mirror's run on the input made >= 1 decision "
        "and met >= 1 conflict; distinct by canonical (clauses, assumptions, options)")

_DEFAULTS = None
PRESENT_SHARE = 0.2  # share of the generated cases handed over in a non-plain presentation (see add_presentation)


def defaults():
    global _DEFAULTS
    if _DEFAULTS is None:
        from solvor.sat import solve_sat
        sig = inspect.signature(solve_sat)
        _DEFAULTS = {k: p.default for k, p in sig.parameters.items() if p.default is not inspect.Parameter.empty}
    return _DEFAULTS


# ---------------------------------------------------------------------------
# generators
# ---------------------------------------------------------------------------

def _opts(rng, hard=False, enum_ok=True):
    o = {}
    r = rng.random()
    if enum_ok and r < 0.45:
        o["solution_limit"] = rng.choice([1, 2, 3, 10, 10_000])
    if rng.random() < 0.5:
        o["luby_factor"] = rng.choice([1, 2, 100])
    if hard:
        o["max_conflicts"] = rng.choice([20, 200, 1000, 3000])
        if rng.random() < 0.4:
            o["max_restarts"] = rng.choice([0, 1, 3, 10, 10_000])
    else:
        if rng.random() < 0.12:
            o["max_conflicts"] = rng.choice([0, 1, 5, 50, 100_000])
        if rng.random() < 0.12:
            o["max_restarts"] = rng.choice([0, 1, 3, 10_000])
    return o


def _pure_literals(clauses):
    pos, neg = set(), set()
    for c in clauses:
        for l in c:
            (pos if l > 0 else neg).add(abs(l))
    return [v for v in pos - neg] + [-v for v in neg - pos]


def _assumptions(rng, clauses, nv):
    r = rng.random()
    if r < 0.5 or nv == 0:
        return []
    vs = sorted({abs(l) for c in clauses for l in c}) or [1]
    if r < 0.72:
        return [rng.choice([1, -1]) * rng.choice(vs) for _ in range(rng.choice([1, 1, 2, 3]))]
    if r < 0.80:  # contradictory
        v = rng.choice(vs)
        a = [v, -v]
        if rng.random() < 0.5:
            a.insert(rng.randrange(3), rng.choice([1, -1]) * rng.choice(vs))
        return a
    if r < 0.92:  # collide with a pure literal
        pure = _pure_literals(clauses)
        if pure:
            a = [-rng.choice(pure)]
            if rng.random() < 0.3:
                a.append(rng.choice([1, -1]) * rng.choice(vs))
            return a
        return [rng.choice([1, -1]) * rng.choice(vs)]
    if r < 0.97:  # a variable that does not occur in the clauses (beyond the largest one / in a gap)
        return [rng.choice([1, -1]) * (max(vs) + rng.choice([1, 2]))]
    v = rng.choice(vs)  # duplicate assumption
    s = rng.choice([1, -1])
    return [s * v, s * v]


def _gapmap(rng, clauses, nv):
    """renumber variables 1..nv to a sparse increasing sequence"""
    cur, mp = 0, {}
    for v in range(1, nv + 1):
        cur += rng.choice([1, 1, 1, 2, 3])
        mp[v] = cur
    return [[(1 if l > 0 else -1) * mp[abs(l)] for l in c] for c in clauses]


def gen_small_scope(rng):
    nv = rng.choice([1, 2, 2, 3, 3, 3, 4, 4, 4])
    lits = [s * v for v in range(1, nv + 1) for s in (1, -1)]
    ncl = rng.choice([1, 2, 2, 3, 3, 4, 4])
    cl = []
    for _ in range(ncl):
        k = min(rng.choice([1, 1, 2, 2, 3]), len(lits))
        cl.append(rng.sample(lits, k))
    if ncl >= 2 and rng.random() < 0.1:
        cl[rng.randrange(ncl)] = list(cl[rng.randrange(ncl)])
    return {"family": "small_scope", "clauses": cl, "assumptions": _assumptions(rng, cl, nv), "opts": _opts(rng)}


def gen_mixed(rng, big=False):
    nv = rng.randint(3, 24 if big else 14)
    ratio = rng.choice([1.0, 2.0, 3.0, 4.0, 5.0])
    m = max(1, int(nv * ratio * (0.3 + 0.7 * rng.random())))
    cl = []
    for _ in range(m):
        k = rng.choice([1, 2, 2, 2, 3, 3, 3, 3, 4, 5])
        c = [rng.choice([1, -1]) * rng.randint(1, nv) for _ in range(k)]  # duplicates / tautologies possible
        cl.append(c)
    if rng.random() < 0.15 and m >= 2:
        cl.append(list(cl[rng.randrange(m)]))
    if rng.random() < 0.3:
        cl = _gapmap(rng, cl, nv)
        nv = max(abs(l) for c in cl for l in c)
    return {"family": "mixed", "clauses": cl, "assumptions": _assumptions(rng, cl, nv), "opts": _opts(rng)}


def gen_ksat(rng, nmax, planted):
    nv = rng.randint(8, nmax)
    ratio = rng.choice([3.6, 4.0, 4.26, 4.5, 5.0]) if not planted else rng.choice([4.0, 5.0, 6.0])
    m = int(nv * ratio)
    sol = [rng.random() < 0.5 for _ in range(nv + 1)]
    cl = []
    while len(cl) < m:
        vs = rng.sample(range(1, nv + 1), 3)
        c = [v if rng.random() < 0.5 else -v for v in vs]
        if planted and not any((l > 0) == sol[abs(l)] for l in c):
            continue
        cl.append(c)
    for _ in range(rng.choice([0, 0, 1, 3])):  # a few units / binaries on top
        vs = rng.sample(range(1, nv + 1), rng.choice([1, 2]))
        c = [v if rng.random() < 0.5 else -v for v in vs]
        if planted and not any((l > 0) == sol[abs(l)] for l in c):
            c[0] = -c[0]
        cl.append(c)
    hard = nv > 30
    asm = _assumptions(rng, cl, nv) if rng.random() < 0.5 else []
    return {"family": "planted3sat" if planted else "threshold3sat", "clauses": cl, "assumptions": asm,
            "opts": _opts(rng, hard=hard, enum_ok=nv <= 16)}


def php(p, h):
    v = lambda i, j: i * h + j + 1  # noqa: E731
    cl = [[v(i, j) for j in range(h)] for i in range(p)]
    for j in range(h):
        for a in range(p):
            for b in range(a + 1, p):
                cl.append([-v(a, j), -v(b, j)])
    return cl


def gen_php(rng, hmax):
    h = rng.randint(2, hmax)
    p = h + rng.choice([1, 1, 1, 0, 2])
    cl = php(p, h)
    if rng.random() < 0.5:
        rng.shuffle(cl)
    if rng.random() < 0.3:
        cl = [rng.sample(c, len(c)) for c in cl]
    asm = [] if rng.random() < 0.7 else [rng.choice([1, -1]) * rng.randint(1, p * h)]
    return {"family": "pigeonhole", "clauses": cl, "assumptions": asm, "opts": _opts(rng, hard=h >= 5, enum_ok=False)}


def gen_xor(rng, nmax):
    nv = rng.randint(6, nmax)
    m = int(nv * rng.choice([0.7, 0.9, 1.0, 1.1]))
    cl = []
    for _ in range(m):
        a, b, c = rng.sample(range(1, nv + 1), 3)
        par = rng.random() < 0.5  # a xor b xor c = par
        for sa, sb, sc in itertools.product([1, -1], repeat=3):
            neg = (sa < 0) + (sb < 0) + (sc < 0)
            # clause (sa a, sb b, sc c) excludes the assignment a=(sa<0), b=(sb<0), c=(sc<0)
            ones = neg
            if (ones % 2 == 1) != par:
                cl.append([sa * a, sb * b, sc * c])
    return {"family": "xor", "clauses": cl, "assumptions": [], "opts": _opts(rng, hard=nv > 20, enum_ok=nv <= 14)}


def gen_colouring(rng, big):
    k = rng.choice([2, 3, 3, 4])
    n = rng.randint(k + 1, 12 if big else 8)
    v = lambda i, c: i * k + c + 1  # noqa: E731
    edges = {(a, b) for a in range(n) for b in range(a + 1, n) if rng.random() < rng.choice([0.3, 0.5, 0.8])}
    if rng.random() < 0.4:  # plant a (k+1)-clique: unsat core
        q = rng.sample(range(n), k + 1)
        edges |= {(min(a, b), max(a, b)) for a in q for b in q if a != b}
    cl = [[v(i, c) for c in range(k)] for i in range(n)]
    if rng.random() < 0.6:  # exactly-one as the CP encoder writes it
        for i in range(n):
            for c1 in range(k):
                for c2 in range(c1 + 1, k):
                    cl.append([-v(i, c1), -v(i, c2)])
    for a, b in sorted(edges):
        for c in range(k):
            cl.append([-v(a, c), -v(b, c)])
    asm = [] if rng.random() < 0.6 else [v(0, 0)] + ([-v(1, 1)] if rng.random() < 0.5 else [])
    return {"family": "colouring", "clauses": cl, "assumptions": asm, "opts": _opts(rng, hard=n * k > 30, enum_ok=n * k <= 16)}


def gen_many_models(rng, thorough=False):
    """few constraints over 11..13 variables, all models requested: > 2000 blocking clauses, restarts every
    conflict or two, so reduce_db runs while blocking clauses are alive"""
    nv = rng.randint(11, 13 if thorough else 12)
    m = rng.randint(3, 8)
    cl = [[rng.choice([1, -1]) * v for v in rng.sample(range(1, nv + 1), rng.choice([2, 3, 3, 4]))] for _ in range(m)]
    cl.append([nv, -nv] if rng.random() < 0.5 else [nv, nv - 1])  # make sure the top variable occurs
    return {"family": "many_models", "clauses": cl, "assumptions": [],
            "opts": {"solution_limit": 10_000, "luby_factor": rng.choice([1, 1, 2])}}


def queens(n):
    """n-queens as CNF: one queen per row (at-least-one), at most one per row / column / diagonal"""
    v = lambda i, j: i * n + j + 1  # noqa: E731
    cl = [[v(i, j) for j in range(n)] for i in range(n)]
    for i in range(n):
        for a in range(n):
            for b in range(a + 1, n):
                cl.append([-v(i, a), -v(i, b)])
                cl.append([-v(a, i), -v(b, i)])
    for i in range(n):
        for j in range(n):
            for d in range(1, n):
                if i + d < n and j + d < n:
                    cl.append([-v(i, j), -v(i + d, j + d)])
                if i + d < n and j - d >= 0:
                    cl.append([-v(i, j), -v(i + d, j - d)])
    return cl


def _relabel(rng, cl, nv):
    """random renaming of the variables, random order of clauses and of the literals in a clause"""
    p = list(range(1, nv + 1))
    rng.shuffle(p)
    out = [[(1 if l > 0 else -1) * p[abs(l) - 1] for l in c] for c in cl]
    for c in out:
        rng.shuffle(c)
    rng.shuffle(out)
    return out


def gen_reduce_db_enum(rng):
    """all 352 solutions of 9-queens (81 variables, 1065 clauses) under a random renaming: ~30000 decisions and
    > 4000 learned clauses between the models, so the unchanged solver reduces its clause database (at least)
    twice while ~200 blocking clauses are already in it"""
    return {"family": "reduce_db_enum", "clauses": _relabel(rng, queens(9), 81), "assumptions": [],
            "opts": {"solution_limit": rng.choice([400, 1000, 10_000]), "luby_factor": rng.choice([1, 2])}}


def gen_reduce_db_single(rng, n=250, m=1062):
    """random 3-SAT at the threshold ratio with a planted solution; 250 variables need several thousand conflicts
    (about half of these instances reduce the clause database twice or more).  Too large for the reference
    DPLL: the planted assignment is sent along and checked by evalCnf (`lite` request)"""
    sol = [rng.random() < 0.5 for _ in range(n + 1)]
    cl = []
    while len(cl) < m:
        vs = rng.sample(range(1, n + 1), 3)
        c = [v if rng.random() < 0.5 else -v for v in vs]
        if any((l > 0) == sol[abs(l)] for l in c):
            cl.append(c)
    used = sorted({abs(l) for c in cl for l in c})
    return {"family": "reduce_db_single", "clauses": cl, "assumptions": [],
            "opts": {"luby_factor": rng.choice([1, 1, 1, 2]), "max_conflicts": 30_000},
            "lite": True, "witness": [[[v, 1 if sol[v] else 0] for v in range(1, max(used) + 1)]]}


def reduce_db_cases(rng, n_enum, n_single):
    return [gen_reduce_db_enum(rng) for _ in range(n_enum)] + [gen_reduce_db_single(rng) for _ in range(n_single)]


def add_presentation(rng, case):
    """HOW the same formula is handed to solve_sat (the annotated contract is Sequence[Sequence[int]] / Sequence[int]):
    the same list OBJECT at two or three positions (a clause duplicated with `*`, inserted or appended again; clauses
    that are equal by value may share one object too), clauses as tuples / tuples and lists mixed, the formula as a
    tuple, the assumptions as a tuple.  Duplicates are part of `clauses` by value (that is what the model gets);
    `present` only says which positions share an object and which container types are used."""
    cl = case["clauses"]
    pr = {}
    if cl and rng.random() < 0.7:
        items = [(c, i) for i, c in enumerate(cl)]
        if rng.random() < 0.4:  # clauses equal by value share one object
            first = {}
            items = [(c, first.setdefault(tuple(c), i)) for c, i in items]
        for _ in range(rng.choice([0, 1, 1, 1, 2])):
            long = [k for k, (c, _) in enumerate(items) if len(c) >= 3]
            k = rng.choice(long) if long and rng.random() < 0.75 else rng.randrange(len(items))
            c, t = items[k]
            for _ in range(rng.choice([1, 1, 2])):
                pos = rng.choice([k + 1, len(items), rng.randrange(len(items) + 1)])
                items.insert(pos, (list(c), t))
        case["clauses"] = [list(c) for c, _ in items]
        by_tok = {}
        for pos, (_, t) in enumerate(items):
            by_tok.setdefault(t, []).append(pos)
        groups = [g for g in by_tok.values() if len(g) >= 2]
        if groups:
            pr["alias"] = sorted(groups)
    ct = rng.choice(["list", "list", "tuple", "mixed"])
    if ct != "list":
        pr["clause_type"] = ct
    if rng.random() < 0.3:
        pr["formula_type"] = "tuple"
    if case["assumptions"] and rng.random() < 0.5:
        pr["assumptions_type"] = "tuple"
    if pr:
        case["present"] = pr
    return case


def build_input(case):
    """the objects actually passed to solve_sat: fresh lists, arranged as `present` says"""
    pr = case.get("present") or {}
    cl = [list(c) for c in case["clauses"]]
    for grp in pr.get("alias", []):
        for j in grp[1:]:
            cl[j] = cl[grp[0]]
    ct = pr.get("clause_type", "list")
    if ct != "list":
        conv = {}
        for i, c in enumerate(cl):
            if id(c) not in conv:  # one object, one type (decided at its first position)
                conv[id(c)] = tuple(c) if (ct == "tuple" or i % 2 == 0) else c
        cl = [conv[id(c)] for c in cl]
    formula = tuple(cl) if pr.get("formula_type") == "tuple" else cl
    asm = list(case["assumptions"])
    if pr.get("assumptions_type") == "tuple":
        asm = tuple(asm)
    return formula, asm


def gen_long_run(rng, k):
    """thorough tier only: one call with > 4500 conflicts on an UNSATISFIABLE input (activities pass 1e100 there, the
    restart counter passes 70): pigeonhole 9 into 8 in its natural numbering (72 variables, 297 clauses; ~21000
    conflicts, ~10 s of Python - a random renaming makes it 3-5 times harder, so only the clause order is shuffled);
    every third one relaxed by a selector variable and refuted under the assumption that switches the clauses on"""
    cl = [list(c) for c in php(9, 8)]
    rng.shuffle(cl)
    asm = []
    if k % 3 == 2:
        cl = [c + [-73] for c in cl]
        asm = [73]
    return {"family": "long_run", "clauses": cl, "assumptions": asm,
            "opts": {"luby_factor": rng.choice([1, 2])} if k % 3 == 1 else {}, "lite": True}


def edge_cases():
    E = lambda cl, a=(), **o: {"family": "edge", "clauses": [list(c) for c in cl], "assumptions": list(a), "opts": o}  # noqa: E731
    yield E([])
    yield E([], [1])
    yield E([], [1, -1])
    yield E([[]])
    yield E([[1], []])
    yield E([[1]])
    yield E([[-1]])
    yield E([[1], [-1]])
    yield E([[1, -1]])
    yield E([[1, 1]])
    yield E([[1, 1, -2], [2, 2, 2]])
    yield E([[5]])
    yield E([[1], [2, 3]], solution_limit=10)
    yield E([[1, 2]], [-1])
    yield E([[1, 2]], [2])
    yield E([[1]], [2])
    yield E([[1, 2]], [3, -3])
    yield E([[-1]], solution_limit=3, luby_factor=1)
    yield E([[1, 2], [-1, 2], [1, -2], [-1, -2]])
    yield E([[1, 2], [-1, 2], [1, -2], [-1, -2]], luby_factor=1, max_restarts=0)
    yield E([[1, 2, 3]], solution_limit=10)
    yield E([[1, 2, 3]], solution_limit=10_000, luby_factor=1)
    yield E([[1, 2], [-1, -2]], solution_limit=10)
    yield E([[1, 2, 3], [-1, -2], [-1, -3], [-2, -3]], max_conflicts=0)
    yield E(php(4, 3))
    yield E(php(5, 4), luby_factor=1)
    yield E(php(5, 4), luby_factor=1, max_restarts=3)
    yield E(php(6, 5), max_conflicts=50)


def exhaustive_scope(nv, ncl, maxlen):
    """every CNF over variables 1..nv with 1..ncl distinct clauses of 1..maxlen distinct literals"""
    lits = [s * v for v in range(1, nv + 1) for s in (1, -1)]
    clauses = [list(c) for k in range(1, maxlen + 1) for c in itertools.combinations(lits, k)]
    for m in range(1, ncl + 1):
        for f in itertools.combinations(clauses, m):
            yield [list(c) for c in f]


def scope_cases(rng, nv, ncl, maxlen, per_formula, cap=None):
    forms = list(exhaustive_scope(nv, ncl, maxlen))
    if cap is not None and len(forms) > cap:
        forms = rng.sample(forms, cap)
    for f in forms:
        for _ in range(per_formula):
            c = normalize({"family": f"scope{nv}x{ncl}", "clauses": f, "assumptions": _assumptions(rng, f, nv),
                           "opts": _opts(rng)})
            yield add_presentation(rng, c) if rng.random() < PRESENT_SHARE else c


def normalize(case):
    """keep the work of a correct solver small: all-models requests only for <= 12 variable indices (13 in the many_models family) (a blocking clause
    per model makes 10^4 models of a 20-variable formula a matter of minutes in pure Python, legitimately)"""
    if case["family"].startswith("reduce_db"):
        return case
    if case["opts"].get("solution_limit", 1) > 10 and n_vars(case) > (13 if case["family"] == "many_models" else 12):
        case["opts"]["solution_limit"] = 10
    return case


def generate(rng, n, tier, weights):
    """n cases drawn from the families according to `weights` (dict family -> weight)."""
    thorough = tier == "thorough"
    fams = sorted(weights)
    out = []
    for _ in range(n):
        fam = rng.choices(fams, [weights[f] for f in fams])[0]
        if fam == "small_scope":
            out.append(gen_small_scope(rng))
        elif fam == "mixed":
            out.append(gen_mixed(rng, big=thorough and rng.random() < 0.3))
        elif fam == "planted3sat":
            out.append(gen_ksat(rng, 90 if thorough else 40, True))
        elif fam == "threshold3sat":
            out.append(gen_ksat(rng, 90 if thorough else 40, False))
        elif fam == "pigeonhole":
            out.append(gen_php(rng, 6 if thorough else 5))
        elif fam == "xor":
            out.append(gen_xor(rng, 30 if thorough else 22))
        elif fam == "colouring":
            out.append(gen_colouring(rng, thorough))
        elif fam == "many_models":
            out.append(gen_many_models(rng, thorough))
        else:
            raise KeyError(fam)
    out = [normalize(c) for c in out]
    return [add_presentation(rng, c) if rng.random() < PRESENT_SHARE else c for c in out]


# ---------------------------------------------------------------------------
# implementation side (worker process)
# ---------------------------------------------------------------------------

def impl(case):
    from solvor.sat import solve_sat
    cl, asm = build_input(case)
    kw = dict(case["opts"])
    if case["assumptions"]:
        kw["assumptions"] = asm
    t0 = time.time()
    r = solve_sat(cl, **kw)
    dt = time.time() - t0

    def items(d):
        return [[int(k), 1 if v else 0] for k, v in sorted(d.items())]

    sol = items(r.solution) if isinstance(r.solution, dict) else (None if r.solution is None else "bad")
    sols = None if r.solutions is None else [items(s) for s in r.solutions]
    return {"status": r.status.name, "solution": sol, "solutions": sols, "decisions": r.iterations,
            "propagations": r.evaluations, "seconds": round(dt, 3)}


def is_hard(case):
    if case["family"].startswith("reduce_db") or case["family"] == "long_run":
        return True
    if case["opts"].get("solution_limit", 1) > 10 and n_vars(case) >= 10:
        return True
    return "max_conflicts" in case["opts"] and case["opts"]["max_conflicts"] >= 20 and case["family"] in (
        "planted3sat", "threshold3sat", "pigeonhole", "xor", "colouring")


def n_vars(case):
    return max([abs(l) for c in case["clauses"] for l in c] + [abs(a) for a in case["assumptions"]] + [0])


def run_impl(cases, ctx):
    """run the real solver; timeouts are re-run once alone (3x the limit) before they count.  Once 12 timeouts
    have been confirmed in this run (the tree under test hangs), later batches use short limits and are not
    re-confirmed: they are counted as `timeout_unconfirmed` and judged no further."""
    import solvor.sat  # noqa: F401  (imported before forking so that import time is not billed to a call)
    outs = [None] * len(cases)
    st = ctx.__dict__.setdefault("_sat_hang", {"confirmed": 0})
    for hard, limit in ((False, 5.0), (True, 20.0)):
        idx = [i for i, c in enumerate(cases) if (is_hard(c) or c["family"] == "many_models") == hard]
        if not idx:
            continue
        degraded = st["confirmed"] >= 12
        if degraded:
            limit = 5.0 if hard else 1.0
        if hard and not degraded and any(cases[i]["family"] == "long_run" for i in idx):
            limit = 60.0  # ~10 s on an idle machine
        res = run_pool(impl, [cases[i] for i in idx], timeout=limit)
        for i, r in zip(idx, res):
            outs[i] = r
        tmo = [i for i in idx if outs[i][0] == "timeout"]
        confirm = [] if degraded else tmo[:12]
        if confirm:
            res2 = run_pool(impl, [cases[i] for i in confirm], timeout=3 * limit, procs=len(confirm))
            for i, r in zip(confirm, res2):
                if r[0] == "timeout":
                    outs[i] = ("timeout", limit + 3 * limit)
                    st["confirmed"] += 1
                else:
                    outs[i] = r
                    ctx.count("timeout_not_confirmed")
        for i in tmo:
            if i not in confirm:
                outs[i] = ("timeout_unconfirmed", limit)
    return outs


def to_request(case, out):
    single, multi = [], []
    if out[0] == "ok":
        r = out[1]
        if isinstance(r["solution"], list):
            single = [r["solution"]]
        if r["solutions"]:
            multi = r["solutions"]
    nv = n_vars(case)
    d, o = defaults(), case["opts"]
    prm = [int(o.get(k, d[k])) for k in ("max_conflicts", "max_restarts", "solution_limit", "luby_factor")]
    return ["case", case["clauses"], case["assumptions"], single, multi, bool(nv <= 12), prm,
            bool(case.get("lite")), case.get("witness", [])]


# ---------------------------------------------------------------------------
# comparison: returns a list of (property, klass, what)
# ---------------------------------------------------------------------------

def judge(case, out, reply):
    """All failed clauses of R_prop for one case as (property, class, text); plus notes (list of str) and
    the R_trace-level divergence (or None)."""
    fails, notes, tdiv = [], [], None
    wf, sat, nv, count, s_chk, m_chk, distinct, br, cf, stat_ok, mirror, wit_ok = reply
    how = "the proved reference DPLL finds a model of clauses + assumptions"
    unsat_how = "proved DPLL verdict"
    if sat is None:  # `lite` request (beyond the reference DPLL's reach)
        if case.get("witness"):  # satisfiable iff evalCnf accepted the planted assignment
            if any(wit_ok):
                sat = True
                how = "the planted assignment is a model of the clauses (verified checker evalCnf)"
            else:  # only a shrinking candidate may lose its planted model; such a case is judged without a verdict
                notes.append("planted_assignment_rejected")
        elif mirror[0] == "INFEASIBLE":
            # the certifying mirror's INFEASIBLE is proved sound for inputs without repeated literals
            if any(len(set(c)) != len(c) for c in case["clauses"]) or 0 in case["assumptions"]:
                raise core.Infra("lite request outside the hypotheses of cdcl_infeasible_sound_partial")
            sat = False
            unsat_how = ("the certifying CDCL mirror refuted them: INFEASIBLE after its unit-propagation refutation "
                         "check, sound by cdcl_infeasible_sound_partial")
    if not stat_ok:
        raise core.Infra("instrumented DPLL disagrees with Sat.solve")
    if not wf:
        raise core.Infra("generator produced the literal 0")
    asm = bool(case["assumptions"])
    opts = case["opts"]
    d = defaults()
    if out[0] == "timeout_unconfirmed":
        notes.append("timeout_unconfirmed")
        return fails, notes, tdiv
    if out[0] == "timeout":
        fails.append(("C02", "no_return", f"no answer within {out[1]:.0f} s of wall clock (re-run alone included); "
                      + (f"the reference DPLL decides this input ({'sat' if sat else 'unsat'}) with {br} branchings"
                         if not case.get("lite") else "the input has a planted model" if sat else
                         "the CDCL mirror decides this input within its budgets")))
        return fails, notes, tdiv
    if out[0] != "ok":
        kind = err_kind(out)
        occurring = {abs(l) for c in case["clauses"] for l in c}
        tag = ":assumption_var_not_in_clauses" if any(abs(a) not in occurring for a in case["assumptions"]) else ""
        fails.append(("C02", f"raises:{kind}{tag}", f"valid input raised {out[1].splitlines()[0]}"))
        return fails, notes, tdiv
    r = out[1]
    st = r["status"]
    if st not in ("OPTIMAL", "INFEASIBLE", "MAX_ITER"):
        fails.append(("C02", "bad_status", f"status {st}"))
    if r["solution"] == "bad":
        fails.append(("C01", "solution_not_a_dict", "Result.solution is neither None nor a dict"))
    # input feature that narrows the failure class (known findings are matched on it)
    lim = opts.get("solution_limit", d["solution_limit"])
    feature = (":no_clauses" if not case["clauses"] else ":only_empty_clauses" if not any(case["clauses"])
               else ":empty_clause" if [] in case["clauses"] else ":enumeration" if lim > 1 else "")
    # --- C01: every returned assignment is a model, pairwise distinct
    bad = [(k, c) for k, c in enumerate(s_chk) if not c[0]] + [(k, c) for k, c in enumerate(m_chk) if not c[0]]
    if bad:
        k, c = bad[0]
        why = "partial" if not c[1] else ("clause_false" if not c[2] else "assumption_false")
        why += feature
        fails.append(("C01", f"not_a_model:{why}",
                      f"{len(bad)} returned assignment(s) rejected by the verified checker evalCnf "
                      f"(first: total={c[1]} clauses={c[2]} assumptions={c[3]})"))
    if not distinct:
        fails.append(("C01", "duplicate_model", "Result.solutions contains the same assignment twice (distinctB)"))
    # --- C02: verdicts
    has_model = bool(s_chk) or bool(m_chk)
    if st == "INFEASIBLE" and sat:
        fails.append(("C02", "false_infeasible" + (":assumptions" if asm else ""),
                      "INFEASIBLE although " + how))
    if has_model and sat is False:
        fails.append(("C02", "model_for_unsat" + feature, "an assignment was returned although clauses + assumptions are "
                      f"unsatisfiable ({unsat_how})"))
    if st == "OPTIMAL" and not has_model:
        fails.append(("C02", "optimal_without_model", "status OPTIMAL with solution None"))
    if st == "INFEASIBLE" and has_model:
        fails.append(("C02", "infeasible_with_model", "status INFEASIBLE together with an assignment"))
    big_budget = (opts.get("max_conflicts", d["max_conflicts"]) >= d["max_conflicts"]
                  and opts.get("max_restarts", d["max_restarts"]) >= d["max_restarts"])
    if st == "MAX_ITER" and sat and not has_model and nv <= 16 and big_budget:
        fails.append(("C02", "spurious_max_iter", f"MAX_ITER without a model on a satisfiable {nv}-variable input "
                      "with budgets >= the defaults"))
    # --- enumeration count (not part of the properties; R_trace-level observation)
    if count is not None and st == "OPTIMAL" and not fails and lim >= 1:
        got = len(m_chk) if r["solutions"] is not None else len(s_chk)
        want = min(lim, count)
        if got != want:
            tdiv = {"relation": "number of assignments returned with status OPTIMAL = min(solution_limit, number of "
                    "models over 1..n_vars) [proved-complete enumerator]", "returned": got, "models": count,
                    "solution_limit": lim}
    # --- R_trace: the CDCL mirror returns the same status and the same assignments in the same order
    m_status, m_sol, m_nsols, eq_single, eq_multi = mirror[:5]
    if m_status in ("FUEL", "GUARD"):
        raise core.Infra(f"CDCL mirror gave up ({m_status}: fuel exhausted / analyze sanity check failed) on {case}")
    same = (m_status == st and eq_single and eq_multi and (m_nsols is None) == (r["solutions"] is None))
    if not same and tdiv is None:
        tdiv = {"relation": "Sat.Cdcl mirror returns the same (status, solution, solutions)",
                "mirror": {"status": m_status, "solution": m_sol, "n_solutions": m_nsols, "first_solutions": mirror[6]},
                "solution_equal": eq_single, "solutions_equal": eq_multi}
    chk, bad = mirror[7]
    if bad and tdiv is None:
        tdiv = {"relation": "every clause learned by the CDCL mirror is entailed by the clauses (+ earlier blocking "
                "clauses) [verified entailsB]", "checked": chk, "not_entailed": bad}
    return fails, notes, tdiv


def canon(case):
    return [case["clauses"], case["assumptions"], sorted(case["opts"].items()), sorted((case.get("present") or {}).items())]


def run_cases(ctx, prop, cases, shrink=True):
    """run + judge a batch; report the clauses of `prop`, count the others"""
    outs = run_impl(cases, ctx)
    reqs = [to_request(c, o) for c, o in zip(cases, outs)]
    t_impl = time.time()
    replies = Driver("Sat").run(reqs, chunks=16)
    ctx.cov["lean_driver_seconds"] = round(ctx.cov.get("lean_driver_seconds", 0) + time.time() - t_impl, 1)
    for c, o, rp in zip(cases, outs, replies):
        if rp and rp[0] == "error":
            raise core.Infra(f"model rejected request: {rp} for {c}")
        fails, notes, tdiv = judge(c, o, rp)
        for n in notes:
            ctx.count(n)
        ctx.count("family:" + c["family"])
        ctx.count("outcome:" + (o[1]["status"] if o[0] == "ok" else err_kind(o) if o[0] != "timeout_unconfirmed" else "Timeout?"))
        ctx.count("truth:" + (("sat(planted)" if c.get("witness") else "unsat(certified by the mirror)" if rp[10][0] == "INFEASIBLE"
                               else "unknown") if rp[1] is None else "sat" if rp[1] else "unsat"))
        for k, v in sorted((c.get("present") or {}).items()):
            ctx.count(f"present:{k}" + ("" if k == "alias" else f"={v}"))
        for k in sorted(c["opts"]):
            ctx.count(f"opt:{k}={c['opts'][k]}")
        ctx.count("assumptions:" + ("yes" if c["assumptions"] else "no"))
        if o[0] == "ok":
            if o[1]["seconds"] > ctx.cov.get("slowest_call", {"seconds": 0})["seconds"]:
                ctx.cov["slowest_call"] = {"seconds": o[1]["seconds"], "family": c["family"], "n_vars": rp[2],
                                           "clauses": len(c["clauses"]), "opts": c["opts"], "status": o[1]["status"]}
            ctx.count("impl_decisions>0" if o[1]["decisions"] else "impl_decisions=0")
            ctx.cov["cert_checked_impl"] = ctx.cov.get("cert_checked_impl", 0) + len(rp[4]) + len(rp[5])
        mine = [f for f in fails if f[0] == prop]
        for p, k, w in fails:
            if p != prop:
                ctx.count(f"other_property:{p}:{k}")
        for p, k, w in mine:
            if ctx.known_match(FN, k):
                ctx.fail(FN, k, w, {"case": c})  # counted as a known finding, nothing written
                continue
            reported = ctx.__dict__.setdefault("_sat_reported", set())
            ctx.count(f"violation:{k}")
            if k in reported:  # one (shrunk) replay per failure class and run
                continue
            reported.add(k)
            case_r, o_r, rp_r, extra = c, o, rp, {}
            if shrink:
                c2 = shrink_case(ctx, prop, c, k)
                if c2 is not c:
                    o2 = run_impl([c2], ctx)[0]
                    rp2 = Driver("Sat").run([to_request(c2, o2)])[0]
                    if any(pp == prop and kk == k for pp, kk, _ in judge(c2, o2, rp2)[0]):
                        case_r, o_r, rp_r, extra = c2, o2, rp2, {"shrunk_from": c}
            ctx.fail(FN, k, w, {"case": case_r, "impl": o_r, "model": _reply_doc(rp_r), **extra})
        if tdiv is not None and not mine:
            ctx.tdiv(FN, {"case": c, **tdiv, "impl": {k: (v if k != "solutions" or not v or len(v) <= 5 else v[:5] + ["..."])
                                                      for k, v in o[1].items()}})
        elif o[0] == "ok" and not mine:
            ctx.cov["r_trace_agree"] = ctx.cov.get("r_trace_agree", 0) + 1
            ms = rp[10][5]
            if ms[0] == o[1]["decisions"] and ms[1] == o[1]["propagations"]:
                ctx.cov["mirror_counters_agree"] = ctx.cov.get("mirror_counters_agree", 0) + 1
            ctx.cov["mirror_max_fuel_used_permille"] = max(ctx.cov.get("mirror_max_fuel_used_permille", 0),
                                                          (1000 * ms[5]) // max(1, ms[6]))
        if not mine:
            ctx.cov["r_prop_agree"] = ctx.cov.get("r_prop_agree", 0) + 1
        ctx.cov["learned_clauses_entailment_checked"] = ctx.cov.get("learned_clauses_entailment_checked", 0) + rp[10][7][0]
        ms = rp[10][5]
        ctx.count("mirror:conflicts>0" if ms[2] else "mirror:conflicts=0")
        ctx.count("mirror:restarts>0" if ms[3] else "mirror:restarts=0")
        if ms[4] >= 2000:
            ctx.count("mirror:learned>=2000(reduce_db)")
        if ms[7] >= 1:
            ctx.count("reduce_db_fired")
        if ms[7] >= 2:
            ctx.count("reduce_db_fired>=2")
            ctx.count("reduce_db_fired>=2:" + ("enumeration" if c["opts"].get("solution_limit", 1) > 1 else "single"))
        ctx.cov["reduce_db_reductions"] = ctx.cov.get("reduce_db_reductions", 0) + ms[7]
        ctx.case(canon(c), (ms[0] >= 1 and ms[2] >= 1) and (ms[7] >= 1 or not c["family"].startswith("reduce_db")),
                 {"case": c if len(str(c)) < 1500 else {"family": c["family"], "n_vars": rp[2], "clauses": len(c["clauses"])},
                  "impl": ({k: (v if k not in ("solutions",) else (len(v) if v else v)) for k, v in o[1].items()}
                           if o[0] == "ok" else list(o)),
                  "model": _reply_doc(rp, brief=True)})


def _reply_doc(rp, brief=False):
    d = {"wf": rp[0], "dpll_sat": rp[1], "n_vars": rp[2], "model_count": rp[3], "distinct": rp[6],
         "dpll_branchings": rp[7], "dpll_conflicts": rp[8],
         "mirror": {"status": rp[10][0], "n_solutions": rp[10][2], "solution_equal": rp[10][3], "solutions_equal": rp[10][4],
                    "decisions,propagations,conflicts,restarts,learned,iterations,fuel,reduce_db": rp[10][5]}}
    if not brief:
        d["evalCnf_solution"] = rp[4]
        d["evalCnf_solutions"] = rp[5] if len(rp[5]) <= 50 else rp[5][:50] + ["..."]
    else:
        d["evalCnf_all_true"] = all(c[0] for c in rp[4]) and all(c[0] for c in rp[5])
    return d


# ---------------------------------------------------------------------------
# shrinking (structural; keeps a candidate only if the same class still fails)
# ---------------------------------------------------------------------------

def _candidates(case):
    cl, asm, opts = case["clauses"], case["assumptions"], case["opts"]
    keep = {k: case[k] for k in ("lite", "witness") if k in case}
    pr = case.get("present") or None

    def mk(c, a, o, p=pr):
        d = {"family": case["family"], "clauses": c, "assumptions": a, "opts": o, **keep}
        if p and (p.get("alias") or any(k != "alias" for k in p)):
            d["present"] = {k: v for k, v in p.items() if k != "alias" or v}
        return d

    def pr_drop(gone):  # the presentation after the clause positions in `gone` are removed
        if not pr:
            return None
        m, k = {}, 0
        for i in range(len(cl)):
            if i not in gone:
                m[i] = k
                k += 1
        groups = [[m[i] for i in g if i in m] for g in pr.get("alias", [])]
        return {**pr, "alias": [g for g in groups if len(g) >= 2]}

    if pr:  # plainer presentations first
        yield mk(cl, asm, opts, None)
        for k in pr:
            if k != "alias":
                yield mk(cl, asm, opts, {kk: v for kk, v in pr.items() if kk != k})
        for g in pr.get("alias", []):
            yield mk(cl, asm, opts, {**pr, "alias": [h for h in pr["alias"] if h != g]})
    if len(cl) > 200:  # large formula: drop blocks of clauses only (halves, quarters, ... sixteenths)
        for parts in (2, 4, 8, 16):
            w = -(-len(cl) // parts)
            for i in range(0, len(cl), w):
                yield mk(cl[:i] + cl[i + w:], asm, opts, pr_drop(set(range(i, i + w))))
        return
    for i in range(len(cl)):
        yield mk(cl[:i] + cl[i + 1:], asm, opts, pr_drop({i}))
    for i in range(len(asm)):
        yield mk(cl, asm[:i] + asm[i + 1:], opts)
    for k in list(opts):
        o = dict(opts)
        del o[k]
        yield mk(cl, asm, o)
    if opts.get("solution_limit", 1) > 3:
        yield mk(cl, asm, {**opts, "solution_limit": 3})
    if len(cl) <= 40:
        group_of = {i: g for g in (pr or {}).get("alias", []) for i in g}
        for i, c in enumerate(cl):
            members = group_of.get(i, [i])
            if len(c) > 1 and i == members[0]:  # a literal leaves every position that shares the object
                for j in range(len(c)):
                    yield mk([c[:j] + c[j + 1:] if k in members else d for k, d in enumerate(cl)], asm, opts)
    # renumber: drop the largest variable index gap
    vs = sorted({abs(l) for c in cl for l in c} | {abs(a) for a in asm})
    if vs and vs != list(range(1, len(vs) + 1)):
        mp = {v: i + 1 for i, v in enumerate(vs)}
        f = lambda l: (1 if l > 0 else -1) * mp[abs(l)]  # noqa: E731
        yield mk([[f(l) for l in c] for c in cl], [f(a) for a in asm], opts)


def shrink_case(ctx, prop, case, klass, rounds=40):
    import solvor.sat  # noqa: F401
    limit = 3.0 if klass == "no_return" else 10.0
    if klass == "no_return":
        rounds = 6
    if len(case["clauses"]) > 200:
        limit, rounds = 20.0, 8
    cur = case
    for _ in range(rounds):
        cands = list(_candidates(cur))[:(32 if klass == "no_return" else 400)]
        if not cands:
            break
        outs = run_pool(impl, cands, timeout=limit)
        reps = Driver("Sat").run([to_request(c, o) for c, o in zip(cands, outs)], chunks=8)
        nxt = None
        for c, o, rp in zip(cands, outs, reps):
            if rp and rp[0] == "error":
                continue
            fails, _, _ = judge(c, o, rp)
            if any(p == prop and k == klass for p, k, _ in fails):
                nxt = c
                break
        if nxt is None:
            break
        cur = nxt
    return cur


# ---------------------------------------------------------------------------
# the run shared by C01 and C02 (they differ in the family weights and in the clauses they report)
# ---------------------------------------------------------------------------

def run_prop(ctx, prop, budget, weights, n_quick):
    ctx.cov["rule"] = RULE
    ctx.cov.setdefault("cert_checked_impl", 0)
    ctx.cov["missing_theorems"] = ["cdcl_returns_models [S] (proved: cdcl_returns_models_partial - every assignment the "
                                   "mirror returns passes evalCnf, for inputs without repeated literals in a clause, and enumerations are "
                                   "pairwise distinct (checked by the mirror before returning); open: repeated literals, "
                                   "the mirror's GUARD exit never fires)",
                                   "cdcl_infeasible_sound [S] (proved: cdcl_infeasible_sound_partial - INFEASIBLE from the "
                                   "certifying mirror implies unsatisfiable, inputs without repeated literals)",
                                   "cdcl_fuel_suffices [S] (proved: cdcl_fuel_suffices_partial - the mirror's FUEL exit is "
                                   "never taken, inputs without repeated literals / empty clauses; open: the GUARD exit)"]
    first = list(edge_cases()) + [c["case"] for c in core.load_corpus("C01")] + [c["case"] for c in core.load_corpus("C02")]
    for c in first:
        c.setdefault("family", "corpus")
    run_cases(ctx, prop, first)
    searching = getattr(ctx, "seed_shift", 0)  # second call by main.py: the extended failing-input search
    # a fixed number of inputs on which the solver reduces its learned-clause database (several times): code that
    # only runs inside / after reduce_db is out of reach of the small families below
    n_enum, n_single = (12, 160) if searching else (10, 64) if ctx.tier == "thorough" else (6, 26)
    t1 = time.time()
    run_cases(ctx, prop, reduce_db_cases(ctx.rng, n_enum, n_single))
    ctx.cov.setdefault("chunk_seconds", []).append(["reduce_db", n_enum + n_single, round(time.time() - t1, 1)])
    if ctx.tier == "thorough" and not searching:
        t1 = time.time()
        run_cases(ctx, prop, [gen_long_run(ctx.rng, k) for k in range(3)])
        ctx.cov.setdefault("chunk_seconds", []).append(["long_run", 3, round(time.time() - t1, 1)])
    if ctx.cov["histogram"].get("reduce_db_fired>=2:enumeration", 0) < 2 or ctx.cov["histogram"].get("reduce_db_fired>=2:single", 0) < 2:
        ctx.notes.append("reach: fewer than 2 enumeration / 2 single-solution inputs made the mirror reduce its clause "
                         "database twice in this run")
    if searching or ctx.tier == "thorough":
        # exhaustive small scope: every CNF over <=3 variables with <=3 clauses of length <=3 (11521 formulas),
        # and a sample of the <=4 variables / <=4 clauses scope
        chunks = [list(scope_cases(ctx.rng, 3, 3, 3, 2)), list(scope_cases(ctx.rng, 4, 4, 3, 1, cap=25_000))]
    else:
        chunks = [list(scope_cases(ctx.rng, 3, 3, 3, 1, cap=4000))]
    n = n_quick if budget <= 1 else 5000 * budget  # quick 12000, thorough 60000, extended search 6x / 3x of that
    per = 1500
    for k in range(0, n, per):
        chunks.append(generate(ctx.rng, min(per, n - k), ctx.tier, weights))
    # a small first chunk, so that a badly broken tree (calls that never return) is reported quickly
    chunks = [chunks[0][:300], chunks[0][300:]] + chunks[1:]
    deadline = ctx.t0 + (45 if ctx.tier == "quick" else 700) * (1.5 if searching else 1)
    for ch in chunks:
        if time.time() > deadline:
            ctx.notes.append(f"stopped early: time budget used up after {ctx.cov['evaluations']} cases "
                             f"({ctx.__dict__.get('_sat_hang', {}).get('confirmed', 0)} confirmed timeouts)")
            break
        if len(ctx.violations) >= 5:
            ctx.notes.append("stopped early: 5 violations (one per failure class) recorded")
            break
        if ch:
            t1 = time.time()
            run_cases(ctx, prop, ch)
            ctx.cov.setdefault("chunk_seconds", []).append([ch[0]["family"] if ch[0]["family"].startswith("scope") else "generated",
                                                            len(ch), round(time.time() - t1, 1)])
    lub = Driver("Sat").run([["luby", 64]])[0]
    ctx.cov["luby_1_to_64"] = lub


def replay_prop(ctx, prop, body):
    ctx.cov["rule"] = RULE
    if "case" in body:
        cases = [body["case"]]
    else:  # a `no-failing-input-found` replay: re-run the inputs on which the mirror relation diverged
        cases = [t["detail"]["case"] for t in body.get("trace_divergences", []) if "case" in t.get("detail", {})]
    run_cases(ctx, prop, cases, shrink=False)
    if "case" not in body and ctx.trace_div and not ctx.violations:
        ctx.fail(FN, "no_failing_input", "R_trace still diverges on the recorded input(s)",
                 {"trace_divergences": ctx.trace_div[:5]}, no_input=True)
