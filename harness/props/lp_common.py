"""Shared helpers of the Lp area checks (C03, C04): structured LP generators and protocol encoding."""
from __future__ import annotations

from fractions import Fraction

from core import rat


def num(rng, lo, hi, dyadic=0.0):
    """small integer, or (with probability `dyadic`) a multiple of 1/2 or 1/4 (exact as a double)."""
    v = rng.randint(lo, hi)
    if dyadic and rng.random() < dyadic:
        return v + rng.choice([0.5, 0.25, -0.5, 0.75])
    return v


def enc_vec(v):
    return [rat(x) for x in v]


def enc_mat(A):
    return [[rat(x) for x in r] for r in A]


def finite(x) -> bool:
    return isinstance(x, (int, float)) and x == x and x not in (float("inf"), float("-inf"))


def enc_point(x):
    """list of floats -> list of [num, den], or None when absent / not finite / not numeric."""
    if x is None:
        return None
    try:
        xs = list(x)
    except TypeError:
        return None
    if not all(finite(v) for v in xs):
        return None
    return [rat(v) for v in xs]


def enc_num(x):
    return rat(x) if finite(x) else None


def dot(a, x):
    return sum(Fraction(u) * Fraction(v) for u, v in zip(a, x))


# ---------------------------------------------------------------------------
# LP families (DESIGN §4 C03 generator)
# ---------------------------------------------------------------------------

def lp_random(rng, mmax, nmax, dy):
    m, n = rng.randint(1, mmax), rng.randint(1, nmax)
    dens = rng.choice([0.4, 0.7, 1.0])
    A = [[num(rng, -5, 9, dy) if rng.random() < dens else 0 for _ in range(n)] for _ in range(m)]
    b = [num(rng, -5, 12, dy) for _ in range(m)]
    c = [num(rng, -6, 8, dy) for _ in range(n)]
    return c, A, b


def lp_bounded(rng, mmax, nmax, dy):
    """non-negative rows covering every variable => bounded feasible region; b may be negative in a few rows"""
    m, n = rng.randint(1, mmax), rng.randint(1, nmax)
    A = [[rng.randint(0, 6) if rng.random() < 0.7 else 0 for _ in range(n)] for _ in range(m)]
    for j in range(n):
        if not any(A[i][j] > 0 for i in range(m)):
            A[rng.randrange(m)][j] = rng.randint(1, 5)
    b = [num(rng, 0, 20, dy) for _ in range(m)]
    c = [num(rng, -8, 8, dy) for _ in range(n)]
    return c, A, b


def lp_degenerate(rng, mmax, nmax, dy):
    """several rows tight at one integer point (ties in the ratio test, degenerate vertices)"""
    n = rng.randint(1, nmax)
    m = rng.randint(min(2, mmax), mmax)
    v = [rng.choice([0, 0, 1, 2, 3]) for _ in range(n)]
    A, b = [], []
    for _ in range(m):
        row = [rng.randint(-3, 6) if rng.random() < 0.8 else 0 for _ in range(n)]
        slack = 0 if rng.random() < 0.75 else rng.randint(0, 4)
        A.append(row)
        b.append(sum(r * x for r, x in zip(row, v)) + slack)
    c = [num(rng, -6, 6, dy) for _ in range(n)]
    return c, A, b


def lp_phase1(rng, mmax, nmax, dy):
    """lower bounds / >= rows (negative rhs) and equality pairs: phase 1, artificials left basic"""
    n = rng.randint(1, nmax)
    A, b = [], []
    v = [rng.randint(0, 4) for _ in range(n)]  # a point that is kept feasible
    k = rng.randint(1, max(1, mmax - 1))
    for _ in range(k):
        row = [rng.randint(-4, 6) if rng.random() < 0.7 else 0 for _ in range(n)]
        val = sum(r * x for r, x in zip(row, v))
        kind = rng.random()
        if kind < 0.35:    # a.x >= val - s   written as  -a.x <= -(val - s)
            s = rng.randint(0, 3)
            A.append([-r for r in row]); b.append(-(val - s))
        elif kind < 0.6 and len(A) + 2 <= mmax:  # equality pair (redundant in phase 1)
            A.append(list(row)); b.append(val)
            A.append([-r for r in row]); b.append(-val)
        else:
            A.append(row); b.append(val + rng.randint(0, 5))
    if rng.random() < 0.5 and len(A) < mmax:  # x_j >= l
        j = rng.randrange(n)
        A.append([-1 if t == j else 0 for t in range(n)]); b.append(-min(v[j], rng.randint(0, 3)))
    if rng.random() < 0.5 and len(A) < mmax:  # cap so that the optimum is finite more often
        A.append([1] * n); b.append(sum(v) + rng.randint(0, 6))
    A, b = A[:mmax], b[:mmax]
    c = [num(rng, -6, 8, dy) for _ in range(n)]
    return c, A, b


def lp_infeasible(rng, mmax, nmax, dy):
    c, A, b = lp_phase1(rng, max(1, mmax - 2), nmax, dy)
    n = len(c)
    row = [rng.randint(0, 4) for _ in range(n)]
    if not any(row):
        row[rng.randrange(n)] = 1
    t = rng.randint(1, 9)
    pos = rng.randrange(len(A) + 1)
    A.insert(pos, row); b.insert(pos, t)                     # row.x <= t
    pos = rng.randrange(len(A) + 1)
    A.insert(pos, [-r for r in row]); b.insert(pos, -(t + rng.randint(1, 4)))  # row.x >= t+d
    return c, A, b


def lp_unbounded(rng, mmax, nmax, dy):
    n = rng.randint(1, nmax)
    m = rng.randint(1, mmax)
    d = [rng.randint(0, 3) for _ in range(n)]
    if not any(d):
        d[rng.randrange(n)] = 1
    A = []
    for _ in range(m):
        while True:
            row = [rng.randint(-5, 5) for _ in range(n)]
            if sum(r * x for r, x in zip(row, d)) <= 0:
                break
        A.append(row)
    b = [rng.randint(-3, 10) if rng.random() < 0.3 else rng.randint(0, 10) for _ in range(m)]
    c = [num(rng, -6, 6, dy) for _ in range(n)]
    return c, A, b


def lp_strip(rng):
    """feasible region = strip between two opposite parallel rows  lo <= a.x <= hi  (both written as <= rows, scaled,
    possibly duplicated), 2-3 variables, objective pushing along the strip (unbounded), against it, or across it;
    lo > hi gives the infeasible variant, lo == hi an equality pair; optional cap row makes it bounded"""
    n = rng.choice([2, 2, 3])
    while True:
        a = [rng.randint(-3, 3) for _ in range(n)]
        if any(v > 0 for v in a) and any(v < 0 for v in a):
            break
    kind = rng.random()
    lo = rng.randint(-2, 3)
    if kind < 0.2:
        hi = lo - rng.randint(1, 3)            # infeasible strip
    elif kind < 0.4:
        hi = lo                                # equality pair
    else:
        hi = lo + rng.randint(1, 3)
    k1 = rng.choice([1, 1, 2, 3, 0.5])
    k2 = rng.choice([1, 1, 2, 3, 0.5])
    A = [[k1 * v for v in a], [-k2 * v for v in a]]
    b = [k1 * hi, -k2 * lo]
    if rng.random() < 0.5:
        A.reverse(); b.reverse()
    if rng.random() < 0.15:                    # a third parallel row
        k3 = rng.choice([1, 2])
        A.append([k3 * v for v in a]); b.append(k3 * (hi + rng.randint(0, 2)))
    if rng.random() < 0.15:                    # cap: bounded variant
        A.append([1] * n); b.append(rng.randint(2, 9))
    # a non-negative direction along the strip: d with a.d = 0
    pos = [j for j in range(n) if a[j] > 0]; neg = [j for j in range(n) if a[j] < 0]
    d = [0] * n
    jp, jn = rng.choice(pos), rng.choice(neg)
    d[jp], d[jn] = -a[jn], a[jp]
    r = rng.random()
    if r < 0.6:
        c = [rng.choice([1, 2, 3]) * v for v in d]          # along the strip
        if rng.random() < 0.3:
            c = [v + rng.randint(0, 1) for v in c]
    elif r < 0.8:
        c = [rng.randint(-3, 3) for _ in range(n)]
    else:
        c = list(a)                                         # across the strip
    return c, A, b


def lp_artdeg(rng):
    """degenerate phase-1 vertices: several >=-rows (negative rhs) tight at one integer vertex v with linearly
    dependent normals – pairs whose sum is capped by an opposite row (so both are forced tight), equalities written
    as two opposite rows plus a redundant combination; integer data, so ratio ties are exact and artificials stay
    basic at level zero after phase 1"""
    n = rng.randint(3, 5)
    while True:
        v = [rng.choice([0, 1, 2, 3, 3]) for _ in range(n)]
        if sum(1 for t in v if t > 0) >= 2:
            break

    def normal():
        for _ in range(100):
            a = [rng.randint(-2, 3) if rng.random() < 0.8 else 0 for _ in range(n)]
            if sum(x * y for x, y in zip(a, v)) > 0:
                return a
        return [1 if t > 0 else 0 for t in v]

    def dot(a):
        return sum(x * y for x, y in zip(a, v))

    A, b = [], []

    def ge(a, slack=0):       # a.x >= a.v - slack   written as  -a.x <= -(a.v - slack)
        A.append([-x for x in a]); b.append(-(dot(a) - slack))

    def le(a, slack=0):
        A.append(list(a)); b.append(dot(a) + slack)

    for _ in range(rng.randint(1, 2)):
        kind = rng.random()
        a1, a2 = normal(), normal()
        if kind < 0.45:        # two >= rows whose sum is capped by the opposite row: all three tight
            k = rng.choice([1, 1, 2])
            ge(a1); ge(a2); le([k * (x + y) for x, y in zip(a1, a2)])
        elif kind < 0.8:       # equality as two opposite rows + a redundant combination with another tight row
            ge(a1); le(a1); ge(a2)
            ge([x + y for x, y in zip(a1, a2)])
        else:                  # three dependent >= rows
            ge(a1); ge(a2); ge([x + 2 * y for x, y in zip(a1, a2)])
    if rng.random() < 0.6:
        j = rng.randrange(n)
        le([2 if t == j else 0 for t in range(n)], slack=rng.choice([0, 0, 2]))
    if rng.random() < 0.4:
        le([1] * n, slack=rng.randint(0, 3))
    idx = list(range(len(A))); rng.shuffle(idx)
    A = [A[i] for i in idx]; b = [b[i] for i in idx]
    c = [rng.randint(-3, 3) for _ in range(n)]
    return c, A, b


FAMILIES = [("random", lp_random), ("bounded", lp_bounded), ("degenerate", lp_degenerate),
            ("phase1", lp_phase1), ("infeasible", lp_infeasible), ("unbounded", lp_unbounded)]


def mutate(rng, c, A, b):
    """duplicated / parallel rows, zero rows and zero columns"""
    m, n = len(A), len(c)
    r = rng.random()
    if r < 0.18 and m >= 1:       # duplicate or scaled copy of a row
        i = rng.randrange(m)
        k = rng.choice([1, 1, 2, 3])
        pos = rng.randrange(m + 1)
        A.insert(pos, [k * v for v in A[i]])
        b.insert(pos, k * b[i] + rng.choice([0, 0, 1]))
    elif r < 0.28:                # zero row
        pos = rng.randrange(m + 1)
        A.insert(pos, [0] * n)
        b.insert(pos, rng.choice([0, 0, 3]))
    elif r < 0.38:                # zero column
        j = rng.randrange(n)
        for row in A:
            row[j] = 0
    return c, A, b


def gen_lp(rng, mmax=6, nmax=6):
    name, fam = rng.choice(FAMILIES)
    dy = rng.choice([0.0, 0.0, 0.15])
    c, A, b = fam(rng, mmax, nmax, dy)
    c, A, b = mutate(rng, c, A, b)
    if len(A) > mmax + 1:
        A, b = A[:mmax + 1], b[:mmax + 1]
    return name, c, A, b


# ---------------------------------------------------------------------------
# replay shrinker (DESIGN §2.7): structural, keeps a candidate only if the SAME (function, class) still fails
# ---------------------------------------------------------------------------

class RecCtx:
    """stand-in for core.Ctx that only records which (function, class) pairs fail"""

    def __init__(self, tier="quick"):
        self.failed = []
        self.cov = {}
        self.notes = []
        self.tier = tier

    def fail(self, function, klass, what, replay, no_input=False):
        self.failed.append((function, klass))
        return True

    def tdiv(self, function, detail):
        self.failed.append((function, "r_trace"))

    def count(self, *a, **k):
        pass

    def case(self, *a, **k):
        pass


def _num_steps(v):
    """smaller values to try for one coefficient: 0, then ±1, then half-way to 0"""
    out = []
    if v != 0:
        out.append(0)
        s = 1 if v > 0 else -1
        if abs(v) > 1:
            out.append(s)
            h = int(v / 2)
            if h not in (0, s, v):
                out.append(h)
        if isinstance(v, float) and v != int(v):
            out.append(int(v))
    return out


def lp_candidates(case, int_key=None):
    """single-step simplifications of an LP/MILP case: drop a row, drop a column, shrink one number"""
    import copy
    c, A, b = case["c"], case["A"], case["b"]
    m, n = len(A), len(c)
    if m > 1:
        for i in range(m):
            k = copy.deepcopy(case)
            del k["A"][i]; del k["b"][i]
            yield f"drop row {i}", k
    if n > 1:
        for j in range(n):
            k = copy.deepcopy(case)
            del k["c"][j]
            for r in k["A"]:
                del r[j]
            if int_key:
                k[int_key] = [t - (1 if t > j else 0) for t in k[int_key] if t != j]
            yield f"drop column {j}", k
    for j in range(n):
        for v in _num_steps(c[j]):
            k = copy.deepcopy(case); k["c"][j] = v
            yield f"c[{j}] {c[j]}->{v}", k
    for i in range(m):
        for v in _num_steps(b[i]):
            k = copy.deepcopy(case); k["b"][i] = v
            yield f"b[{i}] {b[i]}->{v}", k
        for j in range(n):
            for v in _num_steps(A[i][j]):
                k = copy.deepcopy(case); k["A"][i][j] = v
                yield f"A[{i}][{j}] {A[i][j]}->{v}", k


def shrink(case, candidates, fails_batch, max_rounds=80, max_seconds=40.0, deadline=None):
    """Greedy delta debugging: in every round all single-step candidates are evaluated in one batch (implementation
    in the worker pool, model in bounded driver calls) and the first one on which the same failure still shows is
    kept.  Stops at `deadline` (absolute time of the whole run's shrink budget) or after `max_seconds`."""
    import time
    t0 = time.time()
    history = []
    for _ in range(max_rounds):
        if time.time() - t0 > max_seconds or (deadline is not None and time.time() > deadline):
            history.append("time budget exhausted")
            break
        cands = list(candidates(case))
        if not cands:
            break
        verdicts = fails_batch([k for _, k in cands])
        hit = next((i for i, v in enumerate(verdicts) if v), None)
        if hit is None:
            break
        history.append(cands[hit][0])
        case = cands[hit][1]
    return case, history


def write_min(ctx, prop, function, klass, case, history, extra=None):
    """write the minimised case next to the replays and mention it in the evidence notes"""
    import hashlib
    import json
    import core
    core.REPLAYS.mkdir(exist_ok=True)
    body = {"property": prop, "function": function, "class": klass, "case": case, "shrink_history": history,
            "minimised": True, **(extra or {})}
    h = hashlib.sha1(json.dumps(body, sort_keys=True, default=str).encode()).hexdigest()[:10]
    path = core.REPLAYS / f"{prop}_{function}_{h}.min.json"
    path.write_text(json.dumps(body, indent=1, default=str))
    msg = f"minimised failing input for {function}:{klass} ({len(history)} shrink steps): {path.relative_to(core.VERIF) if str(path).startswith(str(core.VERIF)) else path}"
    ctx.notes.append(msg)
    print("SHRUNK " + msg)
    return path


# ---------------------------------------------------------------------------
# bounded driver calls: a check must end on a FAILING tree too
# ---------------------------------------------------------------------------

LIMITS = {
    "quick": {"drv": 120.0, "shrink_total": 60.0, "pool": 30.0, "mirror_nodes": 3000, "slices": 3},
    "thorough": {"drv": 600.0, "shrink_total": 300.0, "pool": 90.0, "mirror_nodes": 30000, "slices": 6},
}
CANDIDATE_SECONDS = 5.0      # one shrink candidate, implementation and model each


def safe_run(reqs, timeout, parts=None, nproc=16, retry=True, area="Lp"):
    """Driver("Lp").run with a wall-clock cap.  The requests are split into `parts` (default: `nproc` contiguous
    chunks), every part runs in its own driver process with `timeout`; a part that times out or dies is retried once
    in pieces of <= 4 requests (half the timeout each), and what fails again is answered `None` (the caller drops
    those cases with a note – never a verdict)."""
    from concurrent.futures import ThreadPoolExecutor
    import core
    n = len(reqs)
    out = [None] * n
    if n == 0:
        return out, 0
    if parts is None:
        size = max(1, (n + nproc - 1) // nproc)
        parts = [list(range(k, min(n, k + size))) for k in range(0, n, size)]

    def one(idx, tmo):
        try:
            rs = core.Driver(area).run([reqs[i] for i in idx], timeout=tmo, chunks=1)
            return idx, rs
        except core.Infra:
            return idx, None

    failed = []
    with ThreadPoolExecutor(max_workers=nproc) as ex:
        for idx, rs in ex.map(lambda p: one(p, timeout), parts):
            if rs is None:
                failed.append(idx)
            else:
                for i, r in zip(idx, rs):
                    out[i] = r
        if retry and failed:
            small = [idx[k:k + 4] for idx in failed for k in range(0, len(idx), 4)]
            for idx, rs in ex.map(lambda p: one(p, max(5.0, timeout / 2)), small):
                if rs is not None:
                    for i, r in zip(idx, rs):
                        out[i] = r
    dropped = sum(1 for r in out if r is None)
    return out, dropped


def note_dropped(ctx, dropped, what):
    if dropped:
        ctx.count("dropped:driver_timeout", dropped)
        msg = f"{what}: model requests dropped after a driver timeout (no verdict on those cases)"
        if msg not in ctx.notes:
            ctx.notes.append(msg)
