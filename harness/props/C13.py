"""C13 — kruskal and prim (solvor/mst.py) against the proved models and verified checkers of Solvor/Mst.

One *case* is one undirected weighted graph; on it the real `kruskal` (allow_forest False, True
and not passed, backend='python') and the real `prim` (start=None and a list of start nodes) are
run.  Every verdict on an implementation output comes from a Bool checker evaluated in Lean whose
correctness is proved in Solvor/Mst/Theorems.lean:

  chkSpanningTree    n-1 input edges connecting all nodes   (<=> spanning tree; => acyclic)
  chkSpanningForest  input edges, acyclic, same components as the input
  chkMinCert         cycle-property certificate             (=> weight minimal over ALL spanning trees/forests)
  connectedB         the input graph is connected
  goodAdjB/sameGraphB  the hypotheses of the prim theorems hold of the generated adjacency lists

and the mirrors' own answers are proved for every input (kruskal_forest, kruskal_minimal,
prim_tree, prim_minimal, kruskal_prim_agree, kruskalUF_eq), so "weight = the mirror's weight" is
"weight = the minimum".  `mstBrute` (<= 12 edges) is a bounded definitional oracle kept as a
cross-check of the specification only.

Weights are integers k or dyadic rationals k/scale; Lean gets k, Python gets k/scale (exact in
binary floating point, sums far below 2**53, so every comparison is exact).
"""
from __future__ import annotations

import json
from fractions import Fraction

import core
from core import Driver
from pool import err_kind, run_pool

AREAS = ["Mst"]
LEVEL = "proof"
ASSUMPTIONS = [
    "sorted(key=weight) modelled as a stable insertion sort; heapq modelled as 'pop the least (weight, counter)' "
    "(counters are unique, so node labels are never compared); tied by R_trace: the returned status, edge list "
    "(in order) and objective equal the mirrors' on every explored input",
    "UnionFind (parent/rank, path compression, union by rank) is inside the model: kruskalUF_eq proves the literal "
    "mirror returns what the label model returns",
    "weights are integers / dyadic rationals (exact float sums); IEEE rounding of arbitrary float weights is "
    "outside the model",
    "prim is given an undirected graph: every edge listed in both adjacency lists and every node a dict key "
    "(GoodAdj, decided per input by the verified goodAdjB; sameGraphB ties it to kruskal's edge list)",
    "the constants of `len(mst_edges) == n_nodes - 1`, `< n_nodes - 1` and the allow_forest default are regenerated "
    "from the source into Solvor/Gen/MstConsts.lean on every run",
]
RULE = ("random undirected multigraphs, <= 8 nodes / <= 14 edges (thorough: every third case up to 12 / 24): spanning "
        "tree + extra edges, sparse random (often disconnected), several components, complete graphs; duplicate and "
        "reversed-duplicate edges, self loops, few distinct / equal / negative / dyadic weights, int-float mixes; "
        "kruskal with allow_forest False, True and not passed, prim from start=None and from start nodes (thorough: every node) "
        "with int / shifted / negative / str / tuple / mixed node labels and shuffled adjacency lists; every 7th case "
        "is a 'tournament' graph (9-18 nodes: weight levels make Kruskal merge singletons -> pairs -> quads -> octets "
        "through roots or arbitrary members, intra-component edges between the levels, a late-joining or isolated node) "
        "so that union-find trees reach depth 3-4; plus a fixed number of big cases per run: 12 (thorough 48) 'large' "
        "graphs with 1000-2500 nodes (paths in all 8 orientation x weight-direction x edge-order combinations, then "
        "random caterpillars / stars / paths, extra edges touching the ends, sometimes disconnected; run under the "
        "default recursion limit) and 40 (300) 'dense' (near-)complete graphs with 20-32 nodes, many-ties / few-ties "
        "weights; every 6th random case and every 4th dense case is re-weighted with NUMERIC-EDGE weights, all exactly "
        "representable with exact sums: tiny dyadics k*2^-40 / k*2^-30 (differences far below 1e-9), huge integers "
        "2^40..2^48 with unit differences, huge and tiny in one graph, 13-digit weights differing from the 10th "
        "significant digit on, negative and mixed-sign versions, equal weights as int and as float.  PRESENTATION (recipe in case['present']): edges as tuples / lists / mixed, equal edges as the same "
        "object, one list object for all kruskal calls; prim's neighbour collections as list / tuple / generator / "
        "iter / map / reversed / dict keys view (per graph or per node), pairs as tuples / lists, int / float / bool "
        "weights, odd hashable labels (None, 0, '', (), frozenset(), -1, 0.5, '0', ...; a start node labelled None is "
        "mirrored as 'start not given'), kruskal and prim calls in three orders.  HISTORIES: every 12th item is 2-4 "
        "related graphs run in one worker call (same input on the same / fresh objects, re-weighted, narrowed, "
        "widened); a clause that fails there but not alone in a fresh process gets ':after_previous_call'; non-trivial = "
        "the kruskal mirror rejected >= 1 edge (iterations > accepted edges); distinct by (n, edges, scale)")

LABEL_KINDS = ["int", "shift", "neg", "str", "tuple", "mixed", "odd", "odd"]

# odd but perfectly good hashable labels, pairwise different under == (no bools: True == 1)
ODD = [0, "", None, (), frozenset(), -1, 0.5, "0", (0,), "None", 1, ("",), -0.5, "1", (None,), 2 ** 70, " ", (0, 0),
       "a", -2.5]


def label(kind: str, i: int, rot: int = 0):
    if kind == "int":
        return i
    if kind == "shift":
        return 3 * i + 10
    if kind == "neg":
        return -i - 1
    if kind == "str":
        return f"n{i}"
    if kind == "tuple":
        return (i // 3, i % 3)
    if kind == "odd":
        return ODD[(i + rot) % len(ODD)] if i < len(ODD) else ("odd", i)
    # mixed: labels of different, mutually unorderable types
    return [i, f"s{i}", (i, "t"), i + 0.5, frozenset([i, -1])][i % 5]


def labels_of(case):
    return [label(case["labels"], i, case.get("labrot", 0)) for i in range(case["n"])]


# presentation of the arguments (what the annotations allow: `edges: list[tuple]`, neighbour collections: Iterable)
EDGE_STYLES = ["tuple", "tuple", "list", "mixed"]
NBR_STYLES = ["list", "tuple", "gen", "iter", "map", "reversed", "dictkeys"]
ONE_SHOT = {"gen", "iter", "map", "reversed"}


def gen_present(rng, n):
    r = rng.random()
    if r < 0.45:
        nbr = rng.choice(["list", "tuple"])
    elif r < 0.75:
        nbr = rng.choice(NBR_STYLES)
    else:
        nbr = [rng.choice(NBR_STYLES) for _ in range(n)]
    return {"edge": rng.choice(EDGE_STYLES), "alias": rng.random() < 0.3, "nbr": nbr,
            "pair": rng.choice(["tuple", "tuple", "list", "mixed"]), "share": rng.random() < 0.4,
            "order": rng.choice(["kp", "pk", "interleave"])}


def nbr_styles(case):
    pr = case.get("present") or {}
    st = pr.get("nbr", "tuple" if case.get("container") == "tuple" else "list")
    return list(st) if isinstance(st, list) else [st] * case["n"]


# ---------------------------------------------------------------------------
# generator
# ---------------------------------------------------------------------------

def gen_graph(rng, big: bool):
    max_n, max_m = (12, 24) if big else (8, 14)
    n = rng.choice([1, 2, 3, 4, 5, 6, 7, 8, max_n]) if rng.random() < 0.85 else rng.randint(1, max_n)
    shape = rng.choice(["tree+", "tree+", "sparse", "parts", "dense", "tree"])
    style = rng.choice(["small", "small", "two", "equal", "neg", "wide", "dyadic"])
    scale = rng.choice([2, 4, 8]) if style == "dyadic" else 1

    def wt():
        if style == "small":
            return rng.randint(1, 4)
        if style == "two":
            return rng.choice([1, 2])
        if style == "equal":
            return 3
        if style == "neg":
            return rng.randint(-4, 4)
        if style == "wide":
            return rng.randint(-50, 1000)
        return rng.randint(-6, 24)  # dyadic numerators

    edges = []

    def tree_on(nodes):
        nodes = list(nodes)
        rng.shuffle(nodes)
        for i in range(1, len(nodes)):
            a, b = nodes[i], nodes[rng.randrange(i)]
            if rng.random() < 0.5:
                a, b = b, a
            edges.append([a, b, wt()])

    if shape in ("tree+", "tree"):
        tree_on(range(n))
        extra = 0 if shape == "tree" else rng.randint(0, max(0, max_m - (n - 1)))
        for _ in range(extra):
            edges.append([rng.randrange(n), rng.randrange(n), wt()])
    elif shape == "sparse":
        for _ in range(rng.randint(0, min(max_m, n + 2))):
            edges.append([rng.randrange(n), rng.randrange(n), wt()])
    elif shape == "parts":
        k = rng.randint(2, 3)
        groups = [[] for _ in range(k)]
        for v in range(n):
            groups[rng.randrange(k)].append(v)
        for g in groups:
            if g:
                tree_on(g)
                for _ in range(rng.randint(0, 3)):
                    edges.append([rng.choice(g), rng.choice(g), wt()])
        if rng.random() < 0.3 and n >= 2:  # sometimes bridge the parts again
            for _ in range(k):
                edges.append([rng.randrange(n), rng.randrange(n), wt()])
    else:  # dense
        pairs = [(a, b) for a in range(n) for b in range(a + 1, n)]
        rng.shuffle(pairs)
        for a, b in pairs[:max_m]:
            if rng.random() < 0.8:
                edges.append([a, b, wt()] if rng.random() < 0.5 else [b, a, wt()])
    # duplicates (same / other weight, same / reversed orientation) and self loops
    for _ in range(rng.choice([0, 0, 1, 2, 3])):
        if edges:
            u, v, w = rng.choice(edges)
            if rng.random() < 0.5:
                u, v = v, u
            edges.append([u, v, w if rng.random() < 0.5 else wt()])
    for _ in range(rng.choice([0, 0, 0, 1, 2])):
        v = rng.randrange(n)
        edges.append([v, v, wt()])
    rng.shuffle(edges)
    edges = edges[:max_m]
    wkind = rng.choice(["float", "float", "int", "mixed"]) if scale == 1 else "float"
    # adjacency for prim: every undirected edge in both lists (a self loop once or twice), lists shuffled
    adj = [[] for _ in range(n)]
    for u, v, k in edges:
        adj[u].append([v, k])
        if u != v or rng.random() < 0.5:
            adj[v].append([u, k])
    for lst in adj:
        rng.shuffle(lst)
    return {"n": n, "edges": edges, "scale": scale, "wkind": wkind, "adj": adj}


def gen_tournament(rng, big: bool):
    """Deep union-find trees.  Kruskal merges singletons -> pairs -> quads -> octets (-> 16) level by level (one weight
    level per round, every merge of a round joins two components of the round before), so union by rank builds trees of
    depth 3 (4).  Merge endpoints are arbitrary members or -- half of the time -- the current roots (no path
    compression on the way); intra-component edges of intermediate weight sit between the levels and after the last
    one, and a late-joining or isolated node keeps the loop running past the last merge."""
    leaves = rng.choice([8, 8, 9, 11, 12, 16] if big else [8, 8, 8, 9, 10, 12, 16])
    extra = rng.choice([1, 1, 2]) if leaves < 16 else 1
    n = leaves + extra
    ids = list(range(n))
    rng.shuffle(ids)
    scale = rng.choice([1, 1, 2, 4])
    step = 8 * scale  # distance between two weight levels (numerators)
    base = rng.choice([-3 * step, 0, 1, 5])
    parent = {v: v for v in ids[:leaves]}  # generator-side bookkeeping of the roots (union by rank, first root wins ties)
    rank = {v: 0 for v in ids[:leaves]}
    comps = [[v] for v in ids[:leaves]]
    edges = []
    level = 0

    def root(v):
        while parent[v] != v:
            v = parent[v]
        return v

    def pick(comp):
        return root(comp[0]) if rng.random() < 0.5 else rng.choice(comp)

    def intra(cs, lo, hi, count):
        for _ in range(count):
            c = rng.choice(cs)
            if len(c) >= 2:
                a, b = rng.choice(c), rng.choice(c)
                edges.append([a, b, rng.randint(lo, hi)])

    while len(comps) > 1:
        level += 1
        w = base + level * step
        rng.shuffle(comps)
        nxt = []
        for i in range(0, len(comps) - 1, 2):
            a, b = comps[i], comps[i + 1]
            if rng.random() < 0.5:
                a, b = b, a
            u, v = pick(a), pick(b)
            edges.append([u, v, w])
            ru, rv = root(u), root(v)
            if rank[ru] < rank[rv]:
                ru, rv = rv, ru
            parent[rv] = ru
            if rank[ru] == rank[rv]:
                rank[ru] += 1
            nxt.append(a + b)
        if len(comps) % 2:
            nxt.append(comps[-1])
        comps = nxt
        # intra-component edges examined after this level and before the next one
        intra(comps, w + 1, w + step - 1, rng.choice([0, 0, 1, 2, 3]))
    top = base + level * step
    intra(comps, top + 1, top + step - 1, rng.choice([1, 2, 3, 5]))
    # the remaining node(s): joined by the heaviest edge(s) of all, or left isolated
    for x in ids[leaves:]:
        if rng.random() < 0.6:
            edges.append([x, rng.choice(ids[:leaves]), top + step + rng.randint(0, 3)] if rng.random() < 0.5
                         else [rng.choice(ids[:leaves]), x, top + step + rng.randint(0, 3)])
    rng.shuffle(edges)
    adj = [[] for _ in range(n)]
    for u, v, k in edges:
        adj[u].append([v, k])
        if u != v or rng.random() < 0.5:
            adj[v].append([u, k])
    for lst in adj:
        rng.shuffle(lst)
    return {"n": n, "edges": edges, "scale": scale, "wkind": "float" if scale != 1 else rng.choice(["float", "int", "mixed"]),
            "adj": adj, "family": "tournament"}


def _adj_of(rng, n, edges):
    adj = [[] for _ in range(n)]
    for u, v, k in edges:
        adj[u].append([v, k])
        if u != v or rng.random() < 0.5:
            adj[v].append([u, k])
    return adj


LARGE_FIXED = [(o, w, r, x) for o in ("hi_lo", "lo_hi") for w in ("inc", "dec") for r in (False, True)
               for x in ("mid",)]  # 8 adversarial path configurations, all of them in every run


def gen_large(rng, idx: int):
    """1000-2500 nodes: paths / caterpillars / stars in adversarial orientations and orders, so that a union-find
    without (correct) union by rank or path compression degenerates into a chain as long as the graph; a few extra
    edges touching the ends and the middle force `find` from the deepest nodes.  The first 8 cases of every run are
    the fixed path configurations (orientation x weights increasing/decreasing x edge order), the rest is random."""
    n = rng.randint(1000, 2500)
    if idx < len(LARGE_FIXED):
        n = max(n, 1300)
        shape, numbering = "path", "ident"
        orient, wstyle, rev, xstyle = LARGE_FIXED[idx]
        order = "reversed" if rev else "asis"
        disconnect = False
    else:
        shape = rng.choice(["path", "path", "caterpillar", "caterpillar", "star", "double_star"])
        numbering = rng.choice(["ident", "ident", "reversed", "random"])
        orient = rng.choice(["hi_lo", "lo_hi", "random"])
        wstyle = rng.choice(["inc", "dec", "equal", "random", "blocks"])
        order = rng.choice(["asis", "reversed", "shuffled"])
        xstyle = rng.choice(["mid", "mid", "heavy", "light", "random", "none"])
        disconnect = rng.random() < 0.2
    if shape == "path":
        pairs = [(i, i + 1) for i in range(n - 1)]
    elif shape == "caterpillar":
        spine = rng.randint(n // 3, n - 2)
        pairs = [(i, i + 1) for i in range(spine - 1)]
        pairs += [(rng.randrange(spine) if rng.random() < 0.5 else j % spine, j) for j in range(spine, n)]
    elif shape == "star":
        pairs = [(0, i) for i in range(1, n)]
    else:
        pairs = [(0, 1)] + [(i % 2, i) for i in range(2, n)]
    perm = list(range(n))
    if numbering == "reversed":
        perm.reverse()
    elif numbering == "random":
        rng.shuffle(perm)
    scale = rng.choice([1, 1, 2])
    m = len(pairs)
    edges = []
    for i, (a, b) in enumerate(pairs):
        a, b = perm[a], perm[b]
        if orient == "hi_lo":
            a, b = max(a, b), min(a, b)
        elif orient == "lo_hi":
            a, b = min(a, b), max(a, b)
        elif rng.random() < 0.5:
            a, b = b, a
        k = {"inc": i + 1, "dec": m - i, "equal": 7, "random": rng.randint(-60, 60), "blocks": (i // 97) % 5}[wstyle]
        edges.append([a, b, k])
    if disconnect and m > 2:
        del edges[rng.randrange(len(edges))]
    lo = min(k for _, _, k in edges) - 1
    hi = max(k for _, _, k in edges) + 1
    ranked = sorted(k for _, _, k in edges)
    if xstyle != "none":
        ends = [perm[0], perm[n - 1], perm[n // 2], perm[1], perm[n - 2]]
        for j in range(rng.choice([2, 3, 4]) if idx >= len(LARGE_FIXED) else 3):
            a = ends[j % len(ends)]
            b = ends[(j + 1) % len(ends)] if j < 3 else rng.randrange(n)
            # "mid": as heavy as the tree edge at the 90 / 96 / 99 % quantile, i.e. examined when almost all -- but not
            # all -- nodes are joined (the early `break` after n-1 accepted edges would hide a heavier edge)
            k = {"heavy": hi + j, "light": lo - j, "random": rng.randint(lo, hi),
                 "mid": ranked[int(len(ranked) * (0.9, 0.96, 0.99, 0.93)[j % 4])]}[xstyle]
            edges.append([a, b, k] if rng.random() < 0.5 else [b, a, k])
    if order == "reversed":
        edges.reverse()
    elif order == "shuffled":
        rng.shuffle(edges)
    adj = _adj_of(rng, n, edges)
    if order == "shuffled":
        for lst in adj:
            rng.shuffle(lst)
    return {"n": n, "edges": edges, "scale": scale, "wkind": "float" if scale != 1 else rng.choice(["float", "int"]),
            "adj": adj, "family": "large", "shape": f"{shape}/{numbering}/{orient}/{wstyle}/{order}/{xstyle}",
            "starts": [None, perm[n - 1]], "labels": rng.choice(["int", "int", "str"]), "container": "list"}


def gen_dense(rng):
    """complete / near-complete graphs on 20-32 nodes: the heap of `prim` holds hundreds of stale entries"""
    n = rng.randint(20, 32)
    keep = rng.choice([1.0, 1.0, 0.9, 0.75])
    wstyle = rng.choice(["many_ties", "few_ties", "few_ties", "mid", "neg"])
    scale = rng.choice([1, 1, 1, 4])
    edges = []
    for a in range(n):
        for b in range(a + 1, n):
            if rng.random() < keep:
                k = {"many_ties": rng.randint(1, 4), "few_ties": rng.randint(1, 20 * n * n), "mid": rng.randint(1, 40),
                     "neg": rng.randint(-30, 30)}[wstyle]
                edges.append([a, b, k] if rng.random() < 0.5 else [b, a, k])
    rng.shuffle(edges)
    adj = _adj_of(rng, n, edges)
    for lst in adj:
        rng.shuffle(lst)
    return {"n": n, "edges": edges, "scale": scale, "wkind": "float" if scale != 1 else rng.choice(["float", "int", "mixed"]),
            "adj": adj, "family": "dense", "shape": f"keep={keep}/{wstyle}",
            "starts": [None] + sorted(rng.sample(range(n), 2)), "labels": rng.choice(LABEL_KINDS),
            "container": rng.choice(["list", "tuple"])}


def gen_case(rng, big: bool, all_starts: bool, tournament: bool = False, numeric: bool = False):
    g = gen_tournament(rng, big) if tournament else gen_graph(rng, big)
    if numeric and not tournament:
        numeric_edge(rng, g)
    n = g["n"]
    if all_starts and not tournament:
        starts = [None] + list(range(n))
    else:
        starts = [None] + sorted(rng.sample(range(n), min(n, 2)))
    g["starts"] = starts
    g["labels"] = rng.choice(LABEL_KINDS)
    g["labrot"] = rng.randrange(len(ODD))
    g["container"] = "list"
    g["present"] = gen_present(rng, n)
    if g["scale"] == 1 and not g.get("numeric") and rng.random() < 0.15:
        g["wkind"] = "boolmix"
    return g


NUMERIC_FAMILIES = ["tiny40", "tiny30", "huge", "hugetiny", "digit10", "digit10"]


def numeric_edge(rng, g, n_cap=12):
    """Re-weight `g` with numerically extreme but exactly representable weights (all multiples of 1/scale, every
    partial sum below 2**53/scale): tiny dyadics with differences far below 1e-9, huge integers with unit differences,
    huge and tiny in one graph, weights that differ only from the 10th significant digit on; negative and mixed-sign
    versions; equal weights presented as int and as float."""
    fam = rng.choice(NUMERIC_FAMILIES)
    n = max(g["n"], 1)
    if fam == "tiny40":
        scale, pool = 2 ** 40, rng.sample(range(1, 1025), rng.choice([2, 3, 5, 8]))
    elif fam == "tiny30":
        scale, pool = 2 ** 30, [rng.randint(1, 40) for _ in range(rng.choice([3, 5, 8]))]
    elif fam == "huge":
        e = rng.randint(40, 48 if n <= 16 else 46)
        scale, pool = 1, [2 ** e + d for d in rng.sample(range(0, 7), rng.choice([2, 3, 5]))]
    elif fam == "hugetiny":
        e = rng.randint(44, 47 if n <= 16 else 45)
        scale = 2 ** 30
        pool = [rng.randint(1, 50) for _ in range(3)] + [2 ** e + d for d in rng.sample(range(0, 5), 3)]
    else:
        base = rng.randint(10 ** 11, 10 ** 12) * 10
        scale = rng.choice([1, 1, 2 ** 10, 2 ** 20])
        pool = [base + d for d in rng.sample(range(0, 10), rng.choice([2, 4, 6]))]
    assert n * max(pool) < 2 ** 53
    sign = rng.choice(["pos", "pos", "neg", "neg", "mixed"])
    edges = []
    for u, v, _ in g["edges"]:
        k = rng.choice(pool)
        if sign == "neg" or (sign == "mixed" and rng.random() < 0.5):
            k = -k
        edges.append([u, v, k])
    adj = _adj_of(rng, g["n"], edges)
    for lst in adj:
        rng.shuffle(lst)
    g.update(edges=edges, adj=adj, scale=scale, numeric=f"{fam}/{sign}",
             wkind="float" if scale != 1 else rng.choice(["mixed", "mixed", "int", "float"]))
    return g


def gen_history(rng, big: bool):
    """2-4 related graphs run one after the other in ONE worker call (same labels and presentation): the same input
    again (on the same objects or on fresh ones), the same structure with other weights, a sub-graph (wide -> narrow),
    a super-graph (narrow -> wide).  Each member is judged on its own input."""
    base = gen_case(rng, big, False, tournament=rng.random() < 0.2, numeric=rng.random() < 0.2)
    members, kinds = [base], ["base"]
    for _ in range(rng.choice([1, 2, 2, 3])):
        prev = members[-1]
        kind = rng.choice(["same_objects", "same_fresh", "reweight", "reweight", "narrow", "wide"])
        n = prev["n"]
        if kind in ("same_objects", "same_fresh"):
            c = {**prev, "reuse_prev": kind == "same_objects"}
        elif kind == "reweight":
            ks = sorted({k for _, _, k in prev["edges"]}) or [1]
            edges = [[u, v, rng.choice(ks) + rng.choice([0, 0, 1, -1, 3])] for u, v, _ in prev["edges"]]
            adj = _adj_of(rng, n, edges)
            for lst in adj:
                rng.shuffle(lst)
            c = {**prev, "edges": edges, "adj": adj}
        elif kind == "narrow" and n >= 2:
            c = drop_nodes(prev, rng.sample(range(n), rng.randint(1, max(1, n // 2))))
        else:
            kind = "wide"
            edges = [list(e) for e in prev["edges"]]
            new = rng.choice([1, 2])
            ks = [k for _, _, k in edges] or [1]
            for x in range(n, n + new):
                for _ in range(rng.choice([0, 1, 1, 2])):
                    y = rng.randrange(x)
                    edges.append([x, y, rng.choice(ks)] if rng.random() < 0.5 else [y, x, rng.choice(ks)])
            adj = _adj_of(rng, n + new, edges)
            c = {**prev, "n": n + new, "edges": edges, "adj": adj}
        c = {k: v for k, v in c.items() if k != "reuse_prev" or v}
        if isinstance(c.get("present", {}).get("nbr"), list):
            c["present"] = {**c["present"], "nbr": (c["present"]["nbr"] * 3)[:c["n"]] or "list"}
        c["starts"] = [st for st in c["starts"] if st is None or st < c["n"]] or [None]
        members.append(c)
        kinds.append(kind)
    return {"history": members, "kinds": kinds}


def mk(n, edges, starts=None, labels="int", scale=1, wkind="float", adj=None):
    if adj is None:
        adj = [[] for _ in range(n)]
        for u, v, k in edges:
            adj[u].append([v, k])
            if u != v:
                adj[v].append([u, k])
    return {"n": n, "edges": [list(e) for e in edges], "scale": scale, "wkind": wkind, "adj": adj,
            "starts": [None] + list(range(n)) if starts is None else starts, "labels": labels, "container": "list"}


def edge_cases():
    yield mk(4, [[0, 1, 4], [0, 2, 3], [1, 2, 2], [1, 3, 5], [2, 3, 6]])  # module docstring
    yield mk(0, [], starts=[None])  # prim({}) only
    yield mk(1, [])
    yield mk(1, [[0, 0, 2]])
    yield mk(2, [])
    yield mk(2, [[0, 1, 5], [1, 0, 3], [0, 1, 3]])
    yield mk(3, [[0, 0, -1], [1, 1, -2], [2, 2, -3]])  # only self loops, negative
    yield mk(3, [[0, 1, 1], [1, 2, 1], [2, 0, 1]], labels="mixed")  # all ties
    yield mk(4, [[0, 1, -3], [2, 3, -3], [1, 2, 7], [0, 3, 7], [0, 2, -3]], labels="str")
    yield mk(5, [[0, 1, 1], [2, 3, 1], [3, 4, 2], [2, 4, 2]], labels="tuple")  # two components
    yield mk(4, [[0, 1, 3], [1, 2, 5], [2, 3, 7]], scale=4)  # a path, dyadic
    yield mk(3, [[0, 1, 2], [1, 2, 2], [0, 2, 2]], wkind="int")


# ---------------------------------------------------------------------------
# implementation side (runs in a worker process)
# ---------------------------------------------------------------------------

def pyweight(case, k: int, idx: int):
    s = case["scale"]
    if s != 1:
        return k / s
    kind = case["wkind"]
    if kind == "boolmix":
        return bool(k) if k in (0, 1) and idx % 2 == 0 else (k if idx % 3 == 0 else float(k))
    if kind == "int" or (kind == "mixed" and idx % 2 == 0):
        return k
    return float(k)


def _num(x, scale):
    """exact scaled value of a returned number: int, or a ('bad', repr) marker"""
    try:
        if not isinstance(x, (int, float)):
            return ["bad", repr(x)[:60]]
        if x != x or x in (float("inf"), float("-inf")):
            return ["inf" if x == float("inf") else "bad", repr(x)]
        f = Fraction(x) * scale
        return int(f) if f.denominator == 1 else ["bad", repr(x)]
    except Exception as e:  # noqa: BLE001
        return ["bad", f"{type(e).__name__}"]


def _canon(res, scale, node_id):
    sol = res.solution
    out = {"status": getattr(res.status, "name", repr(res.status)), "obj": _num(res.objective, scale)}
    if sol is None:
        out["sol"] = None
    else:
        es = []
        for e in sol:
            try:
                u, v, w = e
                es.append([node_id(u), node_id(v), _num(w, scale)])
            except Exception:  # noqa: BLE001
                es.append([-1, -1, ["bad", repr(e)[:60]]])
        out["sol"] = es
    return out


def _build_edges(case):
    pr = case.get("present") or {}
    style, memo, out = pr.get("edge", "tuple"), {}, []
    for i, (u, v, k) in enumerate(case["edges"]):
        if pr.get("alias") and (u, v, k) in memo:
            out.append(memo[(u, v, k)])  # the SAME object at two positions
            continue
        e = (u, v, pyweight(case, k, i))
        if style == "list" or (style == "mixed" and i % 2):
            e = list(e)
        memo[(u, v, k)] = e
        out.append(e)
    return out


def _build_graph(case, labs, cnt0=0):
    """the dict handed to prim; every neighbour collection iterates in the order of case['adj']"""
    pr = case.get("present") or {}
    pstyle = pr.get("pair", "tuple")
    styles = nbr_styles(case)
    graph, cnt = {}, cnt0
    for i, lst in enumerate(case["adj"]):
        row = []
        for v, k in lst:
            p = (labs[v], pyweight(case, k, cnt))
            row.append(list(p) if pstyle == "list" or (pstyle == "mixed" and cnt % 2) else p)
            cnt += 1
        st = styles[i]
        if st == "dictkeys" and (pstyle != "tuple" or len({(v, k) for v, k in lst}) < len(lst)):
            st = "tuple"  # a keys view needs hashable, pairwise different entries
        if st == "list":
            val = row
        elif st == "tuple":
            val = tuple(row)
        elif st == "gen":
            val = (p for p in row)
        elif st == "iter":
            val = iter(row)
        elif st == "map":
            val = map(lambda p: p, row)
        elif st == "reversed":
            val = reversed(row[::-1])
        else:
            val = dict.fromkeys(row).keys()
        graph[labs[i]] = val
    return graph, cnt


def impl(case, carry=None):
    import sys
    from solvor.mst import kruskal, prim
    sys.setrecursionlimit(1000)  # the interpreter's default
    n, scale = case["n"], case["scale"]
    out = {"kruskal": {}, "prim": {}}
    pr = case.get("present") or {}
    carry = carry if carry is not None else {}

    def nid_int(x):
        return x if isinstance(x, int) and not isinstance(x, bool) and 0 <= x < n else -1

    only = case.get("only_fn")
    labs = labels_of(case)
    back = {lab: i for i, lab in enumerate(labs)}
    one_shot = any(st in ONE_SHOT for st in nbr_styles(case))
    sig = json.dumps([case["n"], case["edges"], case["adj"], case["scale"], case["wkind"], case["labels"],
                      case.get("labrot", 0), pr], sort_keys=True, default=str)
    reuse = bool(case.get("reuse_prev")) and carry.get("sig") == sig  # same input again, on the SAME objects
    shared_edges = carry["edges"] if reuse else _build_edges(case)
    shared_graph = carry.get("graph") if reuse and not one_shot else None
    if shared_graph is None and pr.get("share") and not one_shot:
        shared_graph = _build_graph(case, labs)[0]
    carry.update(sig=sig, edges=shared_edges, graph=shared_graph)

    def run_kruskal(af):
        edges = shared_edges if (pr.get("share") or reuse) else _build_edges(case)
        kw = {} if af == "default" else {"allow_forest": af}
        try:
            out["kruskal"][str(af)] = ("ok", _canon(kruskal(n, edges, backend="python", **kw), scale, nid_int))
        except BaseException as e:  # noqa: BLE001
            out["kruskal"][str(af)] = ("err", f"{type(e).__name__}: {e}"[:300])

    def run_prim(st, j):
        graph = shared_graph if shared_graph is not None else _build_graph(case, labs, 7 * j)[0]
        try:
            r = prim(graph) if st is None else prim(graph, start=labs[st])
            out["prim"][str(st)] = ("ok", _canon(r, scale, lambda x: back.get(x, -1) if _hashable(x) else -1))
        except BaseException as e:  # noqa: BLE001
            out["prim"][str(st)] = ("err", f"{type(e).__name__}: {e}"[:300])

    ks = [lambda af=af: run_kruskal(af) for af in ((False, True, "default") if n > 0 and only in (None, "kruskal") else ())]
    ps = [lambda st=st, j=j: run_prim(st, j) for j, st in enumerate(case["starts"] if only in (None, "prim") else ())]
    order = pr.get("order", "kp")
    if order == "pk":
        calls = ps + ks
    elif order == "interleave":  # the two entry points alternate
        calls = [c for pair in zip(ks, ps) for c in pair] + ks[len(ps):] + ps[len(ks):]
    else:
        calls = ks + ps
    for c in calls:
        c()
    return out


def impl_group(group):
    """one worker call: the members of a history run one after the other in the same process"""
    carry = {}
    return [impl(c, carry) for c in group]


def _hashable(x):
    try:
        hash(x)
        return True
    except TypeError:
        return False


# ---------------------------------------------------------------------------
# requests / comparison
# ---------------------------------------------------------------------------

def calls_of(case):
    cs = [("kruskal", "False"), ("kruskal", "True"), ("kruskal", "default")] if case["n"] > 0 else []
    cs += [("prim", str(st)) for st in case["starts"]]
    if case.get("only_fn"):  # set by the shrinker: run only the function whose clause failed
        cs = [c for c in cs if c[0] == case["only_fn"]]
    return cs


def wellformed(sol):
    """the implementation's edge list as [[u, v, k]] if every entry is a node pair with an exact scaled weight"""
    if sol is None:
        return None
    good = []
    for u, v, k in sol:
        if not isinstance(k, int) or u < 0 or v < 0:
            return None
        good.append([u, v, k])
    return good


def eff_start(case, key):
    """index of the node prim starts from: `start=None` -- also when None is the LABEL of the requested node, the
    code as it is cannot tell the two apart -- means the first key of the dict"""
    if key == "None":
        return 0
    st = int(key)
    return 0 if label(case["labels"], st, case.get("labrot", 0)) is None else st


def requests_for(case, out):
    reqs = []
    do_cert = len(case["edges"]) <= 600  # chkMinCert is cubic; off for the 1000-2500-node family (see judge_call)
    for fn, key in calls_of(case):
        o = out[1][fn].get(key) if out[0] == "ok" else None
        sol = wellformed(o[1]["sol"]) if o and o[0] == "ok" else None
        if fn == "kruskal":
            reqs.append(["kruskal", case["n"], case["edges"], None if key == "default" else key == "True", sol, do_cert])
        else:
            reqs.append(["prim", case["adj"], eff_start(case, key), sol, case["edges"], do_cert])
    return reqs


def judge_call(ctx, case, fn, key, o, reply, rep):
    """R_prop / R_trace for one call.  Returns the exact scaled weight of the implementation's answer, or None."""
    n = case["n"]
    what = f"{fn}({'allow_forest=' + key if fn == 'kruskal' else 'start=' + key})"
    rep = dict(rep, call=what, impl=o, model=reply)
    if fn == "prim" and any(st in ONE_SHOT for st in nbr_styles(case)):
        ctx = _Suffix(ctx, ":oneshot_neighbours")  # some neighbour collection is a one-shot iterator
    m_status, m_sol, m_obj, m_iters, uf_same, connected, comps, brute, valid, chk = reply[:10]
    if not valid and n > 0:
        raise core.Infra(f"generator produced an invalid graph: {case}")
    if fn == "prim" and reply[10] != [True, True]:
        # hypotheses of prim_tree / prim_minimal / kruskal_prim_agree, decided by goodAdjB / sameGraphB
        raise core.Infra(f"generator produced adjacency lists that are not the undirected graph of the edge list "
                         f"(goodAdj, sameGraph) = {reply[10]}: {case}")
    if not uf_same:
        raise core.Infra(f"parent/rank mirror kruskalUF disagrees with kruskal on {case} (proved equal: cannot happen)")
    ctx.count(f"{fn}:model_status:{m_status}")
    if o[0] != "ok":
        kind = o[1].split(":", 1)[0]
        if kind == "RecursionError" and case.get("family") == "large":
            kind += ":deep_unionfind"  # a long path / caterpillar / star must not exhaust the default recursion limit
        ctx.fail(fn, "raises:" + kind, f"{what} raised on a valid graph: {o[1][:300]}", rep)
        return None
    r = o[1]
    status, sol, obj = r["status"], r["sol"], r["obj"]
    ctx.count(f"{fn}:status:{status}")
    if n == 0:
        # prim({}) – the empty graph is outside the property (no nodes); only the mirror relation applies
        ctx.count("excluded_region:empty_graph")
        if (status, sol, obj) != (m_status, m_sol, m_obj):
            ctx.tdiv(fn, {"case": case, "call": what, "impl": r, "mirror": [m_status, m_sol, m_obj]})
        return None
    forest_ok = fn == "kruskal" and key == "True"
    weight = None
    if sol is not None and chk is None:
        ctx.fail(fn, "malformed_solution", f"{what}: solution has entries that are not (node, node, input weight): {sol}", rep)
        return None
    if connected:
        if sol is None or status == "INFEASIBLE":
            ctx.fail(fn, "false_infeasible", f"{what}: connected graph but status {status} / solution {str(sol)[:300]}", rep)
            return None
        subset, tree, forest, cert, weight = chk
        if not subset:
            ctx.fail(fn, "edge_not_in_input", f"{what}: a returned edge is not an input edge", rep)
        elif not tree:
            ctx.fail(fn, "not_spanning_tree", f"{what}: returned edges rejected by the verified checker chkSpanningTree "
                     f"(need n-1={n - 1} input edges connecting all nodes), got {str(sol)[:300]}", rep)
        elif cert is False:
            ctx.fail(fn, "not_minimal", f"{what}: spanning tree of weight {weight}/{case['scale']} fails the verified "
                     f"cycle-property certificate; proved minimum is {m_obj}/{case['scale']}", rep)
        ctx.count("cert_checked_impl" if cert is not None else "tree_checked_impl_cert_skipped")
    else:
        if not forest_ok:
            if status != "INFEASIBLE" or sol is not None:
                ctx.fail(fn, "disconnected_not_infeasible", f"{what}: disconnected graph ({comps} components) but status "
                         f"{status}, solution {str(sol)[:300]}", rep)
            return None
        if sol is None or status != "FEASIBLE":
            ctx.fail(fn, "forest_not_feasible", f"{what}: disconnected graph with allow_forest must give a forest flagged "
                     f"FEASIBLE, got {status} / {str(sol)[:300]}", rep)
            return None
        subset, tree, forest, cert, weight = chk
        if not subset:
            ctx.fail(fn, "edge_not_in_input", f"{what}: a returned edge is not an input edge", rep)
        elif not forest:
            ctx.fail(fn, "not_spanning_forest", f"{what}: returned edges rejected by the verified checker chkSpanningForest "
                     f"(input edges, acyclic, same components as the input), got {str(sol)[:300]}", rep)
        elif cert is False:
            ctx.fail(fn, "forest_not_minimal", f"{what}: spanning forest of weight {weight}/{case['scale']} fails the "
                     f"verified cycle-property certificate; proved minimum is {m_obj}/{case['scale']}", rep)
        ctx.count("cert_checked_impl" if cert is not None else "tree_checked_impl_cert_skipped")
    # objective = sum of the returned weights (exact)
    if obj != weight:
        ctx.fail(fn, "objective_not_sum", f"{what}: objective {obj}/{case['scale']} but the returned edges sum to "
                 f"{weight}/{case['scale']}", rep)
    # ... = the minimum: the mirror's weight is proved minimal (kruskal_minimal / prim_minimal)
    if weight != m_obj:
        ctx.fail(fn, "weight_not_minimum", f"{what}: weight {weight}/{case['scale']} differs from the proved minimum "
                 f"{m_obj}/{case['scale']}", rep)
    # supporting bounded oracle (definitional enumeration, <= 12 edges); never decides alone on the implementation
    if brute is not None:
        ctx.count("brute_checked")
        if brute != m_obj:
            raise core.Infra(f"mstBrute {brute} != proved-minimal model weight {m_obj} on {case}: spec/oracle bug")
    # R_trace: the mirror's returned value (status, edges in order, objective)
    if (status, sol, obj) != (m_status, m_sol, m_obj):
        ctx.tdiv(fn, {"case": case, "call": what, "impl": r, "mirror": [m_status, m_sol, m_obj]})
    else:
        ctx.count("r_trace_agree")
    return weight


def judge(ctx, case, out, replies):
    rep = {"case": case}
    calls = calls_of(case)
    if out[0] != "ok":
        ctx.fail("kruskal", "raises:" + err_kind(out), f"worker failed/timed out: {out[1]}", dict(rep, impl=out))
        return
    weights = {}
    for (fn, key), reply in zip(calls, replies):
        o = out[1][fn][key]
        w = judge_call(ctx, case, fn, key, o, reply, rep)
        if w is not None:
            weights[(fn, key)] = w
    # Kruskal and Prim agree on the weight (connected graphs; all starts)
    if case["n"] == 0:
        ctx.case([0, [], 1], False)
        return
    kw = weights.get(("kruskal", "False"))
    for (fn, key), w in weights.items():
        if fn == "prim" and kw is not None and w != kw:
            ctx.fail("prim", "kruskal_prim_disagree", f"kruskal weight {kw} vs prim(start={key}) weight {w} (scaled by "
                     f"{case['scale']})", dict(rep, impl=out[1]))
    if case.get("only_fn"):  # a shrunk case restricted to one function: verdicts only, no coverage bookkeeping
        return
    k_reply = replies[0]
    rejected = k_reply[3] - (len(k_reply[1]) if k_reply[1] is not None else 0)
    if k_reply[1] is None:  # INFEASIBLE mirror: take the forest run
        rejected = replies[1][3] - len(replies[1][1] or [])
    ctx.count("connected" if k_reply[5] else "disconnected")
    ctx.count(f"n={case['n']}")
    ctx.count(f"labels:{case['labels']}")
    ctx.count(f"family:{case.get('family', 'random')}")
    if case.get("numeric"):
        ctx.count(f"weights:numeric:{case['numeric']}")
    pr = case.get("present")
    if pr:
        ctx.count(f"present:edges:{pr['edge']}")
        ctx.count(f"present:pairs:{pr['pair']}")
        ctx.count(f"present:call_order:{pr['order']}")
        for st in set(nbr_styles(case)):
            ctx.count(f"present:nbrs:{st}")
        if pr.get("alias") and len({tuple(e) for e in case["edges"]}) < len(case["edges"]):
            ctx.count("present:aliased_edge_objects")
        if pr.get("share"):
            ctx.count("present:same_objects_for_all_calls")
    if case.get("wkind") == "boolmix" and any(k in (0, 1) for _, _, k in case["edges"]):
        ctx.count("weights:bool")
    if case["labels"] == "odd" and case["n"] > 0:
        labs = labels_of(case)
        if None in labs:
            ctx.count("labels:odd:has_None")
        if any(st is not None and labs[st] is None for st in case["starts"]):
            ctx.count("start:explicit_node_labelled_None")
    es = case["edges"]
    if any(u == v for u, v, _ in es):
        ctx.count("has_self_loop")
    if len({(min(u, v), max(u, v)) for u, v, _ in es}) < len(es):
        ctx.count("has_parallel_edges")
    if len({k for _, _, k in es}) < len(es):
        ctx.count("has_equal_weights")
    if any(k < 0 for _, _, k in es):
        ctx.count("has_negative_weight")
    canon = [case["n"], case["edges"], case["scale"]]
    if case["n"] > 40 or len(es) > 60:  # keep the evidence file small
        sample = {"case": {"n": case["n"], "edges": len(es), "family": case.get("family"), "shape": case.get("shape")},
                  "model_kruskal": [k_reply[0], k_reply[2], k_reply[3]]}
    else:
        sample = {"case": {k: case[k] for k in ("n", "edges", "scale", "starts", "labels")},
                  "impl": out[1], "model_kruskal": k_reply[:4]}
    ctx.case(canon, rejected >= 1, sample)


class _Suffix:
    """adds a suffix to the class of every failure reported through it (input-presentation classes)"""

    def __init__(self, ctx, sfx):
        self._ctx, self._sfx = ctx, sfx

    def fail(self, function, klass, what, rep):
        self._ctx.fail(function, klass + self._sfx, what, rep)

    def __getattr__(self, name):
        return getattr(self._ctx, name)


class _Collector:
    """ctx look-alike handed to `judge`: R_prop failures are collected (so that they can be shrunk before they are
    reported); counters, cases and R_trace divergences go straight to the real context (or nowhere when `ctx` is None,
    which is how shrink candidates are evaluated)."""

    def __init__(self, ctx):
        self.ctx = ctx
        self.fails = []

    def fail(self, function, klass, what, rep):
        self.fails.append((function, klass, what, rep))

    def count(self, key, n=1):
        if self.ctx is not None:
            self.ctx.count(key, n)

    def case(self, *a, **kw):
        if self.ctx is not None:
            self.ctx.case(*a, **kw)

    def tdiv(self, *a, **kw):
        if self.ctx is not None:
            self.ctx.tdiv(*a, **kw)


def flatten(items):
    """cases and histories -> (flat list of cases, groups of indices that share one worker call)"""
    flat, groups = [], []
    for it in items:
        if "history" in it:
            groups.append(list(range(len(flat), len(flat) + len(it["history"]))))
            flat += it["history"]
        else:
            groups.append([len(flat)])
            flat.append(it)
    return flat, groups


def evaluate(cases, ctx=None, procs=None, groups=None):
    """Run implementation and model on `cases`; returns per case the list of R_prop failures.  `groups`: lists of
    indices into `cases` that run one after the other in the same worker call (default: every case alone)."""
    groups = groups if groups is not None else [[i] for i in range(len(cases))]
    gouts = run_pool(impl_group, [[cases[i] for i in g] for g in groups], timeout=30.0, procs=procs)
    outs = [None] * len(cases)
    for g, go in zip(groups, gouts):
        for j, i in enumerate(g):
            outs[i] = ("ok", go[1][j]) if go[0] == "ok" else go
    reqs, spans = [], []
    for c, o in zip(cases, outs):
        rs = requests_for(c, o)
        spans.append((len(reqs), len(reqs) + len(rs)))
        reqs += rs
    heavy = sum(1 for c in cases if c["n"] > 200)
    replies = Driver("Mst").run(reqs, chunks=8 if len(reqs) > 400 else min(8, max(1, heavy * 3)))
    for rp in replies:
        if rp and rp[0] == "error":
            raise core.Infra(f"model rejected request: {rp}")
    res = []
    for c, o, (a, b) in zip(cases, outs, spans):
        col = _Collector(ctx)
        judge(col, c, o, replies[a:b])
        res.append(col.fails)
    return res


# ---------------------------------------------------------------------------
# shrinking: drop nodes / edges / start nodes while the same (function, class) still fails
# ---------------------------------------------------------------------------

def _drop_adj(adj, u, v, k):
    if [v, k] in adj[u]:
        adj[u].remove([v, k])


def drop_edge(case, idx):
    c = {**case, "edges": [list(e) for e in case["edges"]], "adj": [[list(p) for p in lst] for lst in case["adj"]]}
    u, v, k = c["edges"].pop(idx)
    if u != v:
        _drop_adj(c["adj"], u, v, k)
        _drop_adj(c["adj"], v, u, k)
    else:  # a self loop is listed once or twice: keep between `left` and `2 * left` entries
        left = sum(1 for e in c["edges"] if e == [u, u, k])
        _drop_adj(c["adj"], u, u, k)
        while c["adj"][u].count([u, k]) > 2 * left:
            _drop_adj(c["adj"], u, u, k)
    return c


def drop_edges(case, idxs):
    c = case
    for i in sorted(idxs, reverse=True):
        c = drop_edge(c, i)
    return c


def drop_nodes(case, xs):
    xs = set(xs)
    if not xs or case["n"] - len(xs) < 1:
        return None
    new_id, j = {}, 0
    for a in range(case["n"]):
        if a not in xs:
            new_id[a] = j
            j += 1
    edges = [[new_id[u], new_id[v], k] for u, v, k in case["edges"] if u not in xs and v not in xs]
    adj = [[[new_id[v], k] for v, k in lst if v not in xs] for i, lst in enumerate(case["adj"]) if i not in xs]
    starts = []
    for st in case["starts"]:
        t = None if st is None else new_id.get(st, "gone")
        if t != "gone" and t not in starts:
            starts.append(t)
    return {**case, "n": j, "edges": edges, "adj": adj, "starts": starts or [None]}


def drop_node(case, x):
    return drop_nodes(case, [x])


def _blocks(total, single_limit=40, per_size=6):
    """index blocks to try dropping: every single index for small totals, otherwise halves, quarters, ... (a few
    blocks per size, from both ends), down to singles at the ends"""
    if total <= single_limit:
        return [[i] for i in range(total - 1, -1, -1)]
    out, size = [], total // 2
    while size >= 1:
        starts = list(range(0, total - size + 1, size))
        pick = starts[:per_size // 2] + starts[-(per_size // 2):]
        for st in dict.fromkeys(pick):
            out.append(list(range(st, st + size)))
        size //= 2
    return out


def candidates(case, key=None):
    big = case["n"] > 200
    if key is not None and not case.get("only_fn") and key[1] != "kruskal_prim_disagree":
        yield f"only {key[0]}", {**case, "only_fn": key[0]}
        if big:
            return  # evaluate that one alone first: it makes every later candidate much cheaper
    for blk in _blocks(case["n"], per_size=2 if big else 6):
        c = drop_nodes(case, blk)
        if c is not None:
            yield f"drop nodes {blk[0]}..{blk[-1]}", c
    for blk in _blocks(len(case["edges"]), per_size=2 if big else 6):
        yield f"drop edges #{blk[0]}..#{blk[-1]}", drop_edges(case, blk)
    if len(case["starts"]) > 1:
        for st in case["starts"]:
            yield f"only start {st}", {**case, "starts": [st]}
    if case.get("labels") != "int":
        yield "int labels", {**case, "labels": "int"}


def shrink(case, key, deadline):
    """Greedy structural shrinking: the single-step reductions of the current case are evaluated in batches (small
    batches for big cases, with the deadline checked in between), the first one on which the same (function, class)
    still fails is kept.  A candidate on which the harness itself objects (generator invariants) is skipped."""
    import time
    history = []
    progress = True
    while progress and time.time() < deadline:
        progress = False
        cands = list(candidates(case, key))
        bsz = 4 if case["n"] > 200 else len(cands) or 1
        for b in range(0, len(cands), bsz):
            if time.time() >= deadline:
                break
            batch = cands[b:b + bsz]
            try:
                res = evaluate([c for _, c in batch], procs=min(4, len(batch)))
            except core.Infra:
                res = []
                for _, c in batch:
                    try:
                        res.append(evaluate([c], procs=1)[0])
                    except core.Infra:
                        res.append([])
            hit = next(((how, c) for (how, c), fails in zip(batch, res) if any((f[0], f[1]) == key for f in fails)), None)
            if hit:
                history.append(hit[0])
                case = hit[1]
                progress = True
                break
    return case, history


def run_cases(ctx, items, do_shrink=True):
    import time
    cases, groups = flatten(items)
    for it in items:
        if "history" in it:
            ctx.count(f"history:len={len(it['history'])}")
            for k in it.get("kinds", [])[1:]:
                ctx.count(f"history:step:{k}")
    results = evaluate(cases, ctx, groups=groups)
    where = {i: (g, j) for g in groups for j, i in enumerate(g)}
    shrunk = 0
    for idx, (case, fails) in enumerate(zip(cases, results)):
        if not fails:
            continue
        g, pos = where[idx]
        if pos > 0 and len(ctx.violations) < 5:
            # a later member of a history: does the clause also fail when the same input runs alone, in a fresh process?
            alone = {(f[0], f[1]) for f in evaluate([case], procs=1)[0]}
            hist = {"history": [cases[i] for i in g[:pos + 1]]}
            kept = []
            for fn, klass, what, rep in fails:
                if (fn, klass) in alone:
                    kept.append((fn, klass, what, rep))
                else:
                    ctx.fail(fn, klass + ":after_previous_call", what + " -- passes when run alone in a fresh process",
                             dict(rep, case=hist))
            fails = kept
            if not fails:
                continue
        report, seen = [], set()
        unknown = [f for f in fails if ctx.known_match(f[0], f[1]) is None]
        if do_shrink and unknown and shrunk < 3 and len(ctx.violations) < 5:
            # shrink on the first failing clause, then report every clause that fails on the small case
            shrunk += 1
            key = (unknown[0][0], unknown[0][1])
            small, history = shrink(case, key, time.time() + 8.0)
            if history:
                for fn, klass, what, rep in evaluate([small], procs=1)[0]:
                    if (fn, klass) not in seen:
                        seen.add((fn, klass))
                        report.append((fn, klass, what, dict(rep, original_case=case, shrink_history=history)))
        for fn, klass, what, rep in fails:  # clauses that fail on the original case only
            if (fn, klass) not in seen:
                seen.add((fn, klass))
                report.append((fn, klass, what, rep))
        for fn, klass, what, rep in report:
            ctx.fail(fn, klass, what, rep)


def run(ctx, budget):
    ctx.cov["rule"] = RULE
    cases = list(edge_cases()) + [c["case"] for c in core.load_corpus("C13")]
    n = 5000 * budget
    thorough = ctx.tier == "thorough"
    # every 7th case (about 15 %) is of the structured deep-union-find family
    # ... and every 12th item is a history of 2-4 related graphs run in one worker call
    cases += [gen_history(ctx.rng, big=(thorough and i % 3 == 0)) if i % 12 == 5 else
              gen_case(ctx.rng, big=(thorough and i % 3 == 0), all_starts=(thorough or i % 4 == 0),
                       tournament=(i % 7 == 3), numeric=(i % 6 == 2)) for i in range(n)]
    # a small fixed number of big cases, spread over the list so that the driver chunks share them:
    # 1000-2500-node paths / caterpillars / stars (deep union-find) and 20-32-node (near-)complete graphs (stale heap)
    n_large, n_dense = (12, 40) if not thorough else (48, 300)
    extra = [gen_large(ctx.rng, i) for i in range(n_large)]
    extra += [numeric_edge(ctx.rng, gen_dense(ctx.rng)) if j % 4 == 3 else gen_dense(ctx.rng) for j in range(n_dense)]
    step = max(1, len(cases) // (len(extra) + 1))
    for j, c in enumerate(extra):
        cases.insert(min(len(cases), (j + 1) * step + j), c)
    run_cases(ctx, cases)
    h = ctx.cov["histogram"]
    ctx.cov["cert_checked_impl"] = h.get("cert_checked_impl", 0)
    ctx.cov["r_trace_agree"] = h.get("r_trace_agree", 0)
    ctx.cov["brute_checked"] = h.get("brute_checked", 0)
    ctx.cov["missing_theorems"] = []
    ctx.cov["excluded_region"] = ("prim on the empty dict (no nodes), adjacency "
                                  "lists that are not symmetric or name nodes that are not keys, start nodes that are "
                                  "not nodes, n_nodes <= 0 / endpoints out of range (ValueError), non-dyadic float "
                                  "weights whose sums round")


def replay(ctx, body):
    ctx.cov["rule"] = RULE
    run_cases(ctx, [body["case"]], do_shrink=False)
