"""C20 — UnionFind and FenwickTree (solvor/utils/data_structures.py) against the proved models
(Solvor/Ds): Batteries.UnionFind composed as the Python composes it == quick-find reference
(theorem uf_refines); Fenwick arrays with the regenerated index walks == plain array (fenwick_refines).
"""
from __future__ import annotations

from fractions import Fraction

from core import Driver, load_corpus
from pool import err_kind, run_pool

AREAS = ["Ds"]
INTERP = True  # the union-find model imports Batteries, which does not link into a lean_exe
LEVEL = "proof"
ASSUMPTIONS = [
    "UnionFind mirror = Batteries.UnionFind (find with full path compression, link by rank) with Python's "
    "union(x,y) mapped to union y x (same rank tie-break); tied by R_trace on the roots find returns",
    "Fenwick values are integers / dyadic rationals (exact in doubles); the model is over Int",
    "Fenwick index-walk expressions are regenerated from the Python source on every run (harness/kernels.py)",
]
RULE = ("random operation histories (UnionFind: n<=40, <=200 ops, repeated/self unions, interleaved reads; "
        "FenwickTree: n<=40, list or size constructor, <=120 ops); non-trivial = UnionFind history with a union of "
        "two non-singleton classes, Fenwick history with an update after a query; distinct by (n, ops)")

UNION, FIND, CONN, COUNT, SIZES, COMPS = range(6)


# ---------------------------------------------------------------------------
# generators
# ---------------------------------------------------------------------------

def gen_uf_deep(rng, big):
    """Binomial-tree histories: blocks are merged pairwise through their current roots (so no path is
    compressed on the way and trees of depth log n arise), then the deep leaves are read."""
    k = rng.choice([3, 3, 4, 5 if big else 4])
    n = (1 << k) + rng.choice([0, 0, 1, 3])
    perm = list(range(n))
    rng.shuffle(perm)
    blocks = [[perm[i]] for i in range(1 << k)]
    roots = {b[0]: b[0] for b in blocks}  # our own bookkeeping of the likely root (first element merged into)
    ops = []
    while len(blocks) > 1:
        nxt = []
        for i in range(0, len(blocks) - 1, 2):
            a, b = blocks[i], blocks[i + 1]
            x, y = a[0], b[0]
            if rng.random() < 0.3:
                x, y = y, x
            ops.append((UNION, x, y))
            nxt.append(a + b if x == a[0] else b + a)
            if rng.random() < 0.15:
                ops.append((COUNT, 0, 0))
        if len(blocks) % 2:
            nxt.append(blocks[-1])
        blocks = nxt
    for _ in range(rng.randint(3, 25)):
        r = rng.random()
        if r < 0.4:
            ops.append((CONN, rng.randrange(n), rng.randrange(n)))
        elif r < 0.6:
            ops.append((FIND, rng.randrange(n), 0))
        elif r < 0.8:
            ops.append((UNION, rng.randrange(n), rng.randrange(n)))
        elif r < 0.9:
            ops.append((SIZES, 0, 0))
        else:
            ops.append((COMPS, 0, 0))
    return {"kind": "uf", "n": n, "ops": [list(o) for o in ops]}


def gen_uf_chain(rng, n):
    """Large adversarial histories: a long path united link by link in one orientation (without union
    by rank the forest degenerates into a chain as deep as the interpreter's recursion limit), then
    reads of the far end."""
    order, rev = rng.choice([("up", True), ("up", True), ("down", False), ("up", False), ("down", True)])
    ops = []
    rng_i = range(n - 1) if order == "up" else range(n - 2, -1, -1)
    for i in rng_i:
        ops.append((UNION, i + 1, i) if rev else (UNION, i, i + 1))
    ops += [(FIND, 0, 0), (FIND, n - 1, 0), (CONN, 0, n - 1), (COUNT, 0, 0)]
    for _ in range(5):
        ops.append((FIND, rng.randrange(n), 0))
    return {"kind": "uf", "n": n, "ops": [list(o) for o in ops]}


def gen_uf_bigidx(rng, big):
    """Indices above CPython's small-int cache (>= 257): every index is a distinct int object (the
    implementation worker re-creates them), so identity tests instead of equality show.  Repeated,
    self and cycle-closing unions on purpose."""
    n = rng.choice([300, 400, 600 if big else 500])
    lo = 257
    ops = []
    pool = [rng.randrange(lo, n) for _ in range(12)]
    for _ in range(rng.randint(20, 60)):
        r = rng.random()
        x, y = rng.choice(pool), rng.choice(pool)
        if r < 0.5:
            ops.append((UNION, x, y))
            if rng.random() < 0.4:
                ops.append((UNION, y, x) if rng.random() < 0.5 else (UNION, x, y))  # repeat
        elif r < 0.6:
            ops.append((UNION, x, x))
        elif r < 0.75:
            ops.append((CONN, x, y))
        elif r < 0.85:
            ops.append((FIND, x, 0))
        else:
            ops.append((COUNT, 0, 0))
    ops.append((COUNT, 0, 0))
    return {"kind": "uf", "n": n, "ops": [list(o) for o in ops], "fresh_ints": True}


def gen_uf(rng, big):
    r0 = rng.random()
    if r0 < 0.06:
        return gen_uf_bigidx(rng, big)
    if rng.random() < 0.3:
        return gen_uf_deep(rng, big)
    n = rng.choice([1, 2, 3, 4, 5, 6, 8, 12, 20, 40 if big else 30])
    m = rng.randint(1, 200 if big else 80)
    ops = []
    style = rng.random()
    for _ in range(m):
        r = rng.random()
        if r < (0.55 if style < 0.5 else 0.3):
            if ops and rng.random() < 0.15:  # repeat an earlier union / reversed
                k, x, y = rng.choice([o for o in ops if o[0] == UNION] or [(UNION, 0, 0)])
                x, y = (y, x) if rng.random() < 0.5 else (x, y)
            elif rng.random() < 0.1:
                x = y = rng.randrange(n)
            else:
                x, y = rng.randrange(n), rng.randrange(n)
            ops.append((UNION, x, y))
        elif r < 0.7:
            ops.append((FIND, rng.randrange(n), 0))
        elif r < 0.85:
            ops.append((CONN, rng.randrange(n), rng.randrange(n)))
        elif r < 0.91:
            ops.append((COUNT, 0, 0))
        elif r < 0.96:
            ops.append((SIZES, 0, 0))
        else:
            ops.append((COMPS, 0, 0))
    return {"kind": "uf", "n": n, "ops": [list(o) for o in ops]}


def gen_fen(rng, big):
    n = rng.choice([1, 2, 3, 4, 5, 7, 8, 9, 16, 17, 31, 40 if big else 33])
    scale = rng.choice([1, 1, 4])
    if rng.random() < 0.25:
        init = None  # FenwickTree(n)
    else:
        init = [rng.randint(-20, 20) for _ in range(n)]
        if rng.random() < 0.12:  # numeric edge: a huge entry next to small ones (sums stay exact below 2^53)
            init[rng.randrange(n)] = rng.choice([10 ** 13, -10 ** 13, 2 ** 45 + 1, 10 ** 12 + 7])
            scale = 1
    ops = []
    for _ in range(rng.randint(1, 120 if big else 50)):
        r = rng.random()
        if r < 0.45:
            ops.append([0, rng.randrange(n), rng.randint(-9, 9)])
        elif r < 0.75:
            ops.append([1, rng.randrange(n)])
        else:
            a, b = sorted((rng.randrange(n), rng.randrange(n)))
            ops.append([2, a, b])
    return {"kind": "fen", "n": n, "init": init, "scale": scale, "ops": ops,
            "floats": rng.random() < 0.5}


# ---------------------------------------------------------------------------
# implementation side
# ---------------------------------------------------------------------------

def impl(case):
    from solvor.utils.data_structures import FenwickTree, UnionFind
    decoy = case.get("decoy")  # a second live instance operated in between (class-level shared state would show)
    if case["kind"] == "uf":
        uf = UnionFind(case["n"])
        duf = UnionFind(decoy["n"]) if decoy else None
        outs = []
        fresh = case.get("fresh_ints")
        for idx, (k, x, y) in enumerate(case["ops"]):
            if fresh:  # equal but never identical index objects (ints >= 257 are not cached)
                x, y = int(str(x)), int(str(y))
            if duf is not None:
                a, b = decoy["pairs"][idx % len(decoy["pairs"])]
                duf.union(a, b)
                duf.find(b)
            if k == UNION:
                outs.append(bool(uf.union(x, y)))
            elif k == FIND:
                outs.append(int(uf.find(x)))
            elif k == CONN:
                outs.append(bool(uf.connected(x, y)))
            elif k == COUNT:
                outs.append(int(uf.component_count))
            elif k == SIZES:
                outs.append([int(v) for v in uf.component_sizes()])
            else:
                outs.append([sorted(int(v) for v in s) for s in uf.get_components()])
        return outs
    sc = case["scale"]
    conv = (lambda v: v / sc) if (case["floats"] or sc != 1) else (lambda v: v)
    init_vals = None if case["init"] is None else [conv(v) for v in case["init"]]
    if init_vals is not None and case.get("init_as_tuple"):
        init_vals = tuple(init_vals)
    ft = FenwickTree(case["n"]) if init_vals is None else FenwickTree(init_vals)
    dft = FenwickTree(decoy["n"]) if decoy else None
    outs = []
    ref = [0] * case["n"] if init_vals is None else list(init_vals)  # the plain array (exact: dyadic values < 2^53)
    for idx, op in enumerate(case["ops"]):
        if dft is not None:
            a, b = decoy["pairs"][idx % len(decoy["pairs"])]
            dft.update(a, b + 1)
            dft.prefix(b)
        if op[0] == 0:
            ft.update(op[1], conv(op[2]))
            ref[op[1]] += conv(op[2])
        elif op[0] == 1:
            outs.append(Fraction(ft.prefix(op[1])) * sc)
        else:
            outs.append(Fraction(ft.range_sum(op[1], op[2])) * sc)
    # R_trace for theorem fenwick_updates_eq_rebuild: the internal tree after the history is the very
    # list the constructor builds from the updated plain array (1 equal, 0 differs, -1 representation not a list `_tree`)
    flag = -1
    try:
        mine, fresh = getattr(ft, "_tree", None), getattr(FenwickTree(list(ref)), "_tree", None)
        if isinstance(mine, list) and isinstance(fresh, list):
            flag = 1 if [Fraction(v) for v in mine] == [Fraction(v) for v in fresh] else 0
    except Exception:
        flag = -1
    return [[f.numerator, f.denominator] for f in outs] + [["tree", flag]]


def to_request(case, out):
    if case["kind"] == "uf":
        ops = []
        for (k, x, y), o in zip(case["ops"], out if out is not None else [0] * len(case["ops"])):
            r = o if (k == FIND and isinstance(o, int) and 0 <= o < case["n"]) else 0
            ops.append([k, x, y, r])
        return ["uf", case["n"], ops]
    init = ["zeros", case["n"]] if case["init"] is None else case["init"]
    return ["fen", init, case["ops"]]


# ---------------------------------------------------------------------------
# comparison
# ---------------------------------------------------------------------------

def nontrivial_uf(case):
    size = {i: 1 for i in range(case["n"])}
    par = list(range(case["n"]))

    def f(x):
        while par[x] != x:
            x = par[x]
        return x
    for k, x, y in case["ops"]:
        if k == UNION:
            a, b = f(x), f(y)
            if a != b:
                if size[a] > 1 and size[b] > 1:
                    return True
                par[b] = a
                size[a] += size[b]
    return False


def nontrivial_fen(case):
    seen_q = False
    for op in case["ops"]:
        if op[0] != 0:
            seen_q = True
        elif seen_q:
            return True
    return False


def judge(ctx, case, out, reply):
    rep = {"case": case, "impl": out, "model": reply}
    if case["kind"] == "uf":
        fn = "UnionFind"
        if out[0] != "ok":
            ctx.fail(fn, "raises:" + err_kind(out), f"in-range history raised/timed out: {out[1]}", rep)
            return
        uf_outs, qf_outs, roots, impl_rep = reply
        if uf_outs != qf_outs:  # would contradict theorem uf_refines: an infrastructure problem, not a verdict
            raise RuntimeError(f"model and reference disagree (contradicts uf_refines): {case}")
        names = ["union", "find", "connected", "component_count", "component_sizes", "get_components"]
        for idx, ((k, x, y), got, ref, root, irep) in enumerate(zip(case["ops"], out[1], qf_outs, roots, impl_rep)):
            ctx.count("uf_op:" + names[k])
            what = None
            if k in (UNION, CONN, COUNT):
                if got != ref:
                    what = f"{names[k]}({x},{y}) returned {got}, the partition says {ref}"
            elif k == FIND:
                # R_prop: the returned representative lies in x's class
                if not (isinstance(got, int) and 0 <= got < case["n"]) or irep != ref:
                    what = f"find({x}) returned {got}, which is not in the class of {x}"
                elif got != root:
                    ctx.tdiv(fn, {"case": case, "op_index": idx, "impl_root": got, "mirror_root": root})
            elif k == SIZES:
                if sorted(got) != sorted(ref):
                    what = f"component_sizes returned {got}, the partition has {ref}"
                elif got != ref:
                    ctx.tdiv(fn, {"case": case, "op_index": idx, "impl": got, "mirror": ref})
            else:
                if sorted(got) != sorted(ref):
                    what = f"get_components returned {got}, the partition is {ref}"
                elif got != ref:
                    ctx.tdiv(fn, {"case": case, "op_index": idx, "impl": got, "mirror": ref})
            if what:
                ctx.fail(fn, "wrong_answer:" + names[k], f"op #{idx}: {what}", {**rep, "op_index": idx})
                break
        ctx.case([case["n"], case["ops"]], nontrivial_uf(case),
                 {"n": case["n"], "ops": case["ops"][:12], "impl": out[1][:12]})
    else:
        fn = "FenwickTree"
        if out[0] != "ok":
            ctx.fail(fn, "raises:" + err_kind(out), f"in-range history raised/timed out: {out[1]}", rep)
            return
        fen_outs, arr_outs = reply
        if fen_outs != arr_outs:
            raise RuntimeError(f"model and reference disagree (contradicts fenwick_refines): {case}")
        tree_flag = out[1][-1][1] if out[1] and out[1][-1][0] == "tree" else -1
        got = [Fraction(a, b) for a, b in out[1] if a != "tree"]
        ctx.count("fen_tree_vs_rebuild:" + {1: "equal", 0: "differs", -1: "not_observable"}[tree_flag])
        if tree_flag == 0:
            ctx.tdiv(fn, {"case": case, "theorem": "fenwick_updates_eq_rebuild",
                          "what": "internal _tree after the history differs from FenwickTree(updated array)._tree"})
        ctx.count("fen_ctor:" + ("size" if case["init"] is None else "list"))
        qi = 0
        for idx, op in enumerate(case["ops"]):
            if op[0] == 0:
                ctx.count("fen_op:update")
                continue
            ctx.count("fen_op:" + ("prefix" if op[0] == 1 else "range_sum"))
            if got[qi] != arr_outs[qi]:
                ctx.fail(fn, "wrong_answer:" + ("prefix" if op[0] == 1 else "range_sum"),
                         f"op #{idx} {op}: returned {got[qi]}, the plain array gives {arr_outs[qi]}",
                         {**rep, "op_index": idx})
                break
            qi += 1
        ctx.case([case["n"], case["init"], case["ops"]], nontrivial_fen(case),
                 {"n": case["n"], "init": case["init"], "ops": case["ops"][:10]})


def run_cases(ctx, cases):
    outs = run_pool(impl, cases, timeout=30.0)
    reqs = [to_request(c, o[1] if o[0] == "ok" else None) for c, o in zip(cases, outs)]
    replies = Driver("Ds", interp=True).run(reqs, chunks=12)
    for c, o, rp in zip(cases, outs, replies):
        if rp and rp[0] == "error":
            raise RuntimeError(f"model rejected request: {rp} for {c}")
        judge(ctx, c, o, rp)


EDGE = [
    {"kind": "uf", "n": 5, "ops": [[0, 0, 1], [0, 1, 0], [0, 2, 2], [1, 1, 0], [2, 0, 1], [0, 3, 4], [3, 0, 0], [0, 1, 4],
                                   [4, 0, 0], [5, 0, 0]]},
    {"kind": "uf", "n": 1, "ops": [[0, 0, 0], [1, 0, 0], [3, 0, 0], [4, 0, 0], [5, 0, 0]]},
    {"kind": "fen", "n": 5, "init": [1, 2, 3, 4, 5], "scale": 1, "floats": False,
     "ops": [[1, 2], [0, 1, 10], [1, 2], [2, 1, 3], [0, 4, -7], [1, 4]]},
    {"kind": "fen", "n": 4, "init": None, "scale": 1, "floats": True, "ops": [[0, 1, 10], [1, 2], [2, 1, 3], [2, 0, 0]]},
]


def run(ctx, budget):
    ctx.cov["rule"] = RULE
    cases = list(EDGE) + [c["case"] for c in load_corpus("C20")]
    n = 500 * budget
    big = ctx.tier == "thorough"
    for i in range(n):
        c = gen_uf(ctx.rng, big) if i % 2 == 0 else gen_fen(ctx.rng, big)
        if ctx.rng.random() < 0.25:
            dn = ctx.rng.randint(2, 9)
            c["decoy"] = {"n": dn, "pairs": [[ctx.rng.randrange(dn), ctx.rng.randrange(dn)] for _ in range(5)]}
            ctx.count("presentation:decoy_instance")
        if c["kind"] == "fen" and c["init"] is not None and ctx.rng.random() < 0.3:
            c["init_as_tuple"] = True
            ctx.count("presentation:init_as_tuple")
        if c["kind"] == "fen" and ctx.rng.random() < 0.4:
            # final sweep: every prefix is queried after the last update, so a corrupted cell of the
            # implicit tree cannot hide behind the sampled queries
            c["ops"] = c["ops"] + [[1, i] for i in range(c["n"])]
            ctx.count("fen_family:final_sweep")
        cases.append(c)
    # a few large structured histories (deep-chain family): cheap for a correct union-find
    for size in ([1200, 1500] if not big else [1200, 1500, 2000, 2500]):
        cases.append(gen_uf_chain(ctx.rng, size))
    run_cases(ctx, cases)


def replay(ctx, body):
    ctx.cov["rule"] = RULE
    run_cases(ctx, [body["case"]])
