"""C02 — `solve_sat`'s verdicts are right and every call comes back: INFEASIBLE only for unsatisfiable
clauses + assumptions (compared with the proved reference DPLL, theorems dpll_sat_iff / dpll_unsat_iff), never
a model for an unsatisfiable input, a model whenever one exists and the budgets are not exhausted, an answer
within the wall-clock limit.  Weighted towards unsatisfiable cores with tiny budgets."""
from __future__ import annotations

from props import sat_common as S

AREAS = S.AREAS
LEVEL = "proof"
ASSUMPTIONS = S.ASSUMPTIONS

WEIGHTS = {"small_scope": 24, "mixed": 26, "planted3sat": 6, "threshold3sat": 12, "pigeonhole": 10, "xor": 9,
           "colouring": 13, "many_models": 0.15}


def run(ctx, budget):
    S.run_prop(ctx, "C02", budget, WEIGHTS, n_quick=12000)


def replay(ctx, body):
    S.replay_prop(ctx, "C02", body)
