"""C08 — max_flow (solvor/flow.py) against the proved Edmonds-Karp mirror (Solvor/Flow/EK.lean).

R_prop: the returned dict is a feasible flow on pooled capacities (capacity, conservation), its net
inflow at the sink is the reported objective, and the objective is the certified maximum: the
verified checker `chkMaxFlow` is evaluated in Lean on the implementation's flow together with the
mirror's cut (and on the mirror's own flow).  R_trace: flow dict and objective equal the mirror's.
"""
from __future__ import annotations

from core import Driver, Infra, load_corpus
from pool import err_kind, run_pool
from props import flow_common as fc

AREAS = ["Flow"]
LEVEL = "proof"
ASSUMPTIONS = [
    "max_flow: CPython dict/defaultdict/deque semantics as modelled (key insertion order of capacity[node], "
    "missing key reads 0); tied by R_trace: returned flow dict and objective equal the mirror's",
    "excluded region: source == sink (no s-t cut exists; the code adds inf forever) and negative or "
    "non-integer capacities — outside the property's quantifier; source == sink is run and only recorded",
]
RULE = ("digraphs of 2..8 nodes (10 thorough): random multigraphs (parallel/anti-parallel arcs, arcs into the "
        "source/out of the sink, self-loops, zero capacities, unreachable parts, terminals without arcs, "
        "int/str/mixed labels, 2- and 3-tuples), layered DAGs with shortcuts, and the structured family "
        "'two disjoint s-t paths + a crossing arc that BFS takes first' whose maximum needs a reverse residual "
        "arc with and without an explicit reverse key, and (15 % of the cases) anti-parallel pairs u<->v where f units "
        "first go over v->u and a later shortest path pushes max(f, cap(u,v)) < d <= cap(u,v)+f through u->v (partial "
        "cancellation, counted as `partial_cancel`), and (12 %) gadgets s->a->b->t with side chains of increasing length that "
        "force 'use a->b, cancel it through b->a on a longer path, push a->b again on a still longer path' (capacities 1 "
        "or k, 1-3 gadgets, up to ~40 nodes; counted as `repush_after_cancel`); node labels include None, 0, '', (), "
        "frozenset(), -1, 0.5 and tuples; (8 %) numeric edge cases: huge odd capacities above 2**53 mixed with small "
        "ones, integral floats as capacities, 10-60 unit routes next to a huge one (objective and flows compared "
        "exactly as integers); non-trivial = the mirror made >= 2 augmentations or "
        "cancelled flow on a reverse arc; distinct by canonical (graph, source, sink)")
FN = "max_flow"


# ---------------------------------------------------------------------------
# generators
# ---------------------------------------------------------------------------

def _cap(rng):
    r = rng.random()
    if r < 0.12:
        return 0
    if r < 0.55:
        return rng.randint(1, 3)
    return rng.randint(1, 9)


def _finish(rng, n, arcs, s, t, shuffle_keys=True):
    """arcs = [(u, v, cap)] over 0..n-1 in the intended per-node order -> case with labels."""
    labs = fc.label_maker(rng, n)
    keys = []
    for u, v, c in arcs:
        if u not in keys:
            keys.append(u)
    if shuffle_keys and rng.random() < 0.5:
        rng.shuffle(keys)
    # isolated nodes / nodes that only receive arcs sometimes appear as keys with empty lists
    for x in range(n):
        if x not in keys and rng.random() < 0.3:
            keys.insert(rng.randint(0, len(keys)), x)
    three = rng.random() < 0.4
    graph = []
    for u in keys:
        lst = []
        for a, b, c in arcs:
            if a == u:
                lst.append([labs[b], c, rng.randint(-3, 6)] if three and rng.random() < 0.8 else [labs[b], c])
        graph.append([labs[u], lst])
    return {"graph": graph, "source": labs[s], "sink": labs[t]}


def gen_random(rng, big):
    n = rng.choice([2, 3, 4, 4, 5, 5, 6, 6, 7, 8] + ([9, 10] if big else []))
    s, t = rng.sample(range(n), 2)
    dens = rng.choice([0.15, 0.25, 0.35, 0.5])
    arcs = []
    for u in range(n):
        for v in range(n):
            if u == v:
                if rng.random() < 0.03:
                    arcs.append((u, v, _cap(rng)))
                continue
            if rng.random() < dens:
                arcs.append((u, v, _cap(rng)))
                if rng.random() < 0.15:  # parallel arc
                    arcs.append((u, v, _cap(rng)))
    if rng.random() < 0.3:  # cut a part off
        x = rng.randrange(n)
        arcs = [a for a in arcs if a[1] != x or rng.random() < 0.2]
    if rng.random() < 0.7:  # plant one or two s-t paths so that most cases carry flow
        for _ in range(rng.choice([1, 1, 2])):
            inner = [x for x in range(n) if x not in (s, t)]
            rng.shuffle(inner)
            p = [s] + inner[:rng.randint(0, min(4, len(inner)))] + [t]
            arcs += [(p[i], p[i + 1], rng.randint(1, 9)) for i in range(len(p) - 1)]
    if rng.random() < 0.06:  # a terminal without arcs
        x = rng.choice([s, t])
        arcs = [a for a in arcs if x not in (a[0], a[1])]
    rng.shuffle(arcs)
    return _finish(rng, n, arcs, s, t)


def gen_layered(rng, big):
    """layered DAG s -> L1 -> ... -> Lk -> t with skip arcs: short paths block, reverse arcs repair."""
    k = rng.choice([2, 2, 3, 3, 4] if big else [2, 2, 3])
    widths = [rng.choice([1, 2, 2, 3]) for _ in range(k)]
    while sum(widths) + 2 > (10 if big else 8):
        widths[rng.randrange(k)] = 1
    layers, nid = [[0]], 1
    for w in widths:
        layers.append(list(range(nid, nid + w)))
        nid += w
    layers.append([nid])
    n = nid + 1
    arcs = []
    for i in range(len(layers) - 1):
        for u in layers[i]:
            for v in layers[i + 1]:
                if rng.random() < 0.6:
                    arcs.append((u, v, rng.randint(1, 3)))
    for i in range(len(layers)):
        for j in range(i + 2, len(layers)):
            for u in layers[i]:
                for v in layers[j]:
                    if rng.random() < 0.2 and not (i == 0 and j == len(layers) - 1):
                        arcs.append((u, v, rng.randint(1, 2)))
    for i in range(1, len(layers)):
        for u in layers[i]:
            for v in layers[rng.randrange(i)]:
                if rng.random() < 0.12:  # backward arcs (make some reverse keys exist)
                    arcs.append((u, v, rng.choice([0, 0, 1, 2])))
    rng.shuffle(arcs)
    return _finish(rng, n, arcs, 0, n - 1)


def gen_cross(rng, big):
    """two internally disjoint s-t paths P, Q and a crossing arc P[i] -> Q[j] making a short path that
    BFS finds first; the maximum then needs the reverse residual arc of an arc of that path."""
    lp = rng.choice([2, 3, 3, 3] + ([4] if big else []))   # inner nodes of P
    lq = rng.choice([1, 2, 3, 3])
    while lp + lq + 2 > (10 if big else 8):
        lp -= 1
    P = [0] + list(range(1, lp + 1))
    Q = [0] + list(range(lp + 1, lp + lq + 1))
    t = lp + lq + 1
    P.append(t)
    Q.append(t)
    n = t + 1
    c = rng.choice([1, 1, 2, 3])
    arcs = [(P[i], P[i + 1], c if rng.random() < 0.8 else rng.randint(1, 4)) for i in range(len(P) - 1)]
    arcs += [(Q[i], Q[i + 1], c if rng.random() < 0.8 else rng.randint(1, 4)) for i in range(len(Q) - 1)]
    # crossing arcs between inner nodes, both directions possible
    for _ in range(rng.choice([1, 1, 2])):
        a, b = (P, Q) if rng.random() < 0.5 else (Q, P)
        # early on one path -> late on the other: the crossing path is the shortest one
        i = 1 if rng.random() < 0.7 else rng.randint(1, len(a) - 2)
        j = len(b) - 2 if rng.random() < 0.7 else rng.randint(1, len(b) - 2)
        arcs.append((a[i], b[j], rng.choice([1, c, c, 5])))
    r = rng.random()
    if r < 0.25:  # explicit reverse keys (zero or positive capacity): the unrepaired code copes
        for (u, v, _) in list(arcs):
            if rng.random() < 0.6:
                arcs.append((v, u, rng.choice([0, 0, 1])))
    elif r < 0.4:  # a little noise
        for _ in range(rng.randint(1, 3)):
            u, v = rng.sample(range(n), 2)
            arcs.append((u, v, _cap(rng)))
    # per-node order decides which path BFS takes first: try both
    if rng.random() < 0.5:
        rng.shuffle(arcs)
    else:
        arcs.sort(key=lambda a: (a[0], -a[1]) if rng.random() < 0.5 else (a[0], a[1]))
    return _finish(rng, n, arcs, 0, t, shuffle_keys=rng.random() < 0.3)


def gen_antiparallel(rng, big):
    """anti-parallel pair u<->v with different capacities: BFS first routes f units over v->u (the unique
    shortest path s ~> v -> u ~> t, whose end arcs it saturates), and the next shortest augmenting path runs
    s ~> u -> v ~> t through the residual cap(u,v) + f with a bottleneck d, max(f, cap(u,v)) < d <= cap(u,v) + f:
    the augmentation must cancel f on v->u *and* push d - f forward on u->v (`0 < flow[v][u] < path_flow`)."""
    f = rng.randint(1, 4)
    c = rng.randint(1, 4)                      # cap(u, v)
    d = rng.randint(max(f, c) + 1, c + f)      # bottleneck of the second path
    cvu = f + rng.choice([0, 0, 1, 3])         # cap(v, u) >= f
    big_ = lambda: d + rng.choice([0, 0, 1, 2, 5])
    s, v, u, t = 0, 1, 2, 3
    nid = 4
    la = rng.choice([1, 1, 2]) if not big else rng.choice([1, 2, 3])   # chain s ~> u (besides s -> v)
    lb = rng.choice([1, 1, 2]) if not big else rng.choice([1, 2, 3])   # chain v ~> t (besides u -> t)
    A = list(range(nid, nid + la)); nid += la
    B = list(range(nid, nid + lb)); nid += lb
    n = nid
    # per-node order matters for ties: s lists v first, v lists u first
    arcs = [(s, v, f), (v, u, cvu), (u, t, f), (u, v, c)]
    chain_a = [s] + A + [u]
    chain_b = [v] + B + [t]
    caps_a = [big_() for _ in range(len(chain_a) - 1)]
    caps_b = [big_() for _ in range(len(chain_b) - 1)]
    # exactly one arc of the second path carries the bottleneck d (the others are at least d)
    k = rng.randrange(len(caps_a) + len(caps_b))
    if k < len(caps_a):
        caps_a[k] = d
    else:
        caps_b[k - len(caps_a)] = d
    arcs += [(chain_a[i], chain_a[i + 1], caps_a[i]) for i in range(len(chain_a) - 1)]
    arcs += [(chain_b[i], chain_b[i + 1], caps_b[i]) for i in range(len(chain_b) - 1)]
    limit = 10 if big else 8
    r = rng.random()
    if r < 0.35:      # context: zero-capacity and backward arcs, parallel copies of the pair
        for _ in range(rng.randint(1, 3)):
            x, y = rng.sample(range(n), 2)
            arcs.append((x, y, 0))
        if rng.random() < 0.5:
            arcs.append((v, u, 0))
    elif r < 0.55 and n < limit:   # an extra node hanging off the construction
        w = n
        n += 1
        arcs.append((rng.randrange(n - 1), w, rng.randint(1, 5)))
        if rng.random() < 0.5:
            arcs.append((w, rng.choice([x for x in range(n - 1) if x not in (s, t)]), rng.randint(0, 1)))
    elif r < 0.7:     # random noise that may or may not destroy the pattern
        x, y = rng.sample(range(n), 2)
        arcs.append((x, y, _cap(rng)))
    return _finish(rng, n, arcs, s, t, shuffle_keys=rng.random() < 0.5)


def gen_repush(rng, big):
    """middle arcs a->b that are used, later cancelled through b->a, later pushed forward again.  Per gadget:
    s -> a -> b -> t is the unique shortest path (P1, saturates all three arcs); chains C: s ~> b (lc arcs) and
    D: a ~> t (ld arcs) make the next path  s ~C~> b =(reverse of a->b)=> a ~D~> t  (lc + 1 + ld arcs) and are
    saturated by it; the only way to the last k units is  s ~E~> a -> b ~F~> t  over the longer chains E (le >= lc + 2
    arcs) and F (lf >= ld + 2 arcs), i.e. a->b must be followed forward again after its flow was cancelled.
    Capacities are 1 or k throughout; several gadgets share s and t."""
    k = rng.choice([1, 1, 1, 2, 3, 7])
    gadgets = rng.choice([1, 1, 2]) if not big else rng.choice([1, 2, 2, 3])
    s, t = 0, 1
    nid = 2
    arcs = []
    for _ in range(gadgets):
        lc = rng.choice([2, 2, 3])
        ld = rng.choice([2, 2, 3])
        le = lc + 2 + rng.choice([0, 0, 1])
        lf = ld + 2 + rng.choice([0, 0, 1])
        a, b = nid, nid + 1
        nid += 2

        def chain(x, y, length):
            nonlocal nid
            inner = list(range(nid, nid + length - 1))
            nid += length - 1
            nodes = [x] + inner + [y]
            return [(nodes[i], nodes[i + 1], k) for i in range(length)]
        # per-node order: s lists a first, a lists b first (ties between equally long first paths)
        arcs += [(s, a, k), (a, b, k), (b, t, k)]
        arcs += chain(s, b, lc) + chain(a, t, ld) + chain(s, a, le) + chain(b, t, lf)
        if rng.random() < 0.3:      # explicit reverse arc of the middle arc (capacity 0 or k): an anti-parallel pair
            arcs.append((b, a, rng.choice([0, 0, k])))
    n = nid
    r = rng.random()
    if r < 0.2:
        for _ in range(rng.randint(1, 2)):
            x, y = rng.sample(range(n), 2)
            arcs.append((x, y, 0))
    elif r < 0.3:
        x, y = rng.sample(range(n), 2)
        arcs.append((x, y, rng.randint(1, 2)))   # noise that may or may not destroy the pattern
    return _finish(rng, n, arcs, s, t, shuffle_keys=rng.random() < 0.5)


HUGE = [2 ** 53 + 1, 2 ** 53 + 3, 3 * 2 ** 53 + 1, 2 ** 60 + 7, 10 ** 18 + 3, 2 ** 64 + 1, 10 ** 30 + 7]


def gen_numeric(rng, big):
    """numeric edge: huge ODD capacities above 2**53 (no double holds them) mixed with small ones, integral floats
    as capacities, and long augmenting sequences (many capacity-1 routes next to a huge one).  Python ints are
    unbounded and the Lean model is over Int, so flow dict, objective and cut capacity must agree exactly."""
    kind = rng.random()
    if kind < 0.3:       # a chain of huge arcs (the smallest one is odd and huge) with small side arcs
        k = rng.randint(1, 4)
        n = k + 1 + rng.randint(0, 2)
        arcs = [(i, i + 1, rng.choice(HUGE)) for i in range(k)]
        for _ in range(rng.randint(0, 3)):
            u, v = rng.sample(range(n), 2)
            arcs.append((u, v, rng.choice([0, 1, 2, 5, rng.choice(HUGE)])))
        s, t = 0, k
    elif kind < 0.6:     # a small random multigraph, some capacities huge and odd
        case_n = rng.choice([3, 4, 5, 6])
        n = case_n
        s, t = rng.sample(range(n), 2)
        arcs = []
        for u in range(n):
            for v in range(n):
                if u != v and rng.random() < 0.4:
                    arcs.append((u, v, rng.choice(HUGE) if rng.random() < 0.5 else rng.randint(0, 6)))
        inner = [x for x in range(n) if x not in (s, t)]
        rng.shuffle(inner)
        p = [s] + inner[:rng.randint(0, 2)] + [t]
        arcs += [(p[i], p[i + 1], rng.choice(HUGE) + rng.choice([0, 2, 10])) for i in range(len(p) - 1)]
        rng.shuffle(arcs)
    elif kind < 0.8:     # many unit routes next to a huge one: a long augmenting sequence
        k = rng.randint(10, 60 if big else 35)
        s, t = 0, 1
        arcs = []
        nid = 2
        for _ in range(k):
            if rng.random() < 0.5:
                arcs += [(s, nid, 1), (nid, t, rng.choice([1, 1, 2]))]
            else:
                arcs += [(s, nid, rng.choice([1, 3])), (nid, t, 1)]
            nid += 1
        h = rng.choice(HUGE)
        arcs += [(s, nid, h), (nid, t, h + rng.choice([0, 0, 2]))]
        nid += 1
        if rng.random() < 0.5:
            arcs.append((s, t, rng.choice(HUGE)))
        n = nid
        rng.shuffle(arcs)
    else:                # capacities given as floats with integer values
        n = rng.choice([3, 4, 5])
        s, t = rng.sample(range(n), 2)
        arcs = []
        for u in range(n):
            for v in range(n):
                if u != v and rng.random() < 0.5:
                    c = rng.randint(0, 6)
                    arcs.append((u, v, float(c) if rng.random() < 0.7 else c))
        arcs.append((s, t, float(rng.randint(1, 4))))
        rng.shuffle(arcs)
    return _finish(rng, n, arcs, s, t)


def gen_case(rng, big):
    r = rng.random()
    if r < 0.08:
        return gen_numeric(rng, big)         # fixed share (8 %) in both tiers
    r = rng.random()
    if r < 0.32:
        return gen_random(rng, big)
    if r < 0.52:
        return gen_layered(rng, big)
    if r < 0.75:
        return gen_cross(rng, big)
    if r < 0.88:
        return gen_antiparallel(rng, big)    # fixed share (13 %) in both tiers
    return gen_repush(rng, big)              # fixed share (12 %) in both tiers


def edge_cases():
    yield {"graph": [], "source": "s", "sink": "t"}
    yield {"graph": [["s", []]], "source": "s", "sink": "t"}
    yield {"graph": [["s", [["t", 0]]]], "source": "s", "sink": "t"}
    yield {"graph": [["s", [["t", 3], ["t", 4]]], ["t", [["s", 5]]]], "source": "s", "sink": "t"}
    yield {"graph": [["s", [["a", 10, 0], ["b", 10, 0]]], ["a", [["b", 5, 0], ["t", 10, 0]]], ["b", [["t", 10, 0]]],
                     ["t", []]], "source": "s", "sink": "t"}
    # the reverse-residual witness (DESIGN §4 C08): max = 2
    yield {"graph": [["s", [["a", 1], ["c", 1]]], ["a", [["b", 1], ["d", 1]]], ["c", [["b", 1]]], ["b", [["t", 1]]],
                     ["d", [["t", 1]]]], "source": "s", "sink": "t"}
    yield {"graph": [[0, [[1, 2], [0, 4]]], [1, [[2, 2], [0, 1]]], [2, [[1, 1]]]], "source": 0, "sink": 2}
    # partial cancellation on an anti-parallel pair: 2 units go v->u first, then 3 units come through u->v (cap 1)
    yield {"graph": [["s", [["v", 2], ["a", 3]]], ["v", [["u", 2], ["b", 3]]], ["a", [["u", 3]]], ["u", [["t", 2], ["v", 1]]],
                     ["b", [["t", 3]]]], "source": "s", "sink": "t"}
    # a node labelled None in front of the sink / as the source / as the sink
    # numeric edge: one arc of capacity 2**53 + 1 (not a double); float capacities with integer values
    yield {"graph": [["s", [["t", 2 ** 53 + 1]]]], "source": "s", "sink": "t"}
    yield {"graph": [["s", [["a", 2 ** 60 + 7], ["t", 1]]], ["a", [["t", 10 ** 18 + 3]]]], "source": "s", "sink": "t"}
    yield {"graph": [["s", [["a", 2.0], ["t", 1.0]]], ["a", [["t", 3.0]]]], "source": "s", "sink": "t"}
    yield {"graph": [["s", [[None, 5]]], [None, [["t", 5]]]], "source": "s", "sink": "t"}
    yield {"graph": [[None, [["t", 5], ["a", 2]]], ["a", [["t", 2]]]], "source": None, "sink": "t"}
    yield {"graph": [["s", [["a", 2], [None, 2]]], ["a", [[None, 2]]]], "source": "s", "sink": None}
    yield {"graph": [[0, [[{"tuple": []}, 2], ["", 1]]], [{"tuple": []}, [[{"frozenset": []}, 2]]], ["", [[{"frozenset": []}, 3]]]],
           "source": 0, "sink": {"frozenset": []}}


# ---------------------------------------------------------------------------
# implementation side (worker process)
# ---------------------------------------------------------------------------

def impl(case):
    from solvor.flow import max_flow
    g = fc.graph_dict(case["graph"])
    r = max_flow(g, fc.dec(case["source"]), fc.dec(case["sink"]))
    sol = r.solution
    flow = None
    if isinstance(sol, dict):
        flow = [[k[0], k[1], v] for k, v in sol.items()]
    return {"status": r.status.name, "objective": r.objective if isinstance(r.objective, (int, float)) else repr(r.objective),
            "flow": flow, "iterations": r.iterations}


def prepare(case, out):
    """-> (request, problem)  problem = (klass, text) if the output cannot even be encoded"""
    idx = fc.index_map(case["graph"], extra=(case["source"], case["sink"]))
    arcs = fc.arcs_in_order(case["graph"], idx)
    iflow, iobj, problem = None, None, None
    if out[0] == "ok":
        r = out[1]
        iobj = fc.integral(r["objective"])
        if iobj is None:
            problem = ("objective_not_integer", f"objective {r['objective']!r} is not an integer")
        if r["flow"] is None:
            problem = ("no_flow_dict", "solution is not a dict")
        else:
            iflow = []
            for u, v, x in r["flow"]:
                xi = fc.integral(x)
                if u not in idx or v not in idx:
                    problem = ("flow_on_unknown_node", f"flow key ({u!r}, {v!r}) names a node that is not in the graph")
                elif xi is None:
                    problem = ("flow_not_integer", f"flow[{u!r}, {v!r}] = {x!r}")
                else:
                    iflow.append([idx[u], idx[v], xi])
        if problem:
            iflow, iobj = None, None
    req = ["maxflow", len(idx), arcs, idx[fc.dec(case["source"])], idx[fc.dec(case["sink"])], iflow, iobj]
    return req, problem


def has_missing_reverse_key(arcs):
    pairs = {(u, v) for u, v, c in arcs}
    return any(c > 0 and (v, u) not in pairs for u, v, c in arcs)


def judge(ctx, case, out, req, problem, reply):
    rep = {"case": case, "impl": out, "model": reply}
    m_value, m_flow, m_vis, m_augs, m_cancels, m_done, m_cert, ichk, m_partial, m_repush = reply
    if not (m_done and m_cert):
        raise Infra(f"C08 model did not certify its own answer (done={m_done}, cert={m_cert}) on {case}")
    ctx.count("cert_checked_model")
    canon = [case["graph"], case["source"], case["sink"]]
    nontrivial = m_augs >= 2 or m_cancels >= 1
    if m_partial:     # an augmentation met 0 < flow[v][u] < path_flow (cancel partly, push the rest forward)
        ctx.count("partial_cancel")
    if m_repush:      # an arc whose flow had been cancelled through its reverse residual arc is pushed forward again
        ctx.count("repush_after_cancel")
    ctx.count(f"augmentations:{min(m_augs, 6)}{'+' if m_augs >= 6 else ''}")
    if m_cancels:
        ctx.count("reverse_arc_cancelled")
    if has_missing_reverse_key(req[2]):
        ctx.count("input:some_reverse_key_absent")
    if out[0] != "ok":
        ctx.fail(FN, "raises:" + err_kind(out), f"valid input raised/timed out: {out[1]}", rep)
        ctx.case(canon, nontrivial)
        return
    r = out[1]
    ctx.count("status:" + r["status"])
    if problem:
        ctx.fail(FN, problem[0], problem[1], rep)
        ctx.case(canon, nontrivial)
        return
    ctx.count("cert_checked_impl")
    keys, capok, cons, valok, cut = ichk
    obj = req[6]
    bad = False
    if not keys:
        bad = True
        ctx.fail(FN, "flow_on_unknown_node", "flow key outside the node set (verified checker chkKeys)", rep)
    if not capok:
        bad = True
        pooled = {}
        for a, b, c in req[2]:
            pooled[(a, b)] = pooled.get((a, b), 0) + c
        inv = {i: lab for lab, i in fc.index_map(case["graph"], extra=(case["source"], case["sink"])).items()}
        over = [f"flow {x} on arc ({inv[a]!r}, {inv[b]!r}) of pooled capacity {pooled.get((a, b), 0)}"
                for a, b, x in req[5] if x < 0 or x > pooled.get((a, b), 0)]   # explanation only
        ctx.fail(FN, "capacity_violated", "verified checker chkCap rejects the returned flow: " + "; ".join(over[:3]), rep)
    if not cons:
        bad = True
        ctx.fail(FN, "not_conserved", "inflow != outflow at a node other than source/sink (verified checker chkCons)", rep)
    if not valok:
        bad = True
        ctx.fail(FN, "objective_not_net_inflow", f"objective {obj} is not the net flow into the sink "
                 "(verified checker chkValue)", rep)
    if not bad:
        if obj < m_value:
            ctx.fail(FN, "not_maximum",
                     f"feasible flow of value {obj}, but the certified maximum (= capacity of the cut {m_vis}) is {m_value}",
                     rep)
        elif obj > m_value or not cut:
            raise Infra(f"C08: a Lean-checked feasible flow of value {obj} contradicts the certified maximum {m_value} "
                        f"(cut check {cut}) on {case}")
        else:
            ctx.count("r_prop_agree")
    # R_trace: returned dict and objective equal the mirror's
    if sorted(map(tuple, req[5])) != sorted(map(tuple, m_flow)) or obj != m_value:
        ctx.tdiv(FN, {"case": case, "impl": r, "mirror": {"value": m_value, "flow": m_flow}})
    else:
        ctx.count("r_trace_agree")
    ctx.case(canon, nontrivial, {"case": case, "impl": r, "model_value": m_value, "cut": m_vis, "augmentations": m_augs})


def evaluate(cases, ctx=None):
    """run implementation and model on `cases`; per case the list of failed R_prop clauses"""
    outs = run_pool(impl, cases, timeout=20.0)
    prepared = [prepare(c, o) for c, o in zip(cases, outs)]
    replies = Driver("Flow").run([p[0] for p in prepared], chunks=8 if len(cases) > 200 else 1)
    res = []
    for c, o, (req, problem), rp in zip(cases, outs, prepared, replies):
        if rp and rp[0] == "error":
            raise Infra(f"model rejected request: {rp} for {c}")
        col = fc.Collector(ctx)
        judge(col, c, o, req, problem, rp)
        res.append(col.fails)
    return res


def candidates(case):
    """single-step reductions: drop an arc, drop an empty key, lower a capacity, plain labels"""
    g = case["graph"]

    def with_graph(g2):
        return {**case, "graph": g2}

    def copy():
        return [[u, [list(a) for a in lst]] for u, lst in g]
    for i in range(len(g) - 1, -1, -1):
        for j in range(len(g[i][1]) - 1, -1, -1):
            g2 = copy()
            a = g2[i][1].pop(j)
            yield f"drop arc {g[i][0]!r}->{a[0]!r}", with_graph(g2)
        if not g[i][1]:
            g2 = copy()
            del g2[i]
            yield f"drop key {g[i][0]!r}", with_graph(g2)
    for i in range(len(g)):
        for j, a in enumerate(g[i][1]):
            for nv in sorted({0, 1, a[1] - 1}):
                if 0 <= nv < a[1]:
                    g2 = copy()
                    g2[i][1][j][1] = nv
                    yield f"capacity {g[i][0]!r}->{a[0]!r}: {a[1]} -> {nv}", with_graph(g2)
            if len(a) > 2:
                g2 = copy()
                g2[i][1][j] = a[:2]
                yield f"2-tuple {g[i][0]!r}->{a[0]!r}", with_graph(g2)


def shrink_one(case, failure):
    import time
    key = (failure[0], failure[1])
    small, history = fc.shrink(case, key, candidates, evaluate, time.time() + 12.0)
    return (evaluate([small])[0] if history else []), history, case


def run_cases(ctx, cases, do_shrink=True):
    fc.report(ctx, cases, evaluate(cases, ctx), shrink_one if do_shrink else None)


def excluded_region(ctx):
    """source == sink: no s-t cut, the loop adds inf forever; outside the quantifier, only recorded."""
    cases = [{"graph": [["s", [["a", 1]]], ["a", [["s", 1]]]], "source": "s", "sink": "s"}]
    for o in run_pool(impl, cases, timeout=1.5):
        ctx.count("excluded_region:source_equals_sink:" + err_kind(o))


def _summarise(ctx):
    h = ctx.cov["histogram"]
    for k in ("cert_checked_model", "cert_checked_impl", "r_prop_agree", "r_trace_agree", "partial_cancel", "repush_after_cancel"):
        ctx.cov[k] = h.get(k, 0)
    ctx.cov["timeouts"] = sum(v for k, v in h.items() if k.startswith("fail:") and ":no_return" in k)


def run(ctx, budget):
    ctx.cov["rule"] = RULE
    big = ctx.tier == "thorough"
    cases = list(edge_cases()) + [c["case"] for c in load_corpus("C08")]
    n = 3000 * budget
    cases += [gen_case(ctx.rng, big and i % 3 == 0) for i in range(n)]
    run_cases(ctx, cases)
    if not getattr(ctx, "_c08_excl", False):
        ctx._c08_excl = True
        excluded_region(ctx)
    _summarise(ctx)


def replay(ctx, body):
    ctx.cov["rule"] = RULE
    run_cases(ctx, [body["case"]], do_shrink=False)
    _summarise(ctx)
