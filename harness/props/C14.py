"""C14 — SCC, topological sort, condensation (solvor/scc.py) against Solvor/Graph.

Every verdict on the implementation's outputs is the value of a Lean checker (`chkScc`, `chkTopo`,
`cyclicB`, `chkCondense`) whose meaning is proved in Solvor/Graph/Theorems.lean; the mirrors
(`tarjan`, `kahn`, `condEdges`) are proved correct for every input (`tarjan_certifies`, `kahn_correct`,
`condense_correct`) and give R_trace.

Inputs whose neighbour lists leave the node list: the property does not say whether the graph meant
is the one induced on the node list (reading A – what `topological_sort` does) or the one explored
from it (reading B – what `strongly_connected_components` does).  On those inputs only the clauses
required under both readings are decided (`chk…Open`), and which reading each output satisfies is
counted in the histogram.
"""
from __future__ import annotations

import core
from core import Driver
from pool import err_kind, run_pool

AREAS = ["Graph"]
LEVEL = "proof"
ASSUMPTIONS = [
    "Python dict/set/deque of scc.py modelled as functions and lists (insertion order, FIFO); the recursion "
    "of strongconnect is modelled with fuel = number of distinct vertices + 1, proved sufficient (visit_spec); "
    "CPython's own recursion limit is not modelled",
    "neighbours outside the node list: the property is read as the clauses common to the induced-graph and "
    "the explored-graph reading (proved: chk...Open_correct, open_clauses_common); duplicate entries in the "
    "node iterable are outside the quantifier (SCC/condense judged on the node set, topological_sort only "
    "counted)",
]
RULE = ("random digraphs with <= 9 nodes (12 in the thorough tier): several weak components, planted cycles, "
        "DAG-biased instances, self loops, duplicate edges, shuffled node and neighbour order, int/str/mixed "
        "labels, list/tuple/generator iterables, neighbours outside the node list (sinks or with own "
        "neighbour lists), plus edge-list instances for the _edges variants (backend='python'); "
        "non-trivial = some component has >= 2 nodes or some node has a self loop (a DFS back edge); "
        "distinct by canonical (node list, neighbour table)")

FUNCS = ("strongly_connected_components", "topological_sort", "condense")


# ---------------------------------------------------------------------------
# generator
# ---------------------------------------------------------------------------

def _labels(rng, k):
    style = rng.choice(["int", "int", "shift", "str", "mixed", "neg"])
    if style == "int":
        return list(range(k))
    if style == "shift":
        base = rng.choice([1, 5, 100])
        return [base + 3 * i for i in range(k)]
    if style == "neg":
        return [i - k // 2 for i in range(k)]
    if style == "str":
        return [f"n{i}" for i in range(k)]
    return [(f"s{i}" if i % 2 else i + 10) for i in range(k)]


def gen_graph(rng, big: bool):
    hi = 12 if big else 9
    n = rng.choice([0, 1, 2, 3, 4, 5, 6, 7, 8, hi]) if rng.random() < 0.85 else rng.randint(0, hi)
    n_out = 0
    r = rng.random()
    if r < 0.25:
        n_out = rng.randint(1, 3)
    lab = _labels(rng, n + n_out)
    rng.shuffle(lab)
    nodes, outside = lab[:n], lab[n:]
    # weak components: split the nodes into groups, edges mostly inside groups
    g = rng.choice([1, 1, 2, 3]) if n else 1
    group = {v: rng.randrange(g) for v in nodes}
    shape = rng.choice(["random", "random", "dag", "dag+back", "cycles", "dense"])
    dens = {"random": rng.choice([0.1, 0.2, 0.35]), "dag": rng.choice([0.2, 0.4]), "dag+back": 0.3,
            "cycles": 0.08, "dense": 0.7}[shape]
    rank = {v: i for i, v in enumerate(rng.sample(nodes, len(nodes)))}
    table = {v: [] for v in nodes}
    for u in nodes:
        for w in nodes:
            if group[u] != group[w] and rng.random() < 0.9:
                continue
            if u == w:
                continue
            if shape in ("dag", "dag+back") and rank[u] >= rank[w]:
                continue
            if rng.random() < dens:
                table[u].append(w)
    if shape == "dag+back" and n >= 2:
        for _ in range(rng.randint(1, 2)):
            u, w = rng.sample(nodes, 2)
            if rank[u] < rank[w]:
                u, w = w, u
            table[u].append(w)
    if shape == "cycles" and n >= 2:
        for _ in range(rng.randint(1, 3)):
            k = rng.randint(2, min(n, 5))
            cyc = rng.sample(nodes, k)
            for i in range(k):
                table[cyc[i]].append(cyc[(i + 1) % k])
    if n and rng.random() < 0.3:  # self loops
        for _ in range(rng.randint(1, 2)):
            v = rng.choice(nodes)
            table[v].append(v)
    if n and rng.random() < 0.35:  # duplicate edges
        for _ in range(rng.randint(1, 3)):
            v = rng.choice(nodes)
            if table[v]:
                table[v].append(rng.choice(table[v]))
    missing = "empty"
    if outside and n:
        for o in outside:
            for _ in range(rng.randint(1, 2)):
                table[rng.choice(nodes)].append(o)
        if rng.random() < 0.45:  # outside vertices with neighbour lists of their own
            for o in outside:
                if rng.random() < 0.7:
                    table[o] = [rng.choice(lab) for _ in range(rng.randint(1, 3))]
        elif rng.random() < 0.15:
            missing = "keyerror"
    for v in table:
        rng.shuffle(table[v])
    return {"kind": "graph", "nodes": nodes, "table": [[v, table[v]] for v in rng.sample(list(table), len(table))],
            "nodes_style": rng.choice(["list", "list", "tuple", "gen", "dictkeys"]),
            "nbr_style": rng.choice(["list", "list", "tuple", "gen"]), "missing": missing, "dup": False}


def gen_dup(rng):
    c = gen_graph(rng, False)
    if c["nodes"]:
        for _ in range(rng.randint(1, 2)):
            c["nodes"].insert(rng.randrange(len(c["nodes"]) + 1), rng.choice(c["nodes"]))
        c["dup"] = True
        if c["nodes_style"] == "dictkeys":
            c["nodes_style"] = "list"
    return c


def gen_edges(rng, big: bool):
    hi = 12 if big else 9
    n = rng.randint(0, hi)
    shape = rng.choice(["random", "dag", "cycles"])
    m = rng.randint(0, 2 * n + 2) if n else 0
    edges = []
    for _ in range(m):
        u, v = rng.randrange(n), rng.randrange(n)
        if shape == "dag" and u >= v:
            u, v = v, u
            if u == v:
                continue
        edges.append([u, v])
    if shape == "cycles" and n >= 2:
        k = rng.randint(2, min(n, 5))
        cyc = rng.sample(range(n), k)
        edges += [[cyc[i], cyc[(i + 1) % k]] for i in range(k)]
    if edges and rng.random() < 0.3:
        edges.append(list(rng.choice(edges)))
    rng.shuffle(edges)
    return {"kind": "edges", "n": n, "edges": edges}


def edge_cases():
    def g(nodes, table, **kw):
        d = {"kind": "graph", "nodes": nodes, "table": table, "nodes_style": "list", "nbr_style": "list",
             "missing": "empty", "dup": False}
        d.update(kw)
        return d
    yield g([], [])
    yield g([0], [[0, []]])
    yield g([0], [[0, [0]]])
    yield g([0, 1], [[0, [1]], [1, [0]]])
    yield g(["a", "b", "c"], [["a", ["b"]], ["b", ["c"]], ["c", []]])
    yield g(["c", "b", "a"], [["a", ["b"]], ["b", ["c"]], ["c", []]], nodes_style="gen", nbr_style="gen")
    # the module docstring shape: two cycles joined by a bridge
    yield g([0, 1, 2, 3, 4, 5], [[0, [1]], [1, [2]], [2, [0, 3]], [3, [4]], [4, [5]], [5, [3]]])
    # low_link vs index on an on-stack node (classic Tarjan pitfall family)
    yield g([0, 1, 2, 3], [[0, [1]], [1, [2, 3]], [2, [0]], [3, [1]]])
    yield g([0, 1, 2, 3, 4], [[0, [1, 4]], [1, [2]], [2, [3, 1]], [3, [0]], [4, [2]]])
    # neighbours outside the node list: sink, and with own neighbours leading back in
    yield g([0], [[0, [1]]])
    yield g([0], [[0, [1]], [1, [2]], [2, []]])
    yield g([0, 1], [[0, [2]], [2, [1]], [1, [0]]])
    yield {"kind": "edges", "n": 0, "edges": []}
    yield {"kind": "edges", "n": 3, "edges": [[0, 1], [1, 0], [1, 2], [1, 2], [2, 2]]}
    yield {"kind": "edges", "n": 4, "edges": [[3, 2], [2, 1], [1, 0]]}


# ---------------------------------------------------------------------------
# implementation side (runs in a worker process)
# ---------------------------------------------------------------------------

def _key(x):
    return (0, x) if isinstance(x, int) else (1, str(x))


def universe(case):
    """All labels of a graph case in a fixed order (node list first); label -> small integer."""
    seen, out = set(), []
    for v in list(case["nodes"]) + [e[0] for e in case["table"]] + [w for e in case["table"] for w in e[1]]:
        if v not in seen:
            seen.add(v)
            out.append(v)
    return out


def impl(case):
    from solvor import scc as S
    if case["kind"] == "edges":
        n, edges = case["n"], [tuple(e) for e in case["edges"]]
        r1 = S.strongly_connected_components_edges(n, list(edges), backend="python")
        r2 = S.topological_sort_edges(n, list(edges), backend="python")
        return {"scc": {"status": r1.status.name, "sol": [list(c) for c in r1.solution], "objective": r1.objective},
                "topo": {"status": r2.status.name, "sol": None if r2.solution is None else list(r2.solution)}}
    ids = {v: i for i, v in enumerate(universe(case))}
    table = {e[0]: list(e[1]) for e in case["table"]}
    missing, nstyle = case["missing"], case["nbr_style"]

    def nb(v):
        if v in table:
            lst = table[v]
        elif missing == "keyerror":
            raise KeyError(v)
        else:
            lst = []
        if nstyle == "tuple":
            return tuple(lst)
        if nstyle == "gen":
            return (w for w in lst)
        return list(lst)

    def nodes():
        st = case["nodes_style"]
        if st == "tuple":
            return tuple(case["nodes"])
        if st == "gen":
            return (v for v in case["nodes"])
        if st == "dictkeys":
            return {v: None for v in case["nodes"]}.keys()
        return list(case["nodes"])

    out = {}

    def guard(name, f):
        try:
            out[name] = f()
        except Exception as e:  # noqa: BLE001 - the error kind is an observable
            out[name] = {"error": f"{type(e).__name__}: {e}"[:200]}

    def f_scc():
        r = S.strongly_connected_components(nodes(), nb)
        r_again = S.strongly_connected_components(nodes(), nb)
        sol = [[ids[x] for x in c] for c in r.solution]
        return {"status": r.status.name, "sol": sol, "objective": r.objective,
                "same_again": sol == [[ids[x] for x in c] for c in r_again.solution]}

    def f_topo():
        r = S.topological_sort(nodes(), nb)
        return {"status": r.status.name, "sol": None if r.solution is None else [ids[x] for x in r.solution]}

    def f_cond():
        r = S.condense(nodes(), nb)
        cn, adjd = r.solution
        pos = {}
        for i, fs in enumerate(cn):
            pos.setdefault(fs, i)
        ok_shape = (all(isinstance(fs, frozenset) for fs in cn) and len(pos) == len(cn)
                    and set(adjd.keys()) == set(cn) and all(t in pos for l in adjd.values() for t in l))
        comps = [sorted(ids[x] for x in fs) for fs in cn]
        cadj = [sorted(pos[t] for t in adjd[fs]) for fs in cn] if ok_shape else None
        dup_succ = ok_shape and any(len(set(l)) != len(l) for l in cadj)
        return {"status": r.status.name, "comps": comps, "cadj": cadj, "shape_ok": ok_shape, "dup_succ": dup_succ}

    guard("scc", f_scc)
    guard("topo", f_topo)
    guard("cond", f_cond)
    return out


def to_request(case, out):
    if case["kind"] == "edges":
        n = case["n"]
        nodes = list(range(n))
        tab = [[u, [v for (a, v) in case["edges"] if a == u]] for u in range(n)]
    else:
        uni = universe(case)
        ids = {v: i for i, v in enumerate(uni)}
        nodes, seen = [], set()
        for v in case["nodes"]:  # the Lean side works on the node set in first-occurrence order
            if v not in seen:
                seen.add(v)
                nodes.append(ids[v])
        tab = [[ids[e[0]], [ids[w] for w in e[1]]] for e in case["table"]]
    scc = topo = cond = None
    if out is not None:
        s = out.get("scc")
        if s and "error" not in s:
            scc = s["sol"]
        t = out.get("topo")
        if t and "error" not in t and not case.get("dup"):
            topo = [0] if t["sol"] is None else [1, t["sol"]]
        c = out.get("cond")
        if c and "error" not in c and c["cadj"] is not None:
            cond = [c["comps"], c["cadj"]]
    return ["case", nodes, tab, scc, topo, cond]


# ---------------------------------------------------------------------------
# comparison
# ---------------------------------------------------------------------------

def failures(case, out, reply):
    """All failed R_prop clauses of one case as (function, klass, what); plus R_trace differences."""
    fails, tdivs, counts = [], [], []
    sfx = "_edges" if case["kind"] == "edges" else ""
    if out[0] != "ok":
        fails.append((FUNCS[0] + sfx, "raises:" + err_kind(out), f"valid input raised/timed out: {out[1]}"))
        return fails, tdivs, counts
    r = out[1]
    closed, m_scc, m_topo, m_cadj, cert, v_scc, v_topo, v_cond = reply[:8]
    keyerr = case.get("missing") == "keyerror"
    dup = bool(case.get("dup"))
    tag = "" if closed else ":outside"
    counts.append("closed" if closed else "outside_neighbours")
    if not closed and case["kind"] == "graph":
        nodeset = set(case["nodes"])
        nonsink = any(e[0] not in nodeset and e[1] for e in case["table"])
        counts.append("outside:" + ("with_own_neighbours" if nonsink else "sinks"))

    def pick(v):  # the deciding verdict: strict on closed inputs, common clauses otherwise
        return v[1] if closed else v[2]

    def reading(fn, v):
        if not closed:
            counts.append(f"outside:{fn}:" + ("A" if v[0] else "") + ("B" if v[1] else "") +
                          ("" if v[0] or v[1] else "common-only" if v[2] else "none"))

    # --- strongly_connected_components -------------------------------------------------
    fn = FUNCS[0] + sfx
    s = r["scc"]
    if "error" in s:
        if keyerr and s["error"].startswith("KeyError"):
            counts.append("outside_keyerror:scc_raises")  # neighbour function undefined outside: not judged
        else:
            fails.append((fn, "raises:" + s["error"].split(":")[0] + tag, "valid input raised: " + s["error"]))
    else:
        counts.append(f"scc:{len(s['sol'])}_components" if len(s["sol"]) < 4 else "scc:>=4_components")
        if s["status"] != "OPTIMAL":
            fails.append((fn, "bad_status", f"status {s['status']}"))
        if not pick(v_scc):
            fails.append((fn, "not_scc_decomposition" + tag,
                          f"components {s['sol']} rejected by the verified checker chkScc "
                          f"(a correct decomposition: {m_scc})"))
        reading("scc", v_scc)
        if not s.get("same_again", True):
            fails.append((fn, "nondeterministic", "second call on the same input gave a different answer"))
        if s["sol"] != m_scc:
            tdivs.append((fn, {"impl": s["sol"], "mirror": m_scc}))
    # --- topological_sort -----------------------------------------------------------------
    fn = FUNCS[1] + sfx
    t = r["topo"]
    if "error" in t:
        if keyerr and t["error"].startswith("KeyError"):
            counts.append("outside_keyerror:topo_raises")
        else:
            fails.append((fn, "raises:" + t["error"].split(":")[0] + tag, "valid input raised: " + t["error"]))
    elif dup:
        counts.append("dup_nodes:topo:" + t["status"])  # duplicates in the node iterable: not judged
    else:
        counts.append("topo:" + t["status"])
        if t["sol"] is None:
            if t["status"] != "INFEASIBLE":
                fails.append((fn, "bad_status", f"no order but status {t['status']}"))
            elif not pick(v_topo):
                fails.append((fn, "false_infeasible" + tag,
                              f"INFEASIBLE although the graph is acyclic (verified cyclicB = false); "
                              f"a topological order: {m_topo}"))
        else:
            if t["status"] != "OPTIMAL":
                fails.append((fn, "bad_status", f"order returned with status {t['status']}"))
            if not pick(v_topo):
                k = "order_for_cyclic_graph" if (m_topo is None) else "bad_order"
                fails.append((fn, k + tag, f"order {t['sol']} rejected by the verified checker chkTopo "
                              f"(mirror: {m_topo})"))
        reading("topo", v_topo)
        if t["sol"] != m_topo:
            tdivs.append((fn, {"impl": t["sol"], "mirror": m_topo}))
    # --- condense -----------------------------------------------------------------------------
    if case["kind"] == "graph":
        fn = FUNCS[2]
        c = r["cond"]
        if "error" in c:
            if keyerr and c["error"].startswith("KeyError"):
                counts.append("outside_keyerror:condense_raises")
            else:
                fails.append((fn, "raises:" + c["error"].split(":")[0] + tag, "valid input raised: " + c["error"]))
        else:
            if c["status"] != "OPTIMAL":
                fails.append((fn, "bad_status", f"status {c['status']}"))
            if not c["shape_ok"]:
                fails.append((fn, "malformed_condensation", "condensed nodes are not distinct frozensets keyed "
                              "consistently in the adjacency dict"))
            else:
                if c["dup_succ"]:
                    fails.append((fn, "duplicate_successor", "a component lists the same successor twice"))
                if not pick(v_cond):
                    fails.append((fn, "not_condensation" + tag,
                                  f"(components, edges) = ({c['comps']}, {c['cadj']}) rejected by the verified "
                                  f"checker chkCondense (mirror: {m_scc}, {m_cadj})"))
                reading("condense", v_cond)
                if "error" not in s and c["comps"] != [sorted(x) for x in s["sol"]]:
                    fails.append((fn, "components_differ_from_scc", "condensed nodes are not the components "
                                  "strongly_connected_components returns on the same input"))
                if (c["comps"], c["cadj"]) != ([sorted(x) for x in m_scc], [sorted(x) for x in m_cadj]):
                    tdivs.append((fn, {"impl": [c["comps"], c["cadj"]], "mirror": [m_scc, m_cadj]}))
    # the mirror's own outputs must pass the verified checkers (tarjan_certifies / kahn_correct say they
    # always do; evaluating it ties the compiled driver to the theorems)
    if not (cert[0] and cert[1] and (cert[2] if closed else cert[3])):
        tdivs.append(("mirror", {"certificate_of_mirror_failed": cert, "mirror": [m_scc, m_topo, m_cadj]}))
    return fails, tdivs, counts


def evaluate(cases):
    outs = run_pool(impl, cases, timeout=30.0)
    reqs = [to_request(c, o[1] if o[0] == "ok" else None) for c, o in zip(cases, outs)]
    replies = Driver("Graph").run(reqs, chunks=8)
    for rp in replies:
        if rp and rp[0] == "error":
            raise core.Infra(f"Graph model rejected a request: {rp}")
        if len(rp) != 9 or rp[8] is not True:
            # hypothesis of the chk…Open_correct theorems (universe closed, contains the node list)
            raise core.Infra(f"Graph driver: request universe not closed under the neighbour table: {rp}")
    return outs, replies


def shrink(case, fn, klass):
    """Greedy structural shrinking: drop edges / nodes while the same (function, class) still fails."""
    hist = []
    for _ in range(40):
        cands = []
        if case["kind"] == "edges":
            for i in range(len(case["edges"])):
                cands.append({**case, "edges": case["edges"][:i] + case["edges"][i + 1:]})
        else:
            for i, v in enumerate(case["nodes"]):
                rest = case["nodes"][:i] + case["nodes"][i + 1:]
                cands.append({**case, "nodes": rest})
            for i, e in enumerate(case["table"]):
                if not e[1]:
                    cands.append({**case, "table": case["table"][:i] + case["table"][i + 1:]})
                for j in range(len(e[1])):
                    e2 = [e[0], e[1][:j] + e[1][j + 1:]]
                    cands.append({**case, "table": case["table"][:i] + [e2] + case["table"][i + 1:]})
        if not cands:
            break
        outs, replies = evaluate(cands)
        for c, o, rp in zip(cands, outs, replies):
            if any((f, k) == (fn, klass) for f, k, _ in failures(c, o, rp)[0]):
                hist.append({"nodes": len(c.get("nodes", [])), "edges": sum(len(e[1]) for e in c.get("table", []))
                             if c["kind"] == "graph" else len(c["edges"])})
                case = c
                break
        else:
            break
    return case, hist


def run_cases(ctx, cases, do_shrink=True):
    outs, replies = evaluate(cases)
    shrunk = 0
    for case, out, rp in zip(cases, outs, replies):
        fails, tdivs, counts = failures(case, out, rp)
        for k in counts:
            ctx.count(k)
        ctx.count("kind:" + case["kind"] + (":dup_nodes" if case.get("dup") else ""))
        closed, m_scc, m_topo, m_cadj, cert = rp[0], rp[1], rp[2], rp[3], rp[4]
        ctx.cov["cert_checked_model"] = ctx.cov.get("cert_checked_model", 0) + 1
        ctx.cov["cert_checked_impl"] = ctx.cov.get("cert_checked_impl", 0) + sum(v is not None for v in rp[5:8])
        if not tdivs:
            ctx.cov["r_trace_agree"] = ctx.cov.get("r_trace_agree", 0) + 1
        for fn, klass, what in fails:
            rep = {"case": case, "impl": out, "model": rp}
            if do_shrink and shrunk < 3 and ctx.known_match(fn, klass) is None:
                shrunk += 1
                small, hist = shrink(case, fn, klass)
                so, sr = evaluate([small])
                rep = {"case": small, "impl": so[0], "model": sr[0], "original_case": case, "shrink_history": hist}
            ctx.fail(fn, klass, what, rep)
        for fn, detail in tdivs:
            ctx.tdiv(fn, {"case": case, **detail})
        if case["kind"] == "graph":
            tab = {e[0]: e[1] for e in case["table"]}
            loops = any(v in tab.get(v, []) for v in case["nodes"])
            canon = [case["nodes"], sorted(([e[0], e[1]] for e in case["table"]), key=lambda e: _key(e[0]))]
        else:
            loops = any(u == v for u, v in case["edges"])
            canon = [case["n"], case["edges"]]
        nontrivial = loops or any(len(c) >= 2 for c in m_scc)
        if nontrivial:
            ctx.count("nontrivial:big_component" if any(len(c) >= 2 for c in m_scc) else "nontrivial:self_loop_only")
        ctx.case(canon, nontrivial, {"case": case, "impl": out[1] if out[0] == "ok" else out,
                                     "mirror": {"scc": m_scc, "topo": m_topo, "cadj": m_cadj}, "closed": closed})


def run(ctx, budget):
    ctx.cov["rule"] = RULE
    cases = list(edge_cases()) + [c["case"] for c in core.load_corpus("C14")]
    n = 4000 * budget
    big = ctx.tier == "thorough"
    for i in range(n):
        r = i % 10
        if r == 8:
            cases.append(gen_edges(ctx.rng, big and i % 3 == 0))
        elif r == 9 and i % 50 == 9:
            cases.append(gen_dup(ctx.rng))
        else:
            cases.append(gen_graph(ctx.rng, big and i % 3 == 0))
    run_cases(ctx, cases)


def replay(ctx, body):
    ctx.cov["rule"] = RULE
    run_cases(ctx, [body["case"]], do_shrink=False)
